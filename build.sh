#!/bin/bash
# Builds the harness binary from /repo's current working tree + /verif/h overlay.
# usage: build.sh            -> /verif/.build/verifh
set -e
export GOFLAGS=-mod=mod GOPROXY=off GOSUMDB=off GOTOOLCHAIN=local
V=/verif
R=${VERIF_REPO:-/repo}
B=${VERIF_BUILD:-$V/.build}
mkdir -p $B
python3 - "$V" "$R" "$B" <<'PY'
import json,os,sys,glob
V,R,B=sys.argv[1:4]
rep={}
for f in sorted(glob.glob(V+'/h/*.go')):
    rep[R+'/internal/verifh/'+os.path.basename(f)]=f
json.dump({'Replace':rep},open(B+'/overlay.json','w'),indent=1)
PY
cd $R
go build -tags verif -overlay $B/overlay.json -o $B/verifh ./internal/verifh
# the esbuild command itself, from the same tree (command-line sub-checks)
go build -o $B/esbuild-real ./cmd/esbuild
