#!/bin/bash
# usage: seedstore.sh <ID> <caught-initially yes|no> <caught-now yes|no> "<summary>" "<strengthening>"
ID=$1; R=${6:-1}; D=/verif/seeded/$ID; W=/tmp/wt-$ID; if [ "$R" != "1" ]; then D=/verif/seeded/$ID-r$R; W=/tmp/w$R-$ID; fi
mkdir -p $D
cp $W/seed_patch.diff $D/patch.diff
cp $W/seed_demo.md $D/demo.md
python3 - "$@" <<'PY'
import json,sys
i,ci,cn,summ,stren=sys.argv[1:6]
rnd=sys.argv[6] if len(sys.argv)>6 else '1'
d=f'/verif/seeded/{i}' + (f'-r{rnd}' if rnd!='1' else '')
json.dump({"property":i,"author":"independent sub-agent (given only the property text and a scratch worktree)","files":[l[6:].strip() for l in open(d+'/patch.diff') if l.startswith('+++ b/')],
 "summary":summ,"compiles":True,"repository_tests_pass":True,"caught_by_check_as_first_built":ci=="yes","caught_by_current_check":cn=="yes","strengthening":stren,
 "round":int(rnd),"how_to_reproduce":f"git -C /repo apply {d}/patch.diff && ./check {i} --tier quick; git -C /repo checkout -- ."}, open(d+'/meta.json','w'), indent=1)
PY
echo stored $ID
