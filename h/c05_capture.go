package main

import "strings"

// Capture matrix: the function-level bindings (this, arguments, new.target, super) used inside every chain of
// <= 3 nested arrow functions (each plain or async, optionally through a default parameter value) inside every
// kind of enclosing function. Lowering async arrows to generator functions has to capture exactly these bindings.

type c05Outer struct {
	name string
	pre  string // before the chain expression
	post string // after it
	uses []string
}

var c05ThisArgs = []string{"this === a", "arguments[0] === b", "[arguments.length, arguments[0] === b, arguments[1]]", "[this === a, arguments[0] === b]"}
var c05Super = []string{"super.m()", "super.x", "[this instanceof B, super.m(), arguments[0] === b]", "this instanceof B", "arguments[0] === b", "(super.y = 5, this.y)", "super['m']()"}

var c05Outers = []c05Outer{
	{"function", "function f() { return ", " } return f.call(a, b, c);", append([]string{"new.target === undefined"}, c05ThisArgs...)},
	{"new-function", "function f() { this.r = ", " } return new f(b, c).r;", []string{"new.target === f", "arguments[0] === b", "this instanceof f"}},
	{"async-function", "async function f() { return ", " } return f.call(a, b, c);", c05ThisArgs},
	{"generator", "function* f() { yield ", " } return f.call(a, b, c).next().value;", c05ThisArgs},
	{"method", "class A { m() { return ['Am', this instanceof B] } get x() { return ['Ax', this instanceof B] } set y(v) { this.yy = v } get y() { return this.yy } } class B extends A { m() { return ", " } } return new B().m(b, c);", c05Super},
	{"async-method", "class A { m() { return ['Am', this instanceof B] } get x() { return ['Ax', this instanceof B] } set y(v) { this.yy = v } get y() { return this.yy } } class B extends A { async m() { return ", " } } return new B().m(b, c);", c05Super},
	{"static-method", "class A { static m() { return ['Am', this === B] } static get x() { return ['Ax', this === B] } } class B extends A { static m() { return ", " } } return B.m(b, c);", []string{"super.m()", "super.x", "this === B", "[super.m(), arguments[0] === b]"}},
	{"constructor", "class A { constructor() { this.k = 1 } m() { return ['Am', this.k] } } class B extends A { constructor() { super(); this.r = ", " } } return new B(b, c).r;", []string{"super.m()", "new.target === B", "this.k", "arguments[0] === b"}},
	{"object-method", "var o = {__proto__: {m() { return ['Pm', this === o] }, get x() { return ['Px', this === o] }}, m() { return ", " }}; return o.m(b, c);", []string{"super.m()", "super.x", "this === o", "arguments[0] === b"}},
	{"field-initializer", "class A { m() { return ['Am', this instanceof B] } } class B extends A { r = ", " } return new B().r;", []string{"super.m()", "this instanceof B"}},
}

// c05Chains: all words over {a = arrow, A = async arrow, d = arrow with the use in a default parameter, D = async ditto}
func c05Chains(maxLen int) []string {
	out := []string{""}
	level := []string{""}
	for l := 1; l <= maxLen; l++ {
		var next []string
		for _, w := range level {
			for _, k := range []string{"a", "A"} {
				next = append(next, w+k)
			}
		}
		out = append(out, next...)
		level = next
	}
	// default-parameter variants of the innermost link
	var dp []string
	for _, w := range out {
		if w != "" {
			dp = append(dp, w[:len(w)-1]+map[byte]string{'a': "d", 'A': "D"}[w[len(w)-1]])
		}
	}
	return append(out, dp...)
}

func c05Wrap(chain, use string) string {
	e := use
	for i := len(chain) - 1; i >= 0; i-- {
		switch chain[i] {
		case 'a':
			e = "(() => " + e + ")()"
		case 'A':
			e = "(async () => " + e + ")()"
		case 'd':
			e = "((q = " + e + ") => q)()"
		case 'D':
			e = "(async (q = " + e + ") => q)()"
		}
	}
	return e
}

func c05CaptureSpace(tier string) xseg {
	maxLen := 2
	if tier != "quick" {
		maxLen = 3
	}
	type item struct{ code, kind string }
	var items []item
	for _, o := range c05Outers {
		for _, ch := range c05Chains(maxLen) {
			for _, u := range o.uses {
				if o.name == "field-initializer" && ch == "" {
					continue
				}
				kind := ""
				if strings.ContainsAny(ch, "AD") || strings.HasPrefix(o.name, "async") {
					kind = "async-result"
				}
				items = append(items, item{o.pre + c05Wrap(ch, u) + o.post, kind})
			}
		}
	}
	return xseg{"capture-matrix: outer function kind x arrow chain x captured binding", uint64(len(items)), func(i uint64) xcase {
		return xcase{code: xProgram(items[i].code, ""), kind: items[i].kind, label: "capture"}
	}}
}
