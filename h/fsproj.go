package main

// E5: real-disk scratch projects.

import (
	"crypto/sha256"
	"encoding/hex"
	"fmt"
	"os"
	"path/filepath"
	"sort"
	"strings"
)

func scratchRoot(prefix string) string {
	base := "/dev/shm"
	if _, err := os.Stat(base); err != nil {
		base = os.TempDir()
	}
	d, err := os.MkdirTemp(base, "verif-"+prefix+"-")
	if err != nil {
		fatalf("mkdtemp: %v", err)
	}
	return d
}

// writeTree writes files (relative path -> content). A value starting with "SYMLINK:" creates a symlink.
func writeTree(root string, files map[string]string) {
	keys := make([]string, 0, len(files))
	for k := range files {
		keys = append(keys, k)
	}
	sort.Strings(keys)
	for _, k := range keys {
		p := filepath.Join(root, k)
		os.MkdirAll(filepath.Dir(p), 0o755)
		v := files[k]
		if strings.HasPrefix(v, "SYMLINK:") {
			os.Remove(p)
			if err := os.Symlink(v[8:], p); err != nil {
				fatalf("symlink: %v", err)
			}
			continue
		}
		if err := os.WriteFile(p, []byte(v), 0o644); err != nil {
			fatalf("write %s: %v", p, err)
		}
	}
}

type snapEntry struct {
	Kind string // file | dir | link
	Hash string
	Size int64
}

// snapshot walks root (not following symlinks) and returns path -> entry.
func snapshot(root string) map[string]snapEntry {
	out := map[string]snapEntry{}
	filepath.Walk(root, func(p string, info os.FileInfo, err error) error {
		if err != nil || p == root {
			return nil
		}
		rel, _ := filepath.Rel(root, p)
		switch {
		case info.Mode()&os.ModeSymlink != 0:
			t, _ := os.Readlink(p)
			out[rel] = snapEntry{Kind: "link", Hash: t}
		case info.IsDir():
			out[rel] = snapEntry{Kind: "dir"}
		default:
			data, _ := os.ReadFile(p)
			h := sha256.Sum256(data)
			out[rel] = snapEntry{Kind: "file", Hash: hex.EncodeToString(h[:8]), Size: info.Size()}
		}
		return nil
	})
	return out
}

func snapDiff(a, b map[string]snapEntry) (created, modified, deleted []string) {
	for k, v := range b {
		if o, ok := a[k]; !ok {
			created = append(created, k)
		} else if o != v {
			modified = append(modified, k)
		}
	}
	for k := range a {
		if _, ok := b[k]; !ok {
			deleted = append(deleted, k)
		}
	}
	sort.Strings(created)
	sort.Strings(modified)
	sort.Strings(deleted)
	return
}

var _ = fmt.Sprint
