package main

// C03: minification never changes behaviour; compile-time evaluation equals the language's value.

import (
	"fmt"
	"strings"

	"github.com/evanw/esbuild/pkg/api"
)

var c03Cfgs = []xcfg{
	{"syntax", api.TransformOptions{MinifySyntax: true}},
	{"syntax+ws", api.TransformOptions{MinifySyntax: true, MinifyWhitespace: true}},
	{"syntax+ids", api.TransformOptions{MinifySyntax: true, MinifyIdentifiers: true}},
	{"all", api.TransformOptions{MinifySyntax: true, MinifyIdentifiers: true, MinifyWhitespace: true}},
	{"ids+ws", api.TransformOptions{MinifyIdentifiers: true, MinifyWhitespace: true}},
	{"all+keepnames", api.TransformOptions{MinifySyntax: true, MinifyIdentifiers: true, MinifyWhitespace: true, KeepNames: true}},
	{"syntax+esm", api.TransformOptions{MinifySyntax: true, Format: api.FormatESModule}},
	{"all+iife", api.TransformOptions{MinifySyntax: true, MinifyIdentifiers: true, MinifyWhitespace: true, Format: api.FormatIIFE}},
}

// boundary-value literal grid for constant folding
var c03Grid = []string{"0", "-0", "1", "-1", "0.5", "2147483647", "2147483648", "4294967295", "4294967296", "9007199254740992", "1e21", "NaN", "Infinity", "-Infinity",
	"\"\"", "\"0\"", "\" 1 \"", "\"1e3\"", "\"a\"", "\"b\"", "\"\\ud800\"", "\"\\uffff\"", "\"\\ud83d\\ude00\"", "true", "false", "null", "undefined", "0n", "1n", "-1n", "[]", "{}", "/x/", "function() {}",
	"\"abc\"", "\"ab\"", "31", "32", "33", "-2147483648", "1.5", "\"0x10\"", "\"-0\"", "\"Infinity\"", "\"\\n\"", "void 0", "[1]", "[1, 2]", "{a: 1}", "\"1\"", "3", "-3", "5e-324", "1e308", "255", "-5"}

var c03BinOps = []string{"+", "-", "*", "/", "%", "**", "<<", ">>", ">>>", "&", "|", "^", "==", "!=", "===", "!==", "<", "<=", ">", ">=", "&&", "||", "??", ","}
var c03UnOps = []string{"-", "+", "!", "~", "typeof ", "void "}

var c03FoldCfgs = []xcfg{
	{"syntax", api.TransformOptions{MinifySyntax: true}},
	{"all", api.TransformOptions{MinifySyntax: true, MinifyIdentifiers: true, MinifyWhitespace: true}},
}

// Patterns that make the minifier substitute / inline / simplify; $E is a tree, probes everywhere.
var c03Patterns = []string{
	"let x = $0; return x;",
	"let x = $0; return [x];",
	"let x = $0; return x + H.p(90, 1);",
	"let x = $0; return H.p(90, 1) + x;",
	"let x = $0; return H.p(90, a) ? x : 2;",
	"let x = $0; return x ? H.p(90, 1) : 2;",
	"let x = $0; return H.f(90, 0)(x);",
	"let x = $0; return H.f(90, 0)(H.p(91, 1), x);",
	"let x = $0; return a.b = x;",
	"let x = $0; return b[H.p(90, 'k')] = x;",
	"let x = $0; return H.p(90, b).c = x;",
	"let x = $0; return x.c = H.p(90, 1);",
	"let x = $0; return [H.p(90, 1), x];",
	"let x = $0; return {k: H.p(90, 1), v: x};",
	"let x = $0; return {[H.p(90, 'k')]: x};",
	"let x = $0; return `${H.p(90, 1)}${x}`;",
	"let x = $0; return x && H.p(90, 1);",
	"let x = $0; return H.p(90, a) && x;",
	"let x = $0; return x?.y;",
	"let x = $0; return b?.[x];",
	"let x = $0; return typeof x;",
	"let x = $0; return -x;",
	"let x = $0; return x++;",
	"let x = $0; return x = 1;",
	"let x = $0; return () => x;",
	"let x = $0; return (() => x)();",
	"let x = $0; return function() { return x }();",
	"let x = $0; if (x) return H.p(90, 1); return 2;",
	"let x = $0; if (H.p(90, a)) return x; return 2;",
	"let x = $0; for (;x;) break; return 1;",
	"let x = $0; while (H.p(90, 0)) x; return x;",
	"let x = $0; switch (x) { case H.p(90, 1): return 1 } return 2;",
	"let x = $0; throw x;",
	"let x = $0; var y = x; return y;",
	"let x = $0, y = H.p(90, 1); return [y, x];",
	"let x = $0, y = H.p(90, 1); return x + y;",
	"let x = $0; let y = H.p(90, 1); return y + x;",
	"let x = $0; return x + x;",
	"let x = $0; x; return 1;",
	"let x = $0; return arguments[x];",
	"let x = $0; return new.target ? 1 : x;",
	"let x = $0; return await_ => x;",
	"const x = $0; return x;",
	"const x = $0; return H.p(90, 1) + x;",
	"var x = $0; return x;",
	"var x = $0; return H.p(90, 1) + x;",
	"let x = $0; return a + x;",
	"let x = $0; return a.b + x;",
	"let x = $0; return a[b] + x;",
	"let x = $0; return a() + x;",
	"let x = $0; return [a, x];",
	"let x = $0; return [...a, x];",
	"let x = $0; return {...a, x};",
	"let x = $0; return a in x;",
	"let x = $0; return x in a;",
	"let x = $0; return a == x;",
	"let x = $0; return `${a}${x}`;",
	"let x = $0; return a`t${x}`;",
	"let x = $0; return a ?? x;",
	"let x = $0; return (a, x);",
	"let x = $0; return a = x, a;",
	"let x = $0; a = 1; return x;",
	"let x = $0; a.b = 1; return x;",
	"let x = $0; return delete a.b, x;",
	"let x = $0; return c(x);",
	"let x = $0; return c.d(x);",
	"let x = $0; return new c(x);",
	"let x = $0; return c?.(x);",
	"let x = $0; return import_(x);",
	"let x = $0; return b ? x : 1;",
	"let x = $0; return [b ? 1 : 2, x];",
	"let x = $0; return typeof b + x;",
	"let x = $0; return typeof undeclared_ + x;",
	"let x = $0; return class { static y = x }.y;",
	"let x = $0; return class { [x]() {} };",
	"let x = $0; return {get y() { return x }}.y;",
	"if (H.p(90, a)) return $0; return H.p(91, 2);",
	"if (H.p(90, a)) return $0; else return H.p(91, 2);",
	"if (H.p(90, a)) { H.p(91, 0); return $0 } return H.p(92, 2);",
	"if (H.p(90, a)) $0; else H.p(91, 2);",
	"if (H.p(90, a)) $0;",
	"if (!H.p(90, a)) $0; else H.p(91, 2);",
	"if ($0) return 1; return 2;",
	"if ($0) return 1; else if (H.p(90, b)) return 2; return 3;",
	"if ($0) { if (H.p(90, b)) return 1 } else return 2; return 3;",
	"if ($0) {} else return 2; return 3;",
	"if ($0) return; H.p(90, 1);",
	"if ($0) H.p(90, 1); else H.p(90, 1);",
	"if ($0) a = 1; else a = 2; return a;",
	"if ($0) a.b = 1; else a.b = 2; return a;",
	"if ($0) H.f(90, 0)(1); else H.f(90, 0)(2);",
	"if ($0) return H.f(90, 0)(1); return H.f(90, 0)(2);",
	"if ($0) throw 1; throw 2;",
	"return $0 ? true : false;",
	"return $0 ? false : true;",
	"return $0 ? 1 : 1;",
	"return $0 ? a : a;",
	"return $0 ? a.b : a.b;",
	"return $0 ? H.p(90, 1) : H.p(90, 1);",
	"return $0 ? a : b ? a : c;",
	"return $0 ? (H.p(90, b) ? 1 : 2) : 2;",
	"return $0 ? 1 : (H.p(90, b) ? 1 : 2);",
	"return !$0 ? 1 : 2;",
	"return $0 != null ? $0 : 1;",
	"return a != null ? a : $0;",
	"return a == null ? $0 : a;",
	"return a != null ? a.b : void 0;",
	"return a == null ? void 0 : a.b;",
	"return a == null ? undefined : a[$0];",
	"return a === null || a === void 0 ? void 0 : a.b;",
	"return a !== null && a !== undefined ? a : $0;",
	"return a ? a : $0;",
	"return a ? $0 : a;",
	"return !a ? $0 : a;",
	"return (a, $0) ? 1 : 2;",
	"return !!$0;",
	"return !!!$0;",
	"return !($0 == a);",
	"return !($0 < a);",
	"return !($0 && a);",
	"return !(!$0 || !a);",
	"return -(-$0);",
	"return +(+$0);",
	"return ~~$0;",
	"return $0 + '';",
	"return '' + $0;",
	"return `${$0}`;",
	"return `a${$0}b` + 'c';",
	"return 'a' + $0 + 'b' + 'c';",
	"return $0 + 'b' + 'c';",
	"return ($0 + 1) + 2;",
	"return 1 + ($0 + 2);",
	"return 1 + 2 + $0;",
	"return $0 + 1 + 2;",
	"return ($0 - 1) - 2;",
	"return ($0 * 2) * 3;",
	"return $0 | 0;",
	"return ($0 | 0) | 0;",
	"return ($0 >>> 0) >>> 0;",
	"return $0 * 1;",
	"return $0 / 1;",
	"return $0 - 0;",
	"return $0 + 0;",
	"return 0 + $0;",
	"return $0 ** 1;",
	"return $0 === true;",
	"return $0 == true;",
	"return $0 === undefined;",
	"return $0 == undefined;",
	"return typeof $0 === 'undefined';",
	"return typeof $0 == 'string';",
	"return typeof $0 < 'u';",
	"return void $0;",
	"return void 0 === $0;",
	"return ($0, void 0);",
	"return [$0][0];",
	"return [1, $0, 3][1];",
	"return [1, $0, 3].length;",
	"return {a: $0}.a;",
	"return {a: 1, b: $0}.a;",
	"return {a: 1, ...$0}.a;",
	"return [...[$0, 1]];",
	"return [...[], $0];",
	"return H.f(90, 0)(...[$0, 1]);",
	"return {...{a: $0}};",
	"return {...{get a() { return $0 }}};",
	"return 'abc'[$0];",
	"return 'abc'.length + $0;",
	"return 'a'.concat($0);",
	"return [$0].concat(1);",
	"return (() => $0)();",
	"return (() => { return $0 })();",
	"return (() => { $0 })();",
	"return (() => {})($0);",
	"return (function() {})($0);",
	"return (function() { return $0 })();",
	"return ((x) => x)($0);",
	"return ((x) => 1)($0);",
	"return ((...x) => x)($0);",
	"function id(x) { return x } return id($0);",
	"function noop() {} return noop($0);",
	"function noop() {} noop($0); return 1;",
	"function noop() {} return [noop($0), noop(...a)];",
	"function k() { return 1 } return k($0);",
	"var id = (x) => x; return id($0);",
	"const id = function(x) { return x }; return id($0);",
	"$0; return 1;",
	"void $0; return 1;",
	"!$0; return 1;",
	"typeof $0; return 1;",
	"[$0]; return 1;",
	"({a: $0}); return 1;",
	"({[$0]: 1}); return 1;",
	"`${$0}`; return 1;",
	"$0 + 1; return 1;",
	"$0 + ''; return 1;",
	"$0 == 1; return 1;",
	"$0 === 1; return 1;",
	"$0 < 1; return 1;",
	"$0 in a; return 1;",
	"$0 instanceof a; return 1;",
	"a.b; return 1;",
	"a[$0]; return 1;",
	"a?.b; return 1;",
	"$0 ? H.p(90, 1) : 0; return 1;",
	"$0 ? 0 : H.p(90, 1); return 1;",
	"$0 && H.p(90, 1); return 1;",
	"$0 || H.p(90, 1); return 1;",
	"$0 ?? H.p(90, 1); return 1;",
	"$0 && 1; return 1;",
	"new a($0); return 1;",
	"new Object($0); return 1;",
	"new Array($0); return 1;",
	"new Map($0); return 1;",
	"new Set([$0]); return 1;",
	"new Date($0); return 1;",
	"Object($0); return 1;",
	"String($0); return 1;",
	"Symbol($0); return 1;",
	"Object.create($0); return 1;",
	"Math.abs($0); return 1;",
	"Number($0); return 1;",
	"Boolean($0); return 1;",
	"return Boolean($0);",
	"return !Boolean($0);",
	"return Number($0) + String($0);",
	"return String($0) + '';",
	"return [].concat($0);",
	"return [$0].join();",
	"return 'x'.toString() + $0;",
	"return Math.pow($0, 2);",
	"while ($0) { return 1 } return 2;",
	"while (1) { if ($0) break; return 1 } return 2;",
	"while (1) { if (!$0) break; return 1 } return 2;",
	"for (;;) { if ($0) break; return 1 } return 2;",
	"for (;;) { if ($0) {} else break; return 1 } return 2;",
	"for (var i = 0; $0 && i < 3; i++) { if (H.p(90, a)) continue; return 1 } return 2;",
	"do { if ($0) continue; H.p(90, 0) } while (0); return 2;",
	"x: { if ($0) break x; H.p(90, 0) } return 2;",
	"x: for (;;) { for (;;) { if ($0) break x; return 1 } } return 2;",
	"function f(x = $0) {} f(); return 1;",
	"function f(x = $0) {} f(undefined); f(1); return 1;",
	"function f(x, y = $0) {} return f(1);",
	"function f({x = $0}) {} f({}); return 1;",
	"function f([x = $0]) {} f([]); return 1;",
	"function f(x = $0) { return x } return f();",
	"var f = function(x = $0) {}; f(); return 1;",
	"var f = (x = $0) => {}; f(); return 1;",
	"function f(x) {} return f($0);",
	"function f(x) { return x } return f($0);",
	"function f(x) { return x } return f($0, $1);",
	"function f(...x) {} f($0); return 1;",
	"switch (1) { case 1: return $0 } return 2;",
	"switch ($0) { } return 2;",
	"switch ($0) { default: } return 2;",
	"switch ($0) { default: return 1 } return 2;",
	"switch ($0) { case 1: } return 2;",
	"switch ($0) { case H.p(90, 1): case 2: } return 2;",
	"switch ($0) { case 1: return 1; default: return 2 }",
	"switch ($0) { case 1: break; default: return 2 } return 3;",
	"switch (1) { case $0: return 1; case 1: return 2 } return 3;",
	"switch (0) { case 1: $0; } return 3;",
	"try { $0 } catch { } return 1;",
	"try { } catch { $0 } return 1;",
	"try { } finally { $0 } return 1;",
	"try { return 1 } finally { $0 }",
	"try { throw 1 } catch (e) { return $0 }",
	"return; $0;",
	"return 1; $0;",
	"throw 1; $0;",
	"return 1; var x = $0;",
	"return typeof x; var x = $0;",
	"return typeof fn; function fn() { $0 }",
	"if (0) { var x = $0 } return typeof x;",
	"if (0) { let x = $0 } return typeof x;",
	"if (0) { function fn() {} } return typeof fn;",
	"if (1) { var x = $0 } return typeof x;",
	"if (1) return $0; else { var x } return 2;",
	"if (0) $0; else return 2; return 3;",
	"if (1) return 1; return $0;",
	"return 0 ? $0 : 2;",
	"return 1 ? 2 : $0;",
	"return 0 && $0;",
	"return 1 || $0;",
	"return null ?? $0;",
	"return 1 ?? $0;",
	"return '' || $0;",
	"return 'a' && $0;",
	"return (0, $0);",
	"return ($0, 0);",
	"return (a, $0, b);",
	"return [0 && $0, 1 || $0, 0 || $0, 1 && $0];",
	"return typeof ($0, a);",
	"return (0, a.b)($0);",
	"return (0, eval)('1') + $0;",
	"return (1, a.b);",
	"return delete (0, a.b);",
	"return typeof (0, undeclared_) === 'undefined' ? $0 : 1;",
	"var o = {a: $0}; return o.a;",
	"var o = {}; o.a = $0; return o;",
	"var o = {}; o.a = $0; o.b = H.p(90, 1); return o;",
	"var o = {a: H.p(90, 1)}; o.b = $0; o[H.p(91, 'c')] = 3; return o;",
	"var o = []; o[0] = $0; return o;",
	"var o = {}; o.a = $0; o.a = 2; return o;",
	"var o = {}; o.a = o; return typeof o.a;",
	"var o = {get a() { return $0 }}; o.b = 1; return o;",
	"var o = {__proto__: null}; o.a = $0; return o;",
	"var o = {a: 1}; o.__proto__ = $0; return Object.keys(o);",
	"var x = $0; var y = H.p(90, 1); var z = 3; return [x, y, z];",
	"var x = $0; x = H.p(90, 1); return x;",
	"var x; x = $0; return x;",
	"var x; if (H.p(90, a)) x = $0; else x = 2; return x;",
	"a = $0; b = H.p(90, 1); return [a, b];",
	"a = $0; return a;",
	"a.b = $0; return a.b;",
	"a = $0; a = 2; return a;",
	"a += $0; a += 2; return a;",
	"a = a + $0; return a;",
	"a = $0 + a; return a;",
	"a = a || $0; return a;",
	"a = a ?? $0; return a;",
	"a = a && $0; return a;",
	"a.b = a.b + $0; return a;",
	"a[H.p(90, 'k')] = a[H.p(91, 'k')] + $0; return a;",
	"a = a - $0; a = a * 2; a = a ** 2; a = a >>> 1; return a;",
	"a || (a = $0); return a;",
	"a ?? (a = $0); return a;",
	"a && (a = $0); return a;",
	"a.b || (a.b = $0); return a;",
	"a == null && (a = $0); return a;",
	"if (a == null) a = $0; return a;",
	"if (!a) a = $0; return a;",
	"if (a) a = $0; return a;",
	"if (a === null || a === undefined) a = $0; return a;",
	"$0, H.p(90, 1); return 1;",
	"$0; H.p(90, 1); return H.p(91, 2);",
	"$0; return;",
	"$0; throw H.p(90, 1);",
	"$0; if (H.p(90, a)) return 1;",
	"$0; for (var i = H.p(90, 0); i < 1; i++) ;",
	"$0; for (;;) break;",
	"$0; for (var k in H.p(90, {})) ;",
	"$0; var x = H.p(90, 1); return x;",
	"return [$0, H.p(90, 1)][1];",
	"return [$0, H.p(90, 1)][0];",
	"return {a: $0, b: H.p(90, 1)}.b;",
	"return ({a: $0, get b() { return 1 }}).a;",
	"return 'a' + (b ? 'c' : $0);",
	"return 1 + (b, $0);",
	"return a ? b ? $0 : 1 : 1;",
	"return a && (b && $0);",
	"return (a && b) && $0;",
	"return a || (b || $0);",
	"return a ?? (b ?? $0);",
	"return a ? $0 : b ? $0 : c;",
	"return a ? b : $0 ? b : c;",
	"return (a ? 1 : 2) ? $0 : 3;",
	"return a ? true : $0;",
	"return a ? $0 : false;",
	"return a ? $0 : true;",
	"return a ? false : $0;",
	"return a !== b ? a : b;",
	"return a === $0 ? a : $0;",
	"return a, b, $0;",
	"return a.b ? a.b : $0;",
	"return a.b != null ? a.b : $0;",
	"return a[$0] != null ? a[$0] : 1;",
	"return a ? a.b : a.b;",
	"return a ? b.c($0) : b.c(1);",
	"return a ? b($0) : b(1);",
	"return a ? b($0, 1) : b($0, 2);",
	"return a ? new b($0) : new b(1);",
	"return a ? b.c : b.d;",
	"return a ? b[$0] : b[1];",
	"return a ? -$0 : -1;",
	"return a ? $0 + 1 : $0 + 2;",
	"return a ? 1 + $0 : 2 + $0;",
	"return a ? [$0] : [1];",
	"return a ? {x: $0} : {x: 1};",
	"return a ? b = $0 : b = 1;",
	"return a ? b.c = $0 : b.c = 1;",
	"return a ? b.c = 1 : b.d = 1;",
	"return a ? `${$0}` : `${1}`;",
	"return a ? void $0 : void 1;",
	"return a ? (b, $0) : (b, 1);",
	"return a ? ($0, b) : (1, b);",
	"return a ? $0 ? 1 : 2 : $0 ? 1 : 2;",
	"return a ? b && $0 : b && 1;",
	"return a ? $0 && b : 1 && b;",
	"return a ? await_($0) : await_(1);",
	"return a ? b?.($0) : b?.(1);",
	"return a ? b?.c : b?.c;",
	"return a ? b`${$0}` : b`${1}`;",
	"return a ? ++b : ++b;",
	"return a ? b++ : b--;",
	"return a ? delete b.c : delete b.c;",
	"return a ? typeof b : typeof b;",
	"return a ? () => $0 : () => $0;",
	"return a ? b : (c, b);",
	"return (a ? b : c)($0);",
	"return (a ? b.c : b.d)($0);",
	"return (a && b.c)($0);",
	"return (a, b.c)($0);",
	"return (a = b.c)($0);",
	"return (a || b.c)($0);",
	"return (a ? b : c).d($0);",
	"return (a ? b : c)`${$0}`;",
	"return new (a ? b : c)($0);",
	"return new (a, b)($0);",
	"return new (a && b)($0);",
	"return (a ? b : c).d;",
	"return (a ? b : c) = $0;",
	"return (a ? b : c).d = $0;",
	"return a.b?.[$0] ?? 1;",
	"return (a?.b) ?? $0;",
	"return a?.b == null;",
	"return a?.b === undefined;",
	"return a?.b === null;",
	"return a?.b !== 1;",
	"return a?.b === 1;",
	"return (a?.b)($0);",
	"return (a?.b).c;",
	"return !a?.b;",
	"return a?.b ? 1 : 2;",
	"return a?.b && $0;",
	"return a?.b || $0;",
	"if (a?.b) return 1; return 2;",
	"if (!a?.b) return 1; return 2;",
	"if (a?.b == null) return 1; return 2;",
	"return a == null ? b : a.c;",
	"return a == null ? void 0 : a.c.d($0);",
	"return a == null ? void 0 : a($0);",
	"return a == null ? void 0 : delete a.c;",
	"return a.b == null ? void 0 : a.b.c;",
	"return a != null && a.b;",
	"return a != null && a.b != null && a.b.c;",
	"return a == null || a.b;",
	"return a != null ? a.b != null ? a.b.c : void 0 : void 0;",
	"return a && a.b;",
	"return a && a.b && a.b.c;",
	"return a && a.b && a.b($0);",
	"return a && a[$0];",
	"return a && a();",
	"return !a || !a.b;",
	"return a === undefined ? $0 : a;",
	"return a === void 0 ? $0 : a;",
	"return a !== undefined ? a : $0;",
	"return typeof a === 'undefined' ? $0 : a;",
	"return typeof a !== 'undefined' ? a : $0;",
	"return typeof a == 'function' ? a($0) : 1;",
	"return typeof a === 'object' && a !== null ? a.b : $0;",
	"return typeof a === 'undefined' || a === null ? $0 : a;",
	"return a === null ? $0 : a;",
	"return a === null || a === undefined ? $0 : a;",
	"return a === undefined || a === null ? $0 : a;",
	"return a === null || b === undefined ? $0 : a;",
	"return a === null || a === null ? $0 : a;",
	"return a.b === null || a.b === undefined ? $0 : a.b;",
	"return a() === null || a() === undefined ? $0 : a();",
	"return a !== null && a !== undefined ? a : $0;",
	"return a !== undefined && a !== null ? a.b : $0;",
	"return null === a || undefined === a ? $0 : a;",
	"return null == a ? $0 : a;",
	"return undefined == a ? $0 : a;",
	"return a == undefined ? $0 : a;",
	"return a != undefined ? a : $0;",
}

func c03PatternSpace(trees []*xnode) xseg {
	np, nt := uint64(len(c03Patterns)), uint64(len(trees))
	return xseg{"minifier-patterns*tree", np * nt, func(i uint64) xcase {
		pat := c03Patterns[i%np]
		n := trees[i/np]
		r := &xrender{}
		var out strings.Builder
		for k := 0; k < len(pat); k++ {
			if pat[k] == '$' && k+1 < len(pat) && pat[k+1] == '0' {
				t := r.render(n)
				if n.op == nil && isSimpleLeaf(t) {
					out.WriteString(t)
				} else {
					out.WriteString("(" + t + ")")
				}
				k++
				continue
			}
			out.WriteByte(pat[k])
		}
		return xcase{code: xProgram(out.String(), ""), label: "pattern"}
	}}
}

func c03Trees(tier string) []*xnode {
	var t []*xnode
	t = append(t, leafNode("H.p(%d, a)"), leafNode("H.p(%d, b)"), leafNode("a"), leafNode("1"), leafNode("0"), leafNode("\"s\""), leafNode("null"), leafNode("undefined"), leafNode("true"), leafNode("false"), leafNode("NaN"))
	names := []string{"$0 + $1", "$0 && $1", "$0 || $1", "$0 ?? $1", "$0 ? $1 : $2", "$0, $1", "$0($1)", "$0.x", "$0?.x", "#0 = $0", "!$0", "-$0", "typeof $0", "$0 == $1", "$0 === $1", "[$0, $1]", "{x: $0}", "$0[$1]", "`t${$0}u${$1}`", "() => $0", "new $0($1)", "#0++", "#0 ||= $0", "$0 | $1", "$0 < $1", "$0 in $1", "void $0", "$0 !== $1", "$0 - $1", "{...$0}", "[...$0]", "$0`t`", "delete $0.x", "#0 += $0"}
	if tier == "quick" {
		names = names[:22]
	}
	for _, o := range pickOps(xAllOps, names...) {
		o := o
		t = append(t, opNode(&o))
	}
	return t
}

func c03FoldTable(c *Check, pool *NodePool) {
	var items []string
	g := c03Grid
	if c.Tier == "quick" {
		g = c03Grid[:46]
	}
	for _, op := range c03BinOps {
		for _, l := range g {
			for _, r := range g {
				items = append(items, "("+l+") "+op+" ("+r+")")
			}
		}
	}
	for _, op := range c03UnOps {
		for _, l := range g {
			items = append(items, op+"("+l+")", op+op+"("+l+")")
		}
	}
	for _, t := range g {
		for _, y := range []string{"1", "\"y\"", "null"} {
			for _, n := range []string{"2", "\"n\""} {
				items = append(items, "("+t+") ? "+y+" : "+n)
			}
		}
		items = append(items, "typeof ("+t+") === \"string\"", "typeof ("+t+") == \"undefined\"", "!!("+t+")", "("+t+") == null", "("+t+") === undefined", "`${"+t+"}`", "\"\" + ("+t+")", "("+t+") + \"\"",
			"[("+t+")] + \"\"", "("+t+") | 0", "("+t+") >>> 0", "+("+t+") + 1", "String("+t+")", "Number("+t+")", "Boolean("+t+")", "("+t+")?.x", "("+t+") ?? 1", "\"abc\"[("+t+")]", "[1, 2, 3][("+t+")]", "("+t+").length", "("+t+").toString")
	}
	// wrap each so that a throwing item (e.g. bigint mixing) does not hide the rest
	wrapped := make([]string, len(items))
	for i, it := range items {
		wrapped[i] = "(() => { try { return " + it + " } catch (e) { return \"throws:\" + e.name } })()"
	}
	saved := c01LitCfgs
	c01LitCfgs = c03FoldCfgs
	c01RunLitBatches(c, pool, "fold-table", wrapped, false, 512)
	c01LitCfgs = saved
}

func runC03(c *Check) {
	c.Rule = "expression trees / statement skeletons / minifier trigger patterns with side-effect probes and boundary-grid literals, x 8 minify flag subsets (keep-names, esm, iife) executed in V8 against the unminified input; complete constant-folding table (operators x grid^2) compared with V8's own evaluation; define/pure/drop cases against generator-side references; distinct = distinct esbuild outputs; operator x operator x imported-constant leaves bundled with a virtual constants module (late folding after cross-module inlining)"
	c.Assump = []string{"documented minifier assumptions are not generated: no function .name/.toString observation without keep-names, no TDZ observation, probes are the only side effects, property reads on parameters are pure only when the parameter is a plain object (universal proxies log every access and so also check that no access is dropped or duplicated)", "V8 (Node 20) is the reference semantics"}
	pool := NewNodePool("")
	defer pool.Close()
	x := &xrunner{c: c, cfgs: c03Cfgs, pool: pool, calls: xCallsStd, noNames: true, classify: c03Classify}
	all := xAllOps
	red := pickOps(concatOps(all, xAsyncGen, xGen), xReducedNames...)
	sp := &xspace{}
	sp.segs = append(sp.segs, segCtxOp(usableCtxs(), concatOps(all, xAsyncGen, xGen)))
	gridLeaves := append(append([]string{}, c03Grid[:34]...), "a", "H.p(%d, 0)", "H.p(%d, \"\")")
	sp.segs = append(sp.segs, segLeaves(pickCtx("return", "stmt", "if"), all, gridLeaves))
	sp.segs = append(sp.segs, segLvals(pickCtx("return", "stmt"), all, xLvals))
	if c.Tier == "quick" {
		sp.segs = append(sp.segs, segPairs("return*parent*slot*child(reduced)", pickCtx("return"), concatOps(all, xAsyncGen, xGen), red))
		sp.segs = append(sp.segs, segPairs("stmt/if-ctx*reduced*slot*reduced", pickCtx("stmt", "if", "cond-test"), red, red))
	} else {
		sp.segs = append(sp.segs, segPairs("return*parent*slot*child", pickCtx("return", "stmt", "if"), concatOps(all, xAsyncGen, xGen), concatOps(all, xAsyncGen, xGen)))
		sp.segs = append(sp.segs, segDepth3(pickCtx("return")[0], red))
	}
	sp.segs = append(sp.segs, c03PatternSpace(c03Trees(c.Tier)))
	sp.segs = append(sp.segs, c03SwitchSpace(c.Tier))
	if c.Tier == "quick" {
		sp.segs = append(sp.segs, segPairsLeaf("return/if*reduced*slot*reduced*slot*constant", pickCtx("return", "if"), red, red, []string{"0", "1", "\"\"", "null", "undefined"}))
	} else {
		sp.segs = append(sp.segs, segPairsLeaf("ctx*reduced*slot*reduced*slot*constant", pickCtx("return", "stmt", "if", "cond-test"), red, red, []string{"0", "1", "\"\"", "null", "undefined", "true", "NaN", "\"s\"", "-0", "1n", "[]", "{}"}))
	}
	x.runSpace(sp)
	y := *x
	y.calls = xCallsStmt
	y.runSpace(&xspace{segs: []xseg{asiSpace(), stmtSpace(c.Tier)}})
	// imported constants as leaves (late constant folding in the printer after cross-module inlining)
	z := *x
	z.cfgs = c03XmodCfgs
	z.transform = c03XmodBundle
	z.prelude = c03XmodPrelude()
	z.keyPrefix = "xmod:"
	xctxs := pickCtx("return", "if")
	if c.Tier != "quick" {
		xctxs = pickCtx("return", "stmt", "if", "cond-test")
	}
	z.runSpace(&xspace{segs: []xseg{segPairsLeaf("xmod:ctx*reduced*slot*reduced*slot*imported-constant", xctxs, red, red, c03XmodNames())}})
	c03FoldTable(c, pool)
	c03DefinePureDrop(c, pool)
}

// define / pure / drop / drop-labels: patterns with markers.
//
//	@N@  -> define target DEF_N (reference: 5)        @O@ -> DEF_O.b (reference: a)
//	«e»  -> console call dropped (reference: void 0)  ‹s› -> dropped label statement (reference: ;)
var c03OptPatterns = []string{
	"return [@N@, $0 + @N@, typeof @N@, @N@ + 1, -@N@, {DEF_N: 1}.DEF_N, {k: @N@}, a.DEF_N, `${@N@}`];",
	"return @N@ ? $0 : 2;",
	"if (@N@ === 5) return $0; return 2;",
	"if (@N@ !== 5) return $0; return 2;",
	"var DEF_N_local = @N@; return DEF_N_local + $0;",
	"return [@O@, $0, @O@ + 1, typeof @O@, {b: @O@}, DEF_O?.c];",
	"return (@O@)($0);",
	"@O@ = $0; return a;",
	"return @N@ == 5 && $0;",
	"return @N@ == 6 || $0;",
	"return @N@ == 5 ? $0 : H.p(90, 1);",
	"return @N@ == 6 ? H.p(90, 1) : $0;",
	"switch (@N@) { case 5: return $0; default: return 2 }",
	"while (@N@ == 6) { H.p(90, 1) } return $0;",
	"PF($0); return 1;",
	"PF(H.p(90, 1), $0); return 1;",
	"new PF($0); return 1;",
	"var x = PF($0); return 1;",
	"return PF($0) ? 1 : 2;",
	"a && PF($0); return 1;",
	"return [PF($0)];",
	"PF(...[$0]); return 1;",
	"PF?.($0); return 1;",
	"PF($0).x; return 1;",
	"PF(PF($0)); return 1;",
	"/* @__PURE__ */ PF($0); return 1;",
	"/* @__PURE__ */ new PF($0); return 1;",
	"/* @__PURE__ */ PF($0), H.p(90, 1); return 1;",
	"var x = /* @__PURE__ */ PF($0), y = H.p(90, 1); return y;",
	"PF($0) || H.p(90, 1); return 1;",
	"PF`${$0}`; return 1;",
	"void PF($0); return 1;",
	"debugger; $0; debugger; return 1;",
	"if (H.p(90, a)) debugger; else $0; return 1;",
	"«console.log($0)»; return 1;",
	"«console.log(H.p(90, 1), $0)», H.p(91, 1); return 1;",
	"return «console.log($0)»;",
	"return [«console.warn($0)», H.p(90, 1)];",
	"a = «console.log($0)»; return a;",
	"if (H.p(90, a)) «console.log($0)»; else H.p(91, 1); return 1;",
	"if (H.p(90, a)) «console.log($0)»; return 1;",
	"H.p(90, a) && «console.log($0)»; return 1;",
	"return «console.log($0)» ? 1 : 2;",
	"var f = console.log; f($0); return 1;",
	"«console.log?.($0)»; return 1;",
	"«console?.log($0)»; return 1;",
	"«console[$0](H.p(90, 1))»; return 1;",
	"for (;;) { «console.log($0)»; break } return 1;",
	"‹DROP: { $0 }› return 1;",
	"‹DROP: $0;› return 1;",
	"x: ‹DROP: { $0; break x }› return 1;",
	"if (H.p(90, a)) ‹DROP: $0;› else H.p(91, 1); return 1;",
	"if (H.p(90, a)) ‹DROP: $0;› return 1;",
	"for (var i = 0; i < 2; i++) ‹DROP: { $0; continue }› return 1;",
	"‹DROP: for (;;) { $0; break DROP }› return 1;",
	"KEEP: { $0; break KEEP } return 1;",
	"‹DROP: KEEP: { $0 }› return 1;",
	"KEEP: ‹DROP: { $0; break KEEP }› return 1;",
	"function g() { ‹DROP: { return $0 }› return 2 } return g();",
}

func c03DefinePureDrop(c *Check, pool *NodePool) {
	trees := c03Trees(c.Tier)
	np, nt := uint64(len(c03OptPatterns)), uint64(len(trees))
	mod := func(o *api.TransformOptions) {
		o.Define = map[string]string{"DEF_N": "5", "DEF_O.b": "a"}
		o.Pure = []string{"PF"}
		o.Drop = api.DropConsole | api.DropDebugger
		o.DropLabels = []string{"DROP"}
	}
	seg := xseg{"define/pure/drop patterns*tree", np * nt, func(i uint64) xcase {
		pat := c03OptPatterns[i%np]
		n := trees[i/np]
		r := &xrender{}
		t := r.render(n)
		if !(n.op == nil && isSimpleLeaf(t)) {
			t = "(" + t + ")"
		}
		body := strings.ReplaceAll(pat, "$0", t)
		in := strings.NewReplacer("@N@", "DEF_N", "@O@", "DEF_O.b", "«", "", "»", "", "‹", "", "›", "").Replace(body)
		ref := body
		for _, m := range [][2]string{{"«", "»"}, {"‹", "›"}} {
			for {
				i := strings.Index(ref, m[0])
				if i < 0 {
					break
				}
				j := strings.Index(ref, m[1])
				rep := "(void 0)"
				if m[0] == "‹" {
					rep = ";"
				}
				ref = ref[:i] + rep + ref[j+len(m[1]):]
			}
		}
		ref = strings.NewReplacer("@N@", "5", "@O@", "a").Replace(ref)
		pre := "globalThis.PF = function(x) { return x }; globalThis.DEF_N = 77; globalThis.DEF_O = {b: 78};\n"
		return xcase{code: pre + xProgram(in, ""), ref: pre + xProgram(ref, ""), mod: mod, label: "opt"}
	}}
	x := &xrunner{c: c, cfgs: append([]xcfg{{"none", api.TransformOptions{}}}, c03Cfgs...), pool: pool, calls: xCallsStd, noNames: true, classify: c03Classify, keyPrefix: "opt:"}
	x.runSpace(&xspace{segs: []xseg{seg}})
	c03OptionHistories(c)
}

// c03OptionHistories: define / pure / drop settings of one build must not leak into later builds of the same process
// (the processed tables of known globals are cached process-wide). Explicit-state search over option histories: every
// sequence of <= 2 (thorough 3) option sets from a 12-letter alphabet, the probe program compiled after every step; the
// output for an option set must always equal the output first seen for that option set.
func c03OptionHistories(c *Check) {
	probe := "console.log(Math.random() < 2 ? Object.keys({a: 1}).length : 0);\nfunction probe() { console.log('p'); PF(1); Math.random(); Object.keys({}); JSON.stringify(1); return [DEF_N, typeof process.env.NODE_ENV] }\nMath.random(); Object.keys({}); Symbol.for('x'); console.log(probe());\n"
	alphabet := []struct {
		name string
		mod  func(o *api.TransformOptions)
	}{
		{"none", func(o *api.TransformOptions) {}},
		{"pure:console.log", func(o *api.TransformOptions) { o.Pure = []string{"console.log"} }},
		{"pure:Math.random", func(o *api.TransformOptions) { o.Pure = []string{"Math.random"} }},
		{"pure:Object.keys+JSON.stringify", func(o *api.TransformOptions) { o.Pure = []string{"Object.keys", "JSON.stringify"} }},
		{"pure:PF", func(o *api.TransformOptions) { o.Pure = []string{"PF"} }},
		{"define:console.log", func(o *api.TransformOptions) { o.Define = map[string]string{"console.log": "noop"} }},
		{"define:Math.random", func(o *api.TransformOptions) { o.Define = map[string]string{"Math.random": "rnd"} }},
		{"define:process.env.NODE_ENV", func(o *api.TransformOptions) { o.Define = map[string]string{"process.env.NODE_ENV": "\"production\""} }},
		{"define:DEF_N+Symbol.for", func(o *api.TransformOptions) { o.Define = map[string]string{"DEF_N": "5", "Symbol.for": "sf"} }},
		{"drop:console", func(o *api.TransformOptions) { o.Drop = api.DropConsole }},
		{"minify-syntax-off", func(o *api.TransformOptions) { o.MinifySyntax = false }},
		{"platform-node", func(o *api.TransformOptions) { o.Platform = api.PlatformNode }},
	}
	first := map[string]string{}
	compile := func(i int, history []int) {
		o := api.TransformOptions{MinifySyntax: true}
		alphabet[i].mod(&o)
		out, ok, errs := transformJS(probe, o)
		c.Eval(1)
		if !ok {
			out = "ERROR " + jsonStr(errs)
		}
		c.Distinct(out)
		want, seen := first[alphabet[i].name]
		if !seen {
			first[alphabet[i].name] = out
			return
		}
		if out != want {
			var names []string
			for _, h := range history {
				names = append(names, alphabet[h].name)
			}
			c.Violation("option-history:"+alphabet[i].name+":after:"+strings.Join(names, ","), map[string]interface{}{"kind": "the output for an option set depends on the option sets of earlier builds in the same process",
				"options": alphabet[i].name, "history": names, "first_output": want, "output": out})
		}
	}
	depth := 2
	if c.Tier != "quick" {
		depth = 3
	}
	var rec func(history []int)
	rec = func(history []int) {
		if len(history) > 0 {
			last := history[len(history)-1]
			compile(last, history[:len(history)-1])
			// after every step also the build without settings
			compile(0, history)
		}
		if len(history) == depth {
			return
		}
		for i := range alphabet {
			rec(append(append([]int{}, history...), i))
		}
	}
	compile(0, nil)
	rec(nil)
	c.Sub("option_histories", 1)
}

// c03Classify maps a mismatch to a known-finding key when it is exactly the documented-in-
// known_findings.json deviation and nothing else: an unused object literal with a computed key
// `({[k]: v})` is simplified to `k + ""`, which converts k with hint "default" instead of "string".
func c03Classify(exp, got string) string {
	norm := func(s string) string {
		return strings.ReplaceAll(strings.ReplaceAll(s, ":prim:string", ":prim:default"), "toString", "valueOf")
	}
	if strings.Contains(exp, ":prim:string") && norm(exp) == norm(got) {
		return "unused-computed-key-toprimitive-hint"
	}
	return ""
}

func init() { register("C03", "exploration", runC03) }

var _ = fmt.Sprint
