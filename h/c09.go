package main

// C09: incremental rebuilds and watch mode are equivalent to clean builds.
// Explicit-state search over edit histories; each transition = one edit + one real Rebuild().

import (
	"crypto/sha256"
	"encoding/hex"
	"encoding/json"
	"fmt"
	"os"
	"path/filepath"
	"sort"
	"strings"
	"sync"
	"time"

	"github.com/evanw/esbuild/pkg/api"
)

var c09Base = map[string]string{
	"tsconfig.json":                 `{"extends":"./tsconfig.base.json","compilerOptions":{"jsx":"react"}}`,
	"tsconfig.base.json":            `{"compilerOptions":{"useDefineForClassFields":false}}`,
	"package.json":                  `{"name":"root"}`,
	"src/entry.tsx":                 "import {a} from './a';\nimport b from './b';\nimport './c.css';\nimport d, {k1} from './d.json';\nimport p from 'pkg';\nimport {E} from './enum';\nimport {K} from './klass';\nconsole.log(a, b, d, k1, p, E.X, new K, <span/>);\n",
	"src/second.ts":                 "import {a} from './a';\nimport {a as unusedA} from './a';\nimport {E} from './enum';\nimport {D} from './deco';\nimport dj from './d.json';\nexport const second = [a, E.Y, D, dj.k2];\n",
	"src/deco.ts":                   "function dec(...args: any[]): any {}\n@dec export class D { @dec m() {} }\n",
	"src/a.js":                      "export const a = 'a1';\n",
	"src/b.jsx":                     "export default <div>b<>f</></div>;\n",
	"src/c.css":                     "a { color: red }\n",
	"src/d.json":                    "{\"k1\": [1, 2], \"k2\": {\"d\": 1}}",
	"src/enum.ts":                   "export const enum E { X = 1, Y = 2 }\n",
	"src/klass.ts":                  "export class K { x; y = 1 }\n",
	"node_modules/pkg/package.json": `{"name":"pkg","main":"./main.js"}`,
	"node_modules/pkg/main.js":      "module.exports = 'pkg-main';\n",
	"node_modules/pkg/alt.js":       "module.exports = 'pkg-alt';\n",
	"node_modules/pkg/esm.js":       "export default 'pkg-esm';\n",
	"alt/a.js":                      "export const a = 'alt-a';\n",
	"src/emptylib/":                 "",
	"src/node_modules/":             "",
}

type c09Edit struct {
	name  string
	apply func(files map[string]string)
}

func toggle(path, x, y string) func(m map[string]string) {
	return func(m map[string]string) {
		if _, ok := m[path]; !ok {
			return // the file does not exist in this state: the edit is a no-op
		}
		if m[path] == x {
			m[path] = y
		} else {
			m[path] = x
		}
	}
}

func toggleFile(path, content string) func(m map[string]string) {
	return func(m map[string]string) {
		if _, ok := m[path]; ok {
			delete(m, path)
		} else {
			m[path] = content
		}
	}
}

var c09Edits = []c09Edit{
	{"edit-a-same-length", toggle("src/a.js", "export const a = 'a1';\n", "export const a = 'a2';\n")},
	{"edit-a-different-length", toggle("src/a.js", "export const a = 'a1';\n", "export const a = 'a-longer';\n")},
	{"break-b", toggle("src/b.jsx", "export default <div>b<>f</></div>;\n", "export default <div>b<>f</></div;\n")},
	{"shadow-a-with-ts", toggleFile("src/a.ts", "export const a: string = 'a-from-ts';\n")},
	{"delete-d-json", toggleFile("src/d.json", "{\"k1\": [1, 2], \"k2\": {\"d\": 1}}")},
	{"edit-d-json", toggle("src/d.json", "{\"k1\": [1, 2], \"k2\": {\"d\": 1}}", "{\"k1\": [1, 3], \"k2\": {\"d\": 2}}")},
	{"pkg-main", toggle("node_modules/pkg/package.json", `{"name":"pkg","main":"./main.js"}`, `{"name":"pkg","main":"./alt.js"}`)},
	{"pkg-type-module", toggle("node_modules/pkg/package.json", `{"name":"pkg","main":"./main.js"}`, `{"name":"pkg","main":"./esm.js","type":"module"}`)},
	{"pkg-side-effects", toggle("node_modules/pkg/package.json", `{"name":"pkg","main":"./main.js"}`, `{"name":"pkg","main":"./main.js","sideEffects":false}`)},
	{"pkg-exports", toggle("node_modules/pkg/package.json", `{"name":"pkg","main":"./main.js"}`, `{"name":"pkg","main":"./main.js","exports":{".":"./alt.js"}}`)},
	{"nearer-node-modules", toggleFile("src/node_modules/pkg/index.js", "module.exports = 'nearer-pkg';\n")},
	{"tsconfig-jsx", toggle("tsconfig.json", `{"extends":"./tsconfig.base.json","compilerOptions":{"jsx":"react"}}`, `{"extends":"./tsconfig.base.json","compilerOptions":{"jsx":"react-jsx"}}`)},
	{"tsconfig-jsx-factory", toggle("tsconfig.json", `{"extends":"./tsconfig.base.json","compilerOptions":{"jsx":"react"}}`, `{"extends":"./tsconfig.base.json","compilerOptions":{"jsx":"react","jsxFactory":"h"}}`)},
	{"tsconfig-jsx-import-source", toggle("tsconfig.json", `{"extends":"./tsconfig.base.json","compilerOptions":{"jsx":"react"}}`, `{"extends":"./tsconfig.base.json","compilerOptions":{"jsx":"react-jsx","jsxImportSource":"preact"}}`)},
	{"tsconfig-paths", toggle("tsconfig.json", `{"extends":"./tsconfig.base.json","compilerOptions":{"jsx":"react"}}`, `{"extends":"./tsconfig.base.json","compilerOptions":{"jsx":"react","baseUrl":".","paths":{"pkg":["./alt/a.js"]}}}`)},
	{"tsconfig-target", toggle("tsconfig.json", `{"extends":"./tsconfig.base.json","compilerOptions":{"jsx":"react"}}`, `{"extends":"./tsconfig.base.json","compilerOptions":{"jsx":"react","target":"ES2022"}}`)},
	{"base-use-define", toggle("tsconfig.base.json", `{"compilerOptions":{"useDefineForClassFields":false}}`, `{"compilerOptions":{"useDefineForClassFields":true}}`)},
	{"delete-tsconfig", toggleFile("tsconfig.json", `{"extends":"./tsconfig.base.json","compilerOptions":{"jsx":"react"}}`)},
	{"edit-enum", toggle("src/enum.ts", "export const enum E { X = 1, Y = 2 }\n", "export const enum E { X = 10, Y = 20 }\n")},
	{"edit-css", toggle("src/c.css", "a { color: red }\n", "a { color: blue }\n")},
	{"file-becomes-directory", func(m map[string]string) {
		if _, ok := m["src/a.js"]; ok {
			m["src/a.js/index.js"] = "export const a = 'a-dir-index';\n"
			delete(m, "src/a.js")
		} else {
			delete(m, "src/a.js/index.js")
			m["src/a.js"] = "export const a = 'a1';\n"
		}
	}},
	{"klass-edit", toggle("src/klass.ts", "export class K { x; y = 1 }\n", "export class K { x; y = 2; z }\n")},
	{"add-react-shim", toggleFile("node_modules/react/jsx-runtime.js", "exports.jsx = exports.jsxs = function(){}; exports.Fragment = 0;\n")},
	{"import-from-empty-dir", toggle("src/second.ts", "import {a} from './a';\nimport {a as unusedA} from './a';\nimport {E} from './enum';\nimport {D} from './deco';\nimport dj from './d.json';\nexport const second = [a, E.Y, D, dj.k2];\n", "import {a} from './a';\nimport {a as unusedA} from './a';\nimport {E} from './enum';\nimport {D} from './deco';\nimport dj from './d.json';\nexport const second = [a, E.Y, D, dj.k2];\nimport './emptylib/foo';\n")},
	{"create-foo-in-empty-dir", toggleFile("src/emptylib/foo.js", "console.log('foo');\n")},
	{"nearer-node-modules-file", toggleFile("src/node_modules/pkg.js", "module.exports = 'nearer-pkg-file';\n")},
	// ---- group B: every other tsconfig.json setting esbuild reads (explored with the cjs/iife configurations, see c09GroupB)
	{"tsconfig-always-strict", toggle("tsconfig.json", `{"extends":"./tsconfig.base.json","compilerOptions":{"jsx":"react"}}`, `{"extends":"./tsconfig.base.json","compilerOptions":{"jsx":"react","alwaysStrict":true}}`)},
	{"tsconfig-strict", toggle("tsconfig.json", `{"extends":"./tsconfig.base.json","compilerOptions":{"jsx":"react"}}`, `{"extends":"./tsconfig.base.json","compilerOptions":{"jsx":"react","strict":true}}`)},
	{"tsconfig-experimental-decorators", toggle("tsconfig.json", `{"extends":"./tsconfig.base.json","compilerOptions":{"jsx":"react"}}`, `{"extends":"./tsconfig.base.json","compilerOptions":{"jsx":"react","experimentalDecorators":true}}`)},
	{"tsconfig-verbatim-module-syntax", toggle("tsconfig.json", `{"extends":"./tsconfig.base.json","compilerOptions":{"jsx":"react"}}`, `{"extends":"./tsconfig.base.json","compilerOptions":{"jsx":"react","verbatimModuleSyntax":true}}`)},
	{"tsconfig-preserve-value-imports", toggle("tsconfig.json", `{"extends":"./tsconfig.base.json","compilerOptions":{"jsx":"react"}}`, `{"extends":"./tsconfig.base.json","compilerOptions":{"jsx":"react","preserveValueImports":true}}`)},
	{"tsconfig-imports-not-used-as-values", toggle("tsconfig.json", `{"extends":"./tsconfig.base.json","compilerOptions":{"jsx":"react"}}`, `{"extends":"./tsconfig.base.json","compilerOptions":{"jsx":"react","importsNotUsedAsValues":"preserve"}}`)},
	{"tsconfig-jsx-fragment-factory", toggle("tsconfig.json", `{"extends":"./tsconfig.base.json","compilerOptions":{"jsx":"react"}}`, `{"extends":"./tsconfig.base.json","compilerOptions":{"jsx":"react","jsxFragmentFactory":"Frag"}}`)},
	{"base-always-strict", toggle("tsconfig.base.json", `{"compilerOptions":{"useDefineForClassFields":false}}`, `{"compilerOptions":{"useDefineForClassFields":false,"alwaysStrict":true}}`)},
}

// c09GroupA: number of edits of the main search; the edits after it form group B together with the named ones
const c09GroupA = 26

var c09GroupBExtra = []string{"base-use-define", "delete-tsconfig", "klass-edit"}

func treeHash(m map[string]string) string {
	var ks []string
	for k := range m {
		ks = append(ks, k)
	}
	sort.Strings(ks)
	h := sha256.New()
	for _, k := range ks {
		h.Write([]byte(k + "\x00" + m[k] + "\x00"))
	}
	return hex.EncodeToString(h.Sum(nil)[:10])
}

// syncTree makes dir contain exactly files (only touching what differs). mtimes: regime "past" assigns
// strictly increasing times far in the past (usable mod keys), regime "now" leaves the real clock.
func syncTree(dir string, old, files map[string]string, clock *int64, regime string) {
	for k := range old {
		if _, ok := files[k]; !ok {
			os.Remove(filepath.Join(dir, k))
			// remove now-empty directories
			d := filepath.Dir(filepath.Join(dir, k))
			for d != dir {
				if rel, err := filepath.Rel(dir, d); err == nil {
					if _, keep := files[filepath.ToSlash(rel)+"/"]; keep {
						break // this directory is part of the tree in its own right (possibly empty)
					}
				}
				if err := os.Remove(d); err != nil {
					break
				}
				d = filepath.Dir(d)
			}
		}
	}
	var ks []string
	for k := range files {
		ks = append(ks, k)
	}
	sort.Strings(ks)
	for _, k := range ks {
		if o, ok := old[k]; ok && o == files[k] {
			continue
		}
		p := filepath.Join(dir, k)
		if strings.HasSuffix(k, "/") {
			os.MkdirAll(p, 0o755) // a key ending in "/" is a directory that exists even when it is empty
			continue
		}
		if st, err := os.Stat(p); err == nil && st.IsDir() {
			os.RemoveAll(p)
		}
		os.MkdirAll(filepath.Dir(p), 0o755)
		// a path component may currently be a file
		if err := os.WriteFile(p, []byte(files[k]), 0o644); err != nil {
			parent := filepath.Dir(p)
			os.Remove(parent)
			os.MkdirAll(parent, 0o755)
			if err := os.WriteFile(p, []byte(files[k]), 0o644); err != nil {
				fatalf("write %s: %v", p, err)
			}
		}
		if regime == "past" {
			*clock += 7
			t := time.Unix(1500000000+*clock, 0)
			os.Chtimes(p, t, t)
		}
	}
}

type c09Cfg struct {
	name string
	mod  func(o *api.BuildOptions)
}

var c09Cfgs = []c09Cfg{
	{"bundle", func(o *api.BuildOptions) { o.Bundle = true }},
	{"bundle-min-map-meta", func(o *api.BuildOptions) {
		o.Bundle = true
		o.MinifySyntax, o.MinifyWhitespace = true, true
		o.Sourcemap = api.SourceMapExternal
		o.Metafile = true
	}},
	{"nobundle", func(o *api.BuildOptions) {}},
	{"bundle-splitting", func(o *api.BuildOptions) { o.Bundle = true; o.Splitting = true }},
	{"nobundle-cjs", func(o *api.BuildOptions) { o.Format = api.FormatCommonJS }},
	{"bundle-iife", func(o *api.BuildOptions) { o.Bundle = true; o.Format = api.FormatIIFE }},
}

// configurations of the main search (group A) and of the tsconfig-settings search (group B)
var c09CfgsA = []int{0, 1, 2, 3}
var c09CfgsB = []int{2, 4, 5}

func c09Options(dir string, cfg c09Cfg) api.BuildOptions {
	o := api.BuildOptions{AbsWorkingDir: dir, EntryPoints: []string{"src/entry.tsx", "src/second.ts"}, Outdir: "out", Write: false, LogLevel: api.LogLevelSilent, Format: api.FormatESModule,
		External: []string{"react", "react/jsx-runtime", "preact/jsx-runtime", "preact"}}
	cfg.mod(&o)
	if !o.Bundle {
		o.External = nil
	}
	return o
}

func c09ResultKey(dir string, r api.BuildResult) string {
	var parts []string
	for _, f := range r.OutputFiles {
		rel, _ := filepath.Rel(dir, f.Path)
		parts = append(parts, "FILE "+rel+"\n"+string(f.Contents))
	}
	sort.Strings(parts)
	msg := func(tag string, ms []api.Message) {
		for _, m := range ms {
			loc := ""
			if m.Location != nil {
				loc = fmt.Sprintf("%s:%d:%d", m.Location.File, m.Location.Line, m.Location.Column)
			}
			parts = append(parts, tag+" "+m.Text+" @"+loc)
		}
	}
	msg("ERROR", r.Errors)
	msg("WARNING", r.Warnings)
	if r.Metafile != "" {
		// the metafile is compared as a JSON value (key order of "inputs" follows internal source indices)
		var v interface{}
		if err := json.Unmarshal([]byte(r.Metafile), &v); err == nil {
			b, _ := json.Marshal(v)
			parts = append(parts, "META "+strings.ReplaceAll(string(b), dir, "<dir>"))
		} else {
			parts = append(parts, "META-INVALID "+r.Metafile)
		}
	}
	return strings.ReplaceAll(strings.Join(parts, "\n"), dir, "<dir>")
}

func runC09(c *Check) {
	c.Rule = "explicit-state search over edit histories of a 16-file project (two entry points, a.js/a.ts shadow pair, JSX, CSS, JSON, const enum, class fields, node_modules package, tsconfig with extends): 34 mostly involutive edits (same-length and different-length content edits, syntax error/repair, create/delete/shadow modules, package.json main/type/sideEffects/exports, nearer node_modules, tsconfig jsx/jsxFactory/jsxImportSource/paths/target/useDefineForClassFields(base)/delete and, as a second search with cjs/iife configurations, alwaysStrict/strict/experimentalDecorators/verbatimModuleSyntax/preserveValueImports/importsNotUsedAsValues/jsxFragmentFactory/alwaysStrict(base), enum/css/json edits, file<->directory, lookups in directories that exist but are empty); every history of length<=3 (thorough 4) with a Rebuild() after every edit x 4 configurations x 2 mtime regimes; oracle: Rebuild() == fresh api.Build of the same tree, and the watch predicates of the previous build report a dirty path whenever the fresh result changed; states = distinct (tree, configuration) pairs reached, transitions = rebuilds; the JSON file is imported by key and by default from both entry points"
	c.Assump = []string{"edits are applied while no build is running", "mtime regime 'past' sets strictly increasing mtimes far in the past (usable mod keys), regime 'now' uses the real clock (mod keys inside the safety gap)"}
	maxLen := 3
	if c.Tier != "quick" {
		maxLen = 4
	}
	root := scratchRoot("c09")
	defer os.RemoveAll(root)
	// enumerate histories: group A = the first c09GroupA edits x c09CfgsA; group B = the tsconfig-setting edits
	// (+ a few group A edits they interact with) x c09CfgsB
	if len(c09Edits) < c09GroupA {
		fatalf("c09: edit table shorter than group A")
	}
	groupA := []int{}
	for e := 0; e < c09GroupA; e++ {
		groupA = append(groupA, e)
	}
	groupB := []int{}
	for e := c09GroupA; e < len(c09Edits); e++ {
		groupB = append(groupB, e)
	}
	for _, n := range c09GroupBExtra {
		for e := range c09Edits {
			if c09Edits[e].name == n {
				groupB = append(groupB, e)
			}
		}
	}
	enum := func(alpha []int) [][]int {
		var runs [][]int
		var rec func(cur []int)
		rec = func(cur []int) {
			if len(cur) == maxLen {
				runs = append(runs, append([]int{}, cur...)) // only maximal histories are run (every prefix is checked on the way)
				return
			}
			for _, e := range alpha {
				rec(append(cur, e))
			}
		}
		rec(nil)
		return runs
	}
	type job struct {
		h      []int
		cfg    int
		regime string
	}
	var jobs []job
	var runs [][]int
	for gi, grp := range []struct {
		alpha []int
		cfgs  []int
	}{{groupA, c09CfgsA}, {groupB, c09CfgsB}} {
		rs := enum(grp.alpha)
		runs = append(runs, rs...)
		for hi, h := range rs {
			for k, ci := range grp.cfgs {
				if c.Tier == "quick" && gi == 0 && (hi+k)%2 != 0 {
					continue
				}
				regime := "past"
				if (hi+k)%4 >= 2 {
					regime = "now"
				}
				jobs = append(jobs, job{h, ci, regime})
			}
		}
	}
	c.Set("histories", len(runs))
	c.Set("history_length", maxLen)
	var mu sync.Mutex
	fresh := map[string]string{} // (cfg, treehash) -> result key
	states := map[string]bool{}
	var transitions, validated uint64
	freshResult := func(dir string, cfg int, files map[string]string) string {
		key := fmt.Sprintf("%d/%s", cfg, treeHash(files))
		mu.Lock()
		v, ok := fresh[key]
		mu.Unlock()
		if ok {
			return v
		}
		r := api.Build(c09Options(dir, c09Cfgs[cfg]))
		v = c09ResultKey(dir, r)
		mu.Lock()
		fresh[key] = v
		mu.Unlock()
		return v
	}
	c.ForEach(uint64(len(jobs)), func(w int, ji uint64) {
		j := jobs[ji]
		dir := filepath.Join(root, fmt.Sprintf("h%d", ji))
		files := map[string]string{}
		for k, v := range c09Base {
			files[k] = v
		}
		var clock int64
		syncTree(dir, nil, files, &clock, j.regime)
		defer os.RemoveAll(dir)
		ctx, err := api.Context(c09Options(dir, c09Cfgs[j.cfg]))
		if err != nil {
			fatalf("context: %v", err)
		}
		defer ctx.Dispose()
		api.VerifEnableWatchData(ctx)
		r, dirty := api.VerifRebuildWithDirty(ctx)
		prevFresh := freshResult(dir, j.cfg, files)
		if c09ResultKey(dir, r) != prevFresh {
			c.Violation("c09-initial:"+c09Cfgs[j.cfg].name, map[string]interface{}{"kind": "first build of a context differs from a plain build", "config": c09Cfgs[j.cfg].name})
		}
		var names []string
		for step, e := range j.h {
			old := map[string]string{}
			for k, v := range files {
				old[k] = v
			}
			c09Edits[e].apply(files)
			syncTree(dir, old, files, &clock, j.regime)
			names = append(names, c09Edits[e].name)
			// watch predicates of the previous build, evaluated after the edit
			dirtyNow := dirty()
			want := freshResult(dir, j.cfg, files)
			label := fmt.Sprintf("%s | cfg=%s mtime=%s", strings.Join(names, " -> "), c09Cfgs[j.cfg].name, j.regime)
			c.Eval(1)
			mu.Lock()
			states[fmt.Sprintf("%d/%s", j.cfg, treeHash(files))] = true
			transitions++
			mu.Unlock()
			if want != prevFresh && len(dirtyNow) == 0 {
				key := "c09-watch:" + strings.Join(names, ">") + ":" + c09Cfgs[j.cfg].name
				nFBD := 0
				for _, x := range names {
					if x == "file-becomes-directory" {
						nFBD++
					}
				}
				if n := len(names); names[n-1] == "file-becomes-directory" && nFBD%2 == 0 {
					key = "watch-misses-directory-replaced-by-file-of-the-same-name"
				}
				c.Violation(key, map[string]interface{}{"kind": "an edit that changes the result of a fresh build is not detected by the watch predicates of the previous build", "history": label, "step": step})
			}
			r, dirty = api.VerifRebuildWithDirty(ctx)
			got := c09ResultKey(dir, r)
			c.Distinct(want)
			if got != want {
				// re-check the reference once more (a stale memo would be a harness bug)
				again := c09ResultKey(dir, api.Build(c09Options(dir, c09Cfgs[j.cfg])))
				mu.Lock()
				validated++
				mu.Unlock()
				if again != want {
					fatalf("fresh build is not a function of the tree: %s", label)
				}
				c.Violation("c09-rebuild:"+strings.Join(names, ">")+":"+c09Cfgs[j.cfg].name, map[string]interface{}{"kind": "Rebuild() differs from a fresh build of the same tree", "history": label, "step": step, "diff": c09Diff(want, got)})
			}
			prevFresh = want
		}
	})
	c.Set("states", len(states))
	c.Set("transitions", transitions)
	c.Set("traces_validated_against_impl", validated+uint64(len(jobs)))
	c.Sample(map[string]interface{}{"history": []string{c09Edits[11].name, c09Edits[0].name, c09Edits[11].name}, "config": "bundle"})
}

func c09Diff(want, got string) []string {
	a, b := strings.Split(want, "\n"), strings.Split(got, "\n")
	var out []string
	for i := 0; i < len(a) || i < len(b); i++ {
		x, y := "<none>", "<none>"
		if i < len(a) {
			x = a[i]
		}
		if i < len(b) {
			y = b[i]
		}
		if x != y {
			out = append(out, "fresh:   "+trunc(x, 200), "rebuild: "+trunc(y, 200))
			if len(out) > 12 {
				break
			}
		}
	}
	return out
}

func init() { register("C09", "model_checking", runC09) }
