package main

import (
	"fmt"
	"regexp"
	"strings"

	"github.com/evanw/esbuild/pkg/api"
)

// Colour lowering: "the winning declaration value computed from the CSS esbuild emits equals the one computed from the
// input ... in an environment that understands more of the input's syntax". For a target that does not understand a
// modern colour notation esbuild emits an sRGB fallback (and keeps the original after it when it is outside sRGB).
// The old browser is simulated by deleting every declaration whose value uses a notation the target lacks; what is
// left is evaluated by Chrome and compared with the input evaluated by Chrome (which understands the notation).
// Colours outside the sRGB gamut are skipped (gamut mapping is a choice, not an equality), as are cases where esbuild
// emits no fallback at all (leaving syntax it cannot lower untouched is allowed).

var c12ModernColor = regexp.MustCompile(`\b(lab|lch|oklab|oklch|color|color-mix|hwb)\(`)

func c12StripModern(css string) (string, int) {
	// declarations are separated by ';' or braces; the generated sheets have no strings containing those
	var sb strings.Builder
	kept := 0
	i := 0
	for i < len(css) {
		j := i
		for j < len(css) && css[j] != ';' && css[j] != '{' && css[j] != '}' {
			j++
		}
		seg := css[i:j]
		if strings.Contains(seg, ":") && c12ModernColor.MatchString(seg) {
			// dropped declaration
		} else {
			if strings.Contains(seg, "color") && strings.Contains(seg, ":") {
				kept++
			}
			sb.WriteString(seg)
		}
		if j < len(css) {
			sb.WriteByte(css[j])
		}
		i = j + 1
	}
	return sb.String(), kept
}

func c12ColorGrid() []string {
	var out []string
	f := func(format string, a ...interface{}) { out = append(out, fmt.Sprintf(format, a...)) }
	for _, L := range []string{"0%", "25%", "50%", "75%", "100%"} {
		for _, a := range []string{"-40", "0", "40"} {
			for _, b := range []string{"-40", "0", "40"} {
				f("lab(%s %s %s)", L, a, b)
			}
		}
	}
	for _, L := range []string{"25%", "50", "75%"} {
		for _, C := range []string{"0", "20", "60"} {
			for _, H := range []string{"0", "90deg", "200", "330"} {
				f("lch(%s %s %s)", L, C, H)
			}
		}
	}
	for _, L := range []string{".2", "50%", ".8"} {
		for _, a := range []string{"-.1", "0", ".1"} {
			for _, b := range []string{"-.1", "0", "25%"} {
				f("oklab(%s %s %s)", L, a, b)
			}
		}
	}
	for _, L := range []string{".3", "60%", ".9"} {
		for _, C := range []string{"0", ".05", ".15"} {
			for _, H := range []string{"0", "120", "250deg", "0.7turn"} {
				f("oklch(%s %s %s)", L, C, H)
			}
		}
	}
	for _, sp := range []string{"srgb", "srgb-linear", "display-p3", "a98-rgb", "prophoto-rgb", "rec2020", "xyz", "xyz-d50", "xyz-d65"} {
		for _, r := range []string{".1", "50%", ".9"} {
			for _, g := range []string{".1", ".5", "90%"} {
				for _, b := range []string{".1", ".5", ".9"} {
					f("color(%s %s %s %s)", sp, r, g, b)
				}
			}
		}
		f("color(%s .2 .4 .6 / .5)", sp)
		f("color(%s none .4 .6)", sp)
	}
	for _, h := range []string{"0", "90", "200deg", "1.5rad"} {
		for _, w := range []string{"0%", "30%", "60%"} {
			for _, b := range []string{"0%", "30%", "60%"} {
				f("hwb(%s %s %s)", h, w, b)
			}
		}
	}
	f("lab(50% 40 30 / .5)")
	f("lch(50% 30 40 / 25%)")
	f("oklab(.5 .1 .1 / .5)")
	f("oklch(.6 .1 30 / 50%)")
	f("hwb(90 10% 20% / .5)")
	f("lab(none 0 0)")
	f("oklch(.5 .1 none)")
	return out
}

func c12Colors(c *Check, pool *NodePool) {
	colors := c12ColorGrid()
	if c.Tier == "quick" {
		var q []string
		for i, x := range colors {
			if i%2 == 0 {
				q = append(q, x)
			}
		}
		colors = q
	}
	c.Set("colour_grid", len(colors))
	type job struct {
		css, cfg, out, stripped string
	}
	var jobs []job
	for _, col := range colors {
		css := ".a { color: " + col + "; background-color: " + col + " }"
		for _, cfg := range c12Cfgs {
			if !cfg.lowers {
				continue
			}
			o := cfg.opts
			o.LogLevel = api.LogLevelSilent
			r := api.Transform(css, o)
			c.Eval(1)
			if len(r.Errors) > 0 {
				c.Sub("colour_lowering_esbuild_error", 1)
				continue
			}
			out := string(r.Code)
			c.Distinct(out)
			stripped, kept := c12StripModern(out)
			if kept == 0 {
				c.Sub("colour_lowering_no_fallback_emitted", 1)
				continue
			}
			jobs = append(jobs, job{css, cfg.name, out, stripped})
		}
	}
	for b := 0; b < len(jobs); b += 16 {
		e := b + 16
		if e > len(jobs) {
			e = len(jobs)
		}
		var cases [][]string
		for _, j := range jobs[b:e] {
			cases = append(cases, []string{j.css, j.stripped})
		}
		res := chromeStyles(pool.Get(1+(b/16)%4), cases)
		for i, obs := range res {
			j := jobs[b+i]
			if obs[1] == "=" {
				c.Sub("colour_lowering_comparisons", 1)
				continue
			}
			// compare element .a (first element of both frames): skip when the input colour is outside sRGB
			la, lb := strings.Split(obs[0], "\n"), strings.Split(obs[1], "\n")
			bad := ""
			for li := range la {
				if li >= len(lb) || la[li] == lb[li] {
					continue
				}
				pa, pb := strings.Split(la[li], "|"), strings.Split(lb[li], "|")
				for k := range pa {
					if k >= len(pb) || c12ValueEq(pa[k], pb[k]) {
						continue
					}
					if strings.Contains(pa[k], "CW(") {
						c.Sub("colour_lowering_out_of_gamut_skipped", 1)
						continue
					}
					if c12ColorClose(pa[k], pb[k], 2) {
						continue
					}
					bad = fmt.Sprintf("input=%q output-as-seen-by-an-old-browser=%q", pa[k], pb[k])
				}
			}
			c.Sub("colour_lowering_comparisons", 1)
			if bad != "" {
				c.Violation("css-colour-lowering:"+j.cfg+":"+j.css, map[string]interface{}{"kind": "sRGB fallback emitted for an older target differs from the colour itself", "config": j.cfg, "input": j.css, "output": j.out, "output_without_modern_declarations": j.stripped, "diff": []string{bad}})
			}
		}
	}
}

// c12ColorClose: like c12ValueEq but with a caller-chosen tolerance on 8-bit channels
func c12ColorClose(a, b string, tol int) bool {
	ma, mb := c12ColorRe.FindAllStringSubmatch(a, -1), c12ColorRe.FindAllStringSubmatch(b, -1)
	if len(ma) == 0 || len(ma) != len(mb) || c12ColorRe.ReplaceAllString(a, "C#") != c12ColorRe.ReplaceAllString(b, "C#") {
		return false
	}
	for i := range ma {
		for k := 1; k <= 3; k++ {
			var x, y int
			fmt.Sscan(ma[i][k], &x)
			fmt.Sscan(mb[i][k], &y)
			if x-y > tol || y-x > tol {
				return false
			}
		}
		var x, y float64
		fmt.Sscan(ma[i][4], &x)
		fmt.Sscan(mb[i][4], &y)
		if x-y > 0.011 || y-x > 0.011 {
			return false
		}
	}
	return true
}
