package main

// Corpus: every string literal of the repository's own parser/printer/bundler tests (extracted with
// go/ast from /repo's working tree at run time) + single-token mutations.

import (
	"go/ast"
	"go/parser"
	"go/token"
	"os"
	"path/filepath"
	"sort"
	"strconv"
	"strings"
	"sync"
)

type corpusItem struct {
	text string
	src  string // originating test package
}

var corpusOnce sync.Once
var corpusCache []corpusItem

func repoRoot() string {
	if r := os.Getenv("VERIF_REPO"); r != "" {
		return r
	}
	return "/repo"
}

func loadCorpus() []corpusItem {
	corpusOnce.Do(func() {
		seen := map[string]bool{}
		dirs := []string{"internal/js_parser", "internal/js_printer", "internal/js_lexer", "internal/css_parser", "internal/css_printer", "internal/css_lexer", "internal/bundler_tests"}
		for _, d := range dirs {
			files, _ := filepath.Glob(filepath.Join(repoRoot(), d, "*_test.go"))
			sort.Strings(files)
			for _, f := range files {
				fset := token.NewFileSet()
				af, err := parser.ParseFile(fset, f, nil, 0)
				if err != nil {
					continue
				}
				ast.Inspect(af, func(n ast.Node) bool {
					bl, ok := n.(*ast.BasicLit)
					if !ok || bl.Kind != token.STRING {
						return true
					}
					s, err := strconv.Unquote(bl.Value)
					if err != nil || len(s) < 2 || len(s) > 4000 {
						return true
					}
					if strings.HasPrefix(s, "/") && !strings.ContainsAny(s, " \n;(") {
						return true // file paths of bundler tests
					}
					if strings.HasPrefix(s, "<stdin>: ") || strings.HasPrefix(s, "NOTE: ") {
						return true // expected diagnostics
					}
					if !seen[s] {
						seen[s] = true
						corpusCache = append(corpusCache, corpusItem{s, filepath.Base(d)})
					}
					return true
				})
			}
		}
	})
	return corpusCache
}

// tokenize splits a source text into coarse tokens (identifiers/numbers, whitespace runs, string
// literals without escapes handling, single punctuation characters). Concatenation is the identity.
func coarseTokens(s string) []string {
	var out []string
	i := 0
	isWord := func(b byte) bool {
		return b == '_' || b == '$' || b >= '0' && b <= '9' || b >= 'a' && b <= 'z' || b >= 'A' && b <= 'Z' || b >= 0x80
	}
	for i < len(s) {
		j := i + 1
		switch {
		case isWord(s[i]):
			for j < len(s) && isWord(s[j]) {
				j++
			}
		case s[i] == ' ' || s[i] == '\t' || s[i] == '\n' || s[i] == '\r':
			for j < len(s) && (s[j] == ' ' || s[j] == '\t' || s[j] == '\n' || s[j] == '\r') {
				j++
			}
		}
		out = append(out, s[i:j])
		i = j
	}
	return out
}

// mutants returns all single-token deletions, duplications and adjacent swaps (whitespace tokens are
// kept in place and not themselves mutated).
func mutants(s string) []string {
	t := coarseTokens(s)
	var idx []int
	for i, x := range t {
		if strings.TrimSpace(x) != "" {
			idx = append(idx, i)
		}
	}
	var out []string
	join := func(u []string) string { return strings.Join(u, "") }
	for k, i := range idx {
		u := append(append([]string{}, t[:i]...), t[i+1:]...)
		out = append(out, join(u))
		d := append(append(append([]string{}, t[:i+1]...), t[i]), t[i+1:]...)
		out = append(out, join(d))
		if k+1 < len(idx) {
			j := idx[k+1]
			w := append([]string{}, t...)
			w[i], w[j] = w[j], w[i]
			out = append(out, join(w))
		}
	}
	return out
}
