package main

// C14: output only uses syntax available in the configured target.
// Oracle: the very engine named by the target parses the output (seven installed Node versions);
// es-year targets are decided by a witness engine that implements at most that year's syntax plus a
// lexical detector for per-feature `supported` overrides.

import (
	"fmt"
	"os"
	"path/filepath"
	"regexp"
	"strings"
	"sync"

	"github.com/evanw/esbuild/pkg/api"
)

type c14Target struct {
	name    string
	node    string // major version of the witness engine
	target  api.Target
	engines []api.Engine
	lexical []string // features that must be absent lexically (for es-year targets older than the oldest engine)
}

var c14Targets = []c14Target{
	{name: "node10.24.1", node: "10", engines: []api.Engine{{Name: api.EngineNode, Version: "10.24.1"}}},
	{name: "node12.22.12", node: "12", engines: []api.Engine{{Name: api.EngineNode, Version: "12.22.12"}}},
	{name: "node14.21.3", node: "14", engines: []api.Engine{{Name: api.EngineNode, Version: "14.21.3"}}},
	{name: "node16.20.2", node: "16", engines: []api.Engine{{Name: api.EngineNode, Version: "16.20.2"}}},
	{name: "node18.20.8", node: "18", engines: []api.Engine{{Name: api.EngineNode, Version: "18.20.8"}}},
	{name: "node20.20.2", node: "20", engines: []api.Engine{{Name: api.EngineNode, Version: "20.20.2"}}},
	{name: "node22.22.2", node: "22", engines: []api.Engine{{Name: api.EngineNode, Version: "22.22.2"}}},
	{name: "es2015", node: "10", target: api.ES2015, lexical: []string{"exponent-operator", "async-await", "async-generator", "for-await", "optional-catch-binding"}},
	{name: "es2016", node: "10", target: api.ES2016, lexical: []string{"async-await", "async-generator", "for-await", "optional-catch-binding"}},
	{name: "es2017", node: "10", target: api.ES2017, lexical: []string{"async-generator", "for-await", "optional-catch-binding"}},
	{name: "es2018", node: "10", target: api.ES2018, lexical: []string{"optional-catch-binding"}},
	{name: "es2019", node: "10", target: api.ES2019},
	{name: "es2020", node: "14", target: api.ES2020, lexical: []string{"logical-assignment"}},
	{name: "es2021", node: "16", target: api.ES2021, lexical: []string{"class-static-blocks-x"}},
	{name: "es2022", node: "16", target: api.ES2022},
	{name: "es2023", node: "20", target: api.ES2023},
	{name: "es2024", node: "20", target: api.ES2024},
}

// Lexical detectors (outputs of generated programs never contain these tokens inside strings).
type c14Detector interface{ MatchString(string) bool }

// c14AsyncDet: async functions, methods and arrows. `async(...)` is an async arrow only when the parenthesis that
// closes the parameter list is followed by `=>` (otherwise it is a call of a function named async), so the
// parameter list is matched by counting parentheses instead of a regular expression.
type c14AsyncDet struct{ other *regexp.Regexp }

var c14AsyncWord = regexp.MustCompile(`\basync[ \t]*\(`)

func (d c14AsyncDet) MatchString(out string) bool {
	if d.other.MatchString(out) {
		return true
	}
	for _, loc := range c14AsyncWord.FindAllStringIndex(out, -1) {
		if loc[0] > 0 && (out[loc[0]-1] == '.' || out[loc[0]-1] == '$') {
			continue
		}
		depth, i := 0, loc[1]-1
		for ; i < len(out); i++ {
			switch ch := out[i]; ch {
			case '(':
				depth++
			case ')':
				depth--
			case '\'', '"', '`':
				for i++; i < len(out) && out[i] != ch; i++ {
					if out[i] == '\\' {
						i++
					}
				}
			}
			if depth == 0 {
				break
			}
		}
		if i >= len(out) {
			continue
		}
		if rest := strings.TrimLeft(out[i+1:], " \t"); strings.HasPrefix(rest, "=>") {
			return true
		}
	}
	return false
}

var c14Detectors = map[string]c14Detector{
	"optional-chain":            regexp.MustCompile(`\?\.[^0-9]`),
	"nullish-coalescing":        regexp.MustCompile(`\?\?[^=]`),
	"logical-assignment":        regexp.MustCompile(`\?\?=|\|\|=|&&=`),
	"exponent-operator":         regexp.MustCompile(`\*\*`),
	"bigint":                    regexp.MustCompile(`\b[0-9]+n\b`),
	"class-static-blocks":       regexp.MustCompile(`\bstatic\s*\{`),
	"async-await":               c14AsyncDet{regexp.MustCompile(`\basync\s+function\b|\basync\s+[a-zA-Z_$][\w$]*\s*=>|\basync\s+[\[a-zA-Z_$#*"']`)},
	"async-generator":           regexp.MustCompile(`\basync\s+function\s*\*|\basync\s*\*`),
	"for-await":                 regexp.MustCompile(`\bfor\s+await\b`),
	"optional-catch-binding":    regexp.MustCompile(`\bcatch\s*\{`),
	"class-private-field":       regexp.MustCompile(`[^\w]#[a-zA-Z_]\w*\s*(=|;|\}|\n)`),
	"class-private-method":      regexp.MustCompile(`#[a-zA-Z_]\w*\s*\(`),
	"class-private-brand-check": regexp.MustCompile(`#[a-zA-Z_]\w*\s+in\b`),
	"arrow":                     regexp.MustCompile(`=>`),
	"template-literal":          regexp.MustCompile("`"),
}

// syntax that the newest installed engine (Node 22) does not parse yet although it is valid input for esbuild
var c14NewerThanNode22 = regexp.MustCompile(`\baccessor\b|\busing\b|@|\bimport\s+(defer|source)\b`)
var c14BigintKey = regexp.MustCompile(`(?:[{,;]|\bstatic|\bget|\bset|\basync)\s*[0-9]+n\s*[:=(]`)
var c14Asyncish = regexp.MustCompile(`\basync\b`)

type nodeSet struct {
	mu    sync.Mutex
	pools map[string]*NodePool
	locks map[string]*sync.Mutex
}

func (s *nodeSet) syntax(version string, w int, cases []synCase) []bool {
	s.mu.Lock()
	p := s.pools[version]
	if p == nil {
		p = NewNodePool(version)
		s.pools[version] = p
	}
	key := fmt.Sprintf("%s/%d", version, w%6)
	lk := s.locks[key]
	if lk == nil {
		lk = &sync.Mutex{}
		s.locks[key] = lk
	}
	s.mu.Unlock()
	lk.Lock()
	defer lk.Unlock()
	return syntaxBatch(p.Get(w%6), cases)
}

func (s *nodeSet) close() {
	for _, p := range s.pools {
		p.Close()
	}
}

type c14Variant struct {
	name string
	mod  func(o *api.TransformOptions)
	goal string
}

var c14Variants = []c14Variant{
	{"plain", func(o *api.TransformOptions) {}, "script"},
	{"minify", func(o *api.TransformOptions) {
		o.MinifySyntax = true
		o.MinifyWhitespace = true
		o.MinifyIdentifiers = true
	}, "script"},
	{"iife+minify-syntax", func(o *api.TransformOptions) { o.Format = api.FormatIIFE; o.MinifySyntax = true }, "script"},
	{"esm", func(o *api.TransformOptions) { o.Format = api.FormatESModule }, "module"},
}

func c14CheckBatch(c *Check, ns *nodeSet, w int, cases []xcase, seg string) {
	type pend struct {
		in, out, tgt, variant string
	}
	byVersion := map[string][]synCase{}
	pends := map[string][]pend{}
	// the property speaks about valid programs: inputs the newest engine rejects in both goals (early errors such as `[a]++`) are skipped, unless they use syntax newer than that engine
	var inSyn []synCase
	for _, cs := range cases {
		inSyn = append(inSyn, synCase{cs.code, "script"}, synCase{cs.code, "module"})
	}
	valid := ns.syntax("22", w, inSyn)
	for ci, cs := range cases {
		c.Eval(1)
		if !valid[2*ci] && !valid[2*ci+1] && !c14NewerThanNode22.MatchString(cs.code) {
			c.Sub("generator_invalid_input", 1)
			if os.Getenv("VERIF_DEBUG") != "" {
				fmt.Fprintf(os.Stderr, "INVALID-INPUT %q\n", cs.code)
			}
			continue
		}
		for _, t := range c14Targets {
			for vi, v := range c14Variants {
				if c.Tier == "quick" && vi >= 2 && (len(cs.code)+vi)%3 != 0 {
					continue
				}
				o := api.TransformOptions{Target: t.target, Engines: t.engines}
				v.mod(&o)
				out, ok, _ := transformJS(cs.code, o)
				if !ok {
					c.Sub("esbuild_error_or_unsupported", 1)
					continue
				}
				c.Distinct(out)
				goal := v.goal
				if t.node == "10" && goal == "module" {
					goal = "script" // vm.SourceTextModule of Node 10 lacks dynamic import support flags; programs here have no import/export
				}
				byVersion[t.node] = append(byVersion[t.node], synCase{out, goal})
				pends[t.node] = append(pends[t.node], pend{cs.code, out, t.name, v.name})
				for _, f := range t.lexical {
					if d := c14Detectors[f]; d != nil && d.MatchString(out) {
						if f == "async-await" && !c14Asyncish.MatchString(out) {
							continue
						}
						c.Violation("lexical:"+t.name+":"+f+":"+cs.code, map[string]interface{}{"kind": "output contains syntax newer than target (lexical detector)", "feature": f, "target": t.name, "variant": v.name, "input": cs.code, "output": out, "segment": seg})
					}
				}
			}
		}
	}
	for ver, sc := range byVersion {
		res := ns.syntax(ver, w, sc)
		for i, ok := range res {
			c.Sub("engine_parse_checks", 1)
			if !ok {
				p := pends[ver][i]
				if oracleCrashed(p.out) {
					c.Sub("oracle_crash_skipped", 1)
					continue
				}
				key := "engine:" + p.tgt + ":" + p.variant + ":" + p.in
				if c14BigintKey.MatchString(p.in) && (ver == "10" || ver == "12") {
					key = "bigint-literal-property-key-on-node10-12"
				}
				c.Violation(key, map[string]interface{}{"kind": "target engine rejects the output", "engine": "node" + ver, "target": p.tgt, "variant": p.variant, "input": p.in, "output": p.out, "segment": seg})
			}
		}
	}
}

// `supported` overrides in both directions on esnext / es2015.
func c14Supported(c *Check, cases []xcase) {
	feats := []string{"optional-chain", "nullish-coalescing", "logical-assignment", "exponent-operator", "class-static-blocks", "async-await", "async-generator", "for-await", "optional-catch-binding", "class-private-field", "class-private-method", "class-private-brand-check", "bigint"}
	c.ForEach(uint64(len(cases)), func(w int, i uint64) {
		cs := cases[i]
		for _, f := range feats {
			d := c14Detectors[f]
			inInput := d.MatchString(cs.code)
			c.Eval(1)
			// supported:false on esnext => no occurrence in the output (or an error)
			deps := map[string]bool{f: false}
			if f == "async-await" {
				deps["async-generator"] = false
				deps["for-await"] = false
			}
			if f == "class-private-field" {
				deps["class-private-static-field"] = false
				deps["class-private-method"] = false
				deps["class-private-static-method"] = false
				deps["class-private-accessor"] = false
				deps["class-private-static-accessor"] = false
				deps["class-private-brand-check"] = false
			}
			if f == "class-private-method" {
				deps["class-private-static-method"] = false
				deps["class-private-accessor"] = false
				deps["class-private-static-accessor"] = false
			}
			for _, minify := range []bool{false, true} {
				if !inInput && !minify {
					continue // without the minifier esbuild only removes syntax; with it, rewrites may introduce the feature
				}
				// the single override on its own: esbuild must itself extend it to the features that cannot exist without it
				// (async-await:false implies async generators, for-await and top-level await; the private-name features are separate features that share one lexical detector, so they are only checked as a group below)
				if out1, ok1, _ := transformJS(cs.code, api.TransformOptions{Target: api.ESNext, Supported: map[string]bool{f: false}, MinifySyntax: minify}); f == "async-await" && ok1 && (d.MatchString(out1) || c14Detectors["for-await"].MatchString(out1) || c14Detectors["async-generator"].MatchString(out1)) {
					c.Violation("supported-false-alone:"+f+":"+cs.code, map[string]interface{}{"kind": "supported:{feature:false} (no other override) but the output still uses the feature", "feature": f, "minify": minify, "input": cs.code, "output": out1})
				}
				out, ok, _ := transformJS(cs.code, api.TransformOptions{Target: api.ESNext, Supported: deps, MinifySyntax: minify})
				if ok && d.MatchString(out) {
					c.Violation("supported-false:"+f+":"+cs.code, map[string]interface{}{"kind": "supported:{feature:false} but the output still uses the feature", "feature": f, "minify": minify, "input": cs.code, "output": out})
				}
				c.Sub("supported_false_checks", 1)
			}
		}
		// supported:true for every feature on es2015 => identical to the esnext output
		allTrue := map[string]bool{}
		for _, f := range c14AllFeatures {
			allTrue[f] = true
		}
		o1, ok1, _ := transformJS(cs.code, api.TransformOptions{Target: api.ES2015, Supported: allTrue})
		o2, ok2, _ := transformJS(cs.code, api.TransformOptions{Target: api.ESNext})
		c.Sub("supported_all_true_checks", 1)
		if ok1 != ok2 || o1 != o2 {
			c.Violation("supported-true:"+cs.code, map[string]interface{}{"kind": "es2015 with every feature overridden to supported differs from esnext", "input": cs.code, "es2015_all_supported": o1, "esnext": o2, "ok": []bool{ok1, ok2}})
		}
	})
}

var c14AllFeatures = strings.Fields("arbitrary-module-namespace-names array-spread arrow async-await async-generator bigint class class-field class-private-accessor class-private-brand-check class-private-field class-private-method class-private-static-accessor class-private-static-field class-private-static-method class-static-blocks class-static-field const-and-let decorators default-argument destructuring dynamic-import exponent-operator export-star-as for-await for-of from-base64 function-name-configurable function-or-class-property-access generator hashbang import-assertions import-attributes import-defer import-meta import-source inline-script logical-assignment nested-rest-binding new-target node-colon-prefix-import node-colon-prefix-require nullish-coalescing object-accessors object-extensions object-rest-spread optional-catch-binding optional-chain regexp-dot-all-flag regexp-lookbehind-assertions regexp-match-indices regexp-named-capture-groups regexp-set-notation regexp-sticky-and-unicode-flags regexp-unicode-property-escapes rest-argument template-literal top-level-await typeof-exotic-object-is-object unicode-escapes using")

var c14BundleFiles = map[string]string{
	"entry.mjs": `import def, {named} from './cjs.cjs'; import * as ns from './esm.mjs'; import json from './data.json';
export class K { static #p = 1; #q = 2; static { K.s = ns } m() { return this.#q ?? K.#p } async am(x) { for await (const y of x) await y; return x?.y }
  get #g() { return 1 } static async *ag() { yield* [1n] } }
export const lazy = () => import('./lazy.mjs'); export let o = {...json, named, def}; o.x ??= 2 ** 3; export default async function* () { try { yield 1 } catch { } }
export * from './esm.mjs'; export * as star from './esm.mjs';`,
	"cjs.cjs":    `exports.named = 1; module.exports.default = class { x = 1 }; exports.f = async () => { await 1 }; var {a, ...r} = exports; exports.r = r; exports.t = typeof require;`,
	"esm.mjs":    "export let live = 1; export function bump() { live++ } export default class { static accessor_ = 1 } export const re = /(?<n>a)/s; export var big = 10n; export const tpl = `a${live}b`;",
	"lazy.mjs":   `const x = await Promise.resolve(1); export default x; export const m = import.meta.url;`,
	"data.json":  `{"a": 1, "b": [1, 2, {"c": null}]}`,
	"entry2.cjs": `const e = require('./esm.mjs'); module.exports = {e, g: function*() { yield e }, o: {...e}}; class A { static x = 1; #y; static { } } module.exports.A = A; exports.h = a => a?.b ?? 1;`,
}

func c14Bundles(c *Check, ns *nodeSet) {
	root := scratchRoot("c14")
	defer os.RemoveAll(root)
	writeTree(root, c14BundleFiles)
	type job struct {
		t      c14Target
		entry  string
		format api.Format
		minify bool
	}
	var jobs []job
	for _, t := range c14Targets {
		for _, e := range []string{"entry.mjs", "entry2.cjs"} {
			for _, f := range []api.Format{api.FormatESModule, api.FormatCommonJS, api.FormatIIFE} {
				for _, m := range []bool{false, true} {
					jobs = append(jobs, job{t, e, f, m})
				}
			}
		}
	}
	c.ForEach(uint64(len(jobs)), func(w int, i uint64) {
		j := jobs[i]
		r := api.Build(api.BuildOptions{EntryPoints: []string{filepath.Join(root, j.entry)}, Bundle: true, Write: false, Format: j.format, Target: j.t.target, Engines: j.t.engines,
			MinifySyntax: j.minify, MinifyWhitespace: j.minify, MinifyIdentifiers: j.minify, Outdir: filepath.Join(root, "out"), Splitting: false, LogLevel: api.LogLevelSilent, Platform: api.PlatformNode, GlobalName: "G"})
		c.Eval(1)
		if len(r.Errors) > 0 {
			c.Sub("bundle_error_or_unsupported", 1)
			return
		}
		for _, f := range r.OutputFiles {
			if !strings.HasSuffix(f.Path, ".js") {
				continue
			}
			goal := "script"
			if j.format == api.FormatESModule {
				goal = "module"
			}
			if j.format == api.FormatCommonJS {
				goal = "cjs"
			}
			out := string(f.Contents)
			c.Distinct(out)
			if j.t.node == "10" && goal == "module" {
				// Node 10's vm.SourceTextModule cannot parse dynamic import(); check as far as the lexical
				// detectors go and through the cjs/iife variants of the same build
				c.Sub("bundle_esm_node10_skipped", 1)
			} else if !ns.syntax(j.t.node, w, []synCase{{out, goal}})[0] {
				c.Violation(fmt.Sprintf("bundle:%s:%s:%d:%v", j.t.name, j.entry, j.format, j.minify), map[string]interface{}{"kind": "target engine rejects bundled output (helpers/wrappers)", "target": j.t.name, "entry": j.entry, "format": int(j.format), "minify": j.minify, "output": trunc(out, 6000)})
			}
			for _, ft := range j.t.lexical {
				if d := c14Detectors[ft]; d != nil && d.MatchString(out) {
					c.Violation(fmt.Sprintf("bundle-lex:%s:%s:%d:%v:%s", j.t.name, j.entry, j.format, j.minify, ft), map[string]interface{}{"kind": "bundled output contains syntax newer than target (lexical detector)", "feature": ft, "target": j.t.name, "entry": j.entry, "output": trunc(out, 6000)})
				}
			}
			c.Sub("bundle_outputs_checked", 1)
		}
	})
}

func runC14(c *Check) {
	c.Rule = "post-ES2015 constructs (operator table, ~130 lowering templates, statement hazards) x {7 installed Node engines as targets, es2015..es2024} x {plain, minify, iife, esm}: the named engine itself (or the witness engine for an ES year) must parse every output; lexical detectors for features older than the oldest engine and for per-feature supported:true/false overrides; bundles of a CJS+ESM+JSON+dynamic-import graph per target x format x minify (runtime helpers and wrappers); distinct = distinct outputs; module-level features (string import/export names, export * as, import.meta, top-level await, import attributes, hashbang) x entry/static/dynamic dependency x formats x splitting x targets; inputs rejected by the newest engine in both goals are skipped"
	c.Assump = []string{"es2018/es2019 targets are witnessed by Node 10.24, es2020 by Node 14.21, es2021/es2022 by Node 16.20, es2023/es2024 by Node 20.20 (each implements at least that year's syntax, so a valid output always parses)", "es2015-es2017 additionally rely on lexical detectors for async/await, **, for-await, optional catch binding (no engine that old is installed)"}
	ns := &nodeSet{pools: map[string]*NodePool{}, locks: map[string]*sync.Mutex{}}
	defer ns.close()
	all := concatOps(xAllOps, xAsyncGen, xGen)
	sp := &xspace{}
	sp.segs = append(sp.segs, segCtxOp(pickCtx("return", "stmt", "arrow-body", "class-static", "default-arg", "for-of", "class-key", "template"), all))
	sp.segs = append(sp.segs, c05TemplateSpace(c05Trees("quick")))
	sp.segs = append(sp.segs, asiSpace())
	sp.segs = append(sp.segs, c03PatternSpace(c03Trees("quick")[:4])) // minifier rewrites that may introduce newer syntax
	if c.Tier != "quick" {
		sp.segs = append(sp.segs, c03PatternSpace(c03Trees("thorough")))
		sp.segs = append(sp.segs, stmtSpace("quick"))
		red := pickOps(all, xReducedNames...)
		sp.segs = append(sp.segs, segPairs("return*all*slot*reduced", pickCtx("return"), all, red))
		sp.segs = append(sp.segs, segLvals(pickCtx("return", "for-of"), all, xLvals))
	}
	var allCases []xcase
	const B = 8
	for _, g := range sp.segs {
		g := g
		nb := (g.size + B - 1) / B
		c.ForEach(nb, func(w int, bi uint64) {
			var cs []xcase
			for i := bi * B; i < (bi+1)*B && i < g.size; i++ {
				cs = append(cs, g.at(i))
			}
			c14CheckBatch(c, ns, w, cs, g.name)
		})
		c.Set("segment:"+g.name, g.size)
		for i := uint64(0); i < g.size; i++ {
			allCases = append(allCases, g.at(i))
		}
		c.Sample(map[string]string{"segment": g.name, "program": g.at(g.size / 3).code})
	}
	c14Supported(c, allCases)
	c14Bundles(c, ns)
	c14ModuleLevel(c, ns)
}

func init() { register("C14", "exploration", runC14) }
