package main

// Build families shared by C18 (hashes) and C19 (metafile): small real-disk projects with known
// structure (expected inputs, edges, markers) crossed with option variants.

import (
	"path/filepath"

	"github.com/evanw/esbuild/pkg/api"
)

type famEdge struct {
	from, to, kind string // kind as in the metafile: import-statement, dynamic-import, require-call, import-rule, url-token
	external       bool
}

type family struct {
	name    string
	files   map[string]string
	entries []string
	edges   []famEdge // expected input-level edges (internal + external)
	unread  []string  // files that exist but must not appear in inputs
	base    func() api.BuildOptions
	cssOnly bool
}

func mark(file string, n int) string { return "MARK_" + file + "_" + string(rune('0'+n)) }

func famFiles() []family {
	js1 := map[string]string{
		"src/a.js":      "import {used} from './b.js';\nimport('external-pkg/dyn').then(console.log);\nimport './side.js';\nimport data from './data.json';\nimport ext from 'external-pkg';\nimport * as ext2 from 'external-pkg/sub';\nconst cjs = require('./cjs.cjs');\nconsole.log('MARK_a_1', used, data, ext, ext2, cjs);\nexport const fromA = 'MARK_a_2';\nexport default function main() { return import('./lazy.js') }\nexport {used as reexported} from './b.js';\n",
		"src/b.js":      "export const used = 'MARK_b_1';\nexport const unusedExport = 'MARK_b_2';\nconsole.log('MARK_b_3');\n",
		"src/side.js":   "console.log('MARK_side_1');\n",
		"src/shaken.js": "export const never = 'MARK_shaken_1';\n",
		"src/data.json": "{\"k\": \"MARK_data_1\", \"other\": \"MARK_data_2\"}",
		"src/cjs.cjs":   "exports.x = 'MARK_cjs_1';\n",
		"src/lazy.js":   "export const lazy = 'MARK_lazy_1';\nimport {never} from './shaken.js';\n",
		"src/unread.js": "console.log('MARK_unread_1')",
		"package.json":  "{\"name\":\"root\"}",
	}
	css1 := map[string]string{
		"src/entry.css": "@import './other.css';\n@import 'http://example.com/ext.css';\na { color: red; background: url(./img.png); content: 'MARK_entry_1' }\nb { background: url(./icon.svg) }\nc { background: url(https://example.com/x.png) }\n",
		"src/other.css": "d { color: blue; content: 'MARK_other_1' }\n",
		"src/img.png":   "\x89PNG MARK_img_1",
		"src/icon.svg":  "<svg xmlns='http://www.w3.org/2000/svg'><text>icon</text></svg>",
		"src/main.js":   "import './entry.css';\nimport pic from './img.png';\nconsole.log('MARK_main_1', pic);\n",
	}
	split := map[string]string{
		"src/e1.js":     "import {s} from './shared.js';\nconsole.log('MARK_e1_1', s);\nexport const one = 1;\nimport('./dyn.js');\n",
		"src/e2.js":     "import {s, t} from './shared.js';\nconsole.log('MARK_e2_1', s, t);\nexport const two = 2;\n",
		"src/shared.js": "export const s = 'MARK_shared_1';\nexport const t = 'MARK_shared_2';\n",
		"src/dyn.js":    "import {t} from './shared.js';\nexport const d = 'MARK_dyn_1' + t;\n",
	}
	legal := map[string]string{
		"src/a.js": "/*! LEGAL MARK_a_9 license A */\nimport './b.js';\nconsole.log('MARK_a_1');\n//! another legal line\n",
		"src/b.js": "/**\n * @license MARK_b_9 B\n */\nexport const b = 'MARK_b_1';\nconsole.log(b);\n",
	}
	glob := map[string]string{
		"src/entry.js":  "const n = 'a';\nimport('./dir/' + n + '.js').then(console.log);\nconsole.log('MARK_entry_1', injected, require('./dir/' + n + '.js'));\n",
		"src/dir/a.js":  "export default 'MARK_a_1';\n",
		"src/dir/b.js":  "export default 'MARK_b_1';\n",
		"src/inject.js": "export let injected = 'MARK_inject_1';\n",
	}
	jsBase := func() api.BuildOptions {
		return api.BuildOptions{Bundle: true, Outdir: "out", Format: api.FormatESModule, External: []string{"external-pkg", "external-pkg/*"}, Platform: api.PlatformNode}
	}
	// resolution that depends on more than the specifier: a package with "module" and "main" that is both imported and
	// required (the import is redirected to "main" so that only one copy is bundled), a "browser" map that replaces a
	// file and disables another, tsconfig "paths", and an alias
	resolve := map[string]string{
		"src/a.js":                          "import {v} from 'dual';\nimport './b.js';\nimport r from './replaced.js';\nimport off from './disabled.js';\nimport p from '@paths/x';\nimport al from 'aliased';\nconsole.log('MARK_a_1', v, r, off, p, al);\n",
		"src/b.js":                          "const d = require('dual');\nconsole.log('MARK_b_1', d.v);\n",
		"src/replaced.js":                   "export default 'MARK_replaced_1';\n",
		"src/replacement.js":                "export default 'MARK_replacement_1';\n",
		"src/disabled.js":                   "export default 'MARK_disabled_1';\n",
		"src/mapped/x.js":                   "export default 'MARK_x_1';\n",
		"src/alias-target.js":               "export default 'MARK_alias-target_1';\n",
		"package.json":                      "{\"name\":\"root\",\"browser\":{\"./src/replaced.js\":\"./src/replacement.js\",\"./src/disabled.js\":false}}",
		"tsconfig.json":                     "{\"compilerOptions\":{\"baseUrl\":\".\",\"paths\":{\"@paths/*\":[\"src/mapped/*\"]}}}",
		"node_modules/dual/package.json":    "{\"name\":\"dual\",\"main\":\"./main.cjs.js\",\"module\":\"./module.esm.js\"}",
		"node_modules/dual/main.cjs.js":     "exports.v = 'MARK_main.cjs_1';\n",
		"node_modules/dual/module.esm.js":   "export const v = 'MARK_module.esm_1';\n",
	}
	return []family{
		{name: "resolution-redirects", files: resolve, entries: []string{"src/a.js"}, unread: []string{"src/replaced.js", "node_modules/dual/module.esm.js", "src/disabled.js"},
			base: func() api.BuildOptions {
				return api.BuildOptions{Bundle: true, Outdir: "out", Format: api.FormatESModule, Platform: api.PlatformBrowser, Alias: map[string]string{"aliased": "./src/alias-target.js"}}
			},
			edges: []famEdge{{"src/a.js", "node_modules/dual/main.cjs.js", "import-statement", false}, {"src/a.js", "src/b.js", "import-statement", false}, {"src/b.js", "node_modules/dual/main.cjs.js", "require-call", false},
				{"src/a.js", "src/replacement.js", "import-statement", false}, {"src/a.js", "(disabled):src/disabled.js", "import-statement", false}, {"src/a.js", "src/mapped/x.js", "import-statement", false}, {"src/a.js", "src/alias-target.js", "import-statement", false}}},
		{name: "js-graph", files: js1, entries: []string{"src/a.js"}, unread: []string{"src/unread.js"}, base: jsBase,
			edges: []famEdge{{"src/a.js", "src/b.js", "import-statement", false}, {"src/a.js", "src/side.js", "import-statement", false}, {"src/a.js", "src/data.json", "import-statement", false},
				{"src/a.js", "external-pkg", "import-statement", true}, {"src/a.js", "external-pkg/sub", "import-statement", true}, {"src/a.js", "src/cjs.cjs", "require-call", false}, {"src/a.js", "src/lazy.js", "dynamic-import", false}, {"src/a.js", "external-pkg/dyn", "dynamic-import", true},
				{"src/lazy.js", "src/shaken.js", "import-statement", false}}},
		{name: "css-graph", files: css1, entries: []string{"src/entry.css"}, unread: []string{"src/main.js"}, cssOnly: true, base: func() api.BuildOptions {
			return api.BuildOptions{Bundle: true, Outdir: "out", Loader: map[string]api.Loader{".png": api.LoaderFile, ".svg": api.LoaderDataURL}, External: []string{"http://*", "https://*"}}
		}, edges: []famEdge{{"src/entry.css", "src/other.css", "import-rule", false}, {"src/entry.css", "http://example.com/ext.css", "import-rule", true}, {"src/entry.css", "src/img.png", "url-token", false}, {"src/entry.css", "src/icon.svg", "url-token", false}, {"src/entry.css", "https://example.com/x.png", "url-token", true}}},
		{name: "js-imports-css", files: css1, entries: []string{"src/main.js"}, base: func() api.BuildOptions {
			return api.BuildOptions{Bundle: true, Outdir: "out", Format: api.FormatESModule, Loader: map[string]api.Loader{".png": api.LoaderFile, ".svg": api.LoaderDataURL}, External: []string{"http://*", "https://*"}}
		}, edges: []famEdge{{"src/main.js", "src/entry.css", "import-statement", false}, {"src/main.js", "src/img.png", "import-statement", false}, {"src/entry.css", "src/other.css", "import-rule", false}, {"src/entry.css", "http://example.com/ext.css", "import-rule", true}, {"src/entry.css", "src/img.png", "url-token", false}, {"src/entry.css", "src/icon.svg", "url-token", false}, {"src/entry.css", "https://example.com/x.png", "url-token", true}}},
		{name: "splitting", files: split, entries: []string{"src/e1.js", "src/e2.js"}, base: func() api.BuildOptions {
			return api.BuildOptions{Bundle: true, Outdir: "out", Format: api.FormatESModule, Splitting: true}
		}, edges: []famEdge{{"src/e1.js", "src/shared.js", "import-statement", false}, {"src/e2.js", "src/shared.js", "import-statement", false}, {"src/e1.js", "src/dyn.js", "dynamic-import", false}, {"src/dyn.js", "src/shared.js", "import-statement", false}}},
		{name: "legal-comments", files: legal, entries: []string{"src/a.js"}, base: func() api.BuildOptions {
			return api.BuildOptions{Bundle: true, Outdir: "out", Format: api.FormatESModule, LegalComments: api.LegalCommentsLinked}
		}, edges: []famEdge{{"src/a.js", "src/b.js", "import-statement", false}}},
		{name: "glob-inject", files: glob, entries: []string{"src/entry.js"}, base: func() api.BuildOptions {
			return api.BuildOptions{Bundle: true, Outdir: "out", Format: api.FormatCommonJS, Inject: []string{"src/inject.js"}}
		}},
		{name: "copy-and-file-entries", files: map[string]string{"src/main.js": "import u from './pic.png';\nimport './copied.txt';\nconsole.log('MARK_main_1', u);\n", "src/pic.png": "PNG MARK_pic_1", "src/copied.txt": "MARK_copied_1", "src/asset-entry.bin": "MARK_asset_1"},
			entries: []string{"src/main.js", "src/asset-entry.bin"}, base: func() api.BuildOptions {
				return api.BuildOptions{Bundle: true, Outdir: "out", Format: api.FormatESModule, Loader: map[string]api.Loader{".png": api.LoaderFile, ".txt": api.LoaderCopy, ".bin": api.LoaderCopy}}
			}, edges: []famEdge{{"src/main.js", "src/pic.png", "import-statement", false}, {"src/main.js", "src/copied.txt", "import-statement", false}}},
	}
}

type famVariant struct {
	name string
	mod  func(o *api.BuildOptions)
}

func famVariants() []famVariant {
	return []famVariant{
		{"plain", func(o *api.BuildOptions) {}},
		{"minify", func(o *api.BuildOptions) { o.MinifyWhitespace, o.MinifySyntax, o.MinifyIdentifiers = true, true, true }},
		{"sourcemap-linked", func(o *api.BuildOptions) { o.Sourcemap = api.SourceMapLinked }},
		{"sourcemap-external-min", func(o *api.BuildOptions) { o.Sourcemap = api.SourceMapExternal; o.MinifyWhitespace = true }},
		{"hashed-names", func(o *api.BuildOptions) {
			o.EntryNames = "[dir]/[name]-[hash]"
			o.ChunkNames = "chunks/[name]-[hash]"
			o.AssetNames = "assets/[name]-[hash]"
		}},
		{"long-names-min", func(o *api.BuildOptions) {
			o.EntryNames = "entries-with-a-rather-long-directory-name/[name]-[hash]"
			o.ChunkNames = "c/[hash]"
			o.AssetNames = "a/very/deep/asset/directory/[name]-[hash]"
			o.MinifyWhitespace = true
		}},
		{"public-path", func(o *api.BuildOptions) { o.PublicPath = "https://cdn.example.com/base/" }},
		{"legal-external", func(o *api.BuildOptions) { o.LegalComments = api.LegalCommentsExternal }},
		{"cjs-node10", func(o *api.BuildOptions) {
			// node 10 has no import(): external dynamic imports are printed as Promise.resolve().then(() => require(...))
			if !o.Splitting {
				o.Format = api.FormatCommonJS
			}
			o.Engines = []api.Engine{{Name: api.EngineNode, Version: "10"}}
		}},
		{"iife-chrome60", func(o *api.BuildOptions) {
			if !o.Splitting {
				o.Format = api.FormatIIFE
			}
			o.Engines = []api.Engine{{Name: api.EngineChrome, Version: "60"}}
		}},
		{"cjs", func(o *api.BuildOptions) {
			if !o.Splitting {
				o.Format = api.FormatCommonJS
			}
		}},
		{"iife-min", func(o *api.BuildOptions) {
			if !o.Splitting {
				o.Format = api.FormatIIFE
				o.MinifyWhitespace = true
			}
		}},
		{"outbase", func(o *api.BuildOptions) { o.Outbase = "." }},
		// path styles of the metafile and of the path comments in the code are independent options
		{"abs-paths-metafile", func(o *api.BuildOptions) { o.AbsPaths = api.MetafileAbsPath }},
		{"abs-paths-code", func(o *api.BuildOptions) { o.AbsPaths = api.CodeAbsPath }},
		{"abs-paths-code-metafile-min", func(o *api.BuildOptions) { o.AbsPaths = api.CodeAbsPath | api.MetafileAbsPath; o.MinifyWhitespace = true }},
	}
}

func famBuild(root string, f family, v famVariant, extra func(o *api.BuildOptions)) (api.BuildResult, api.BuildOptions) {
	o := f.base()
	for _, e := range f.entries {
		o.EntryPoints = append(o.EntryPoints, e)
	}
	for i := range o.Inject {
		o.Inject[i] = filepath.Join(root, o.Inject[i])
	}
	o.AbsWorkingDir = root
	o.Write = false
	o.Metafile = true
	o.LogLevel = api.LogLevelSilent
	v.mod(&o)
	if extra != nil {
		extra(&o)
	}
	return api.Build(o), o
}
