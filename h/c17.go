package main

// C17: builds never clobber inputs; failed builds write nothing.

import (
	"fmt"
	"os"
	"path/filepath"
	"sort"
	"strings"
	"sync"

	"github.com/evanw/esbuild/pkg/api"
)

var c17Project = map[string]string{
	"src/a.js":    "import {b} from './b.js';\nimport img from './img.png';\nconsole.log('a', b, img);\n",
	"src/b.js":    "export const b = 'b';\n",
	"src/img.png": "PNGDATA",
	"src/c.css":   "a { background: url(./img.png) }\n",
	"src/A2.js":   "console.log('case variant')\n",
	// two pairs of entry points whose outputs can collide: same base name in two directories, same name with two extensions
	"src/sub2/a.js": "console.log('the other a')\n",
	"src/u.ts":      "export const u: number = 1\n",
	"src/u.js":      "export const u = 'js'\n",
	"lnk":           "SYMLINK:src",
}

type c17Opts struct {
	outdir, outfile string
	outExt          string // "" | ".js" | ".mjs"
	entryNames      string
	assetNames      string
	assetLoader     api.Loader
	outbase         string
	allowOverwrite  bool
	write           bool
	bundle          bool
	entries         []string
	fault           string // "" | "syntax" | "onResolve" | "onLoad" | "onEnd" | "cancel-in-onLoad" | "cancel-in-onStart" | "cancel-in-onResolve"
}

func (o c17Opts) String() string {
	return fmt.Sprintf("outdir=%q outfile=%q outExt=%q entryNames=%q assetNames=%q loader=%d outbase=%q allowOverwrite=%v write=%v bundle=%v entries=%v fault=%q", o.outdir, o.outfile, o.outExt, o.entryNames, o.assetNames, o.assetLoader, o.outbase, o.allowOverwrite, o.write, o.bundle, o.entries, o.fault)
}

func (o c17Opts) build(root string, ctxOut *api.BuildContext) api.BuildOptions {
	bo := api.BuildOptions{AbsWorkingDir: root, EntryPoints: o.entries, Bundle: o.bundle, Write: o.write, AllowOverwrite: o.allowOverwrite, LogLevel: api.LogLevelSilent,
		Outdir: o.outdir, Outfile: o.outfile, EntryNames: o.entryNames, AssetNames: o.assetNames, Outbase: o.outbase, Format: api.FormatESModule}
	if o.bundle {
		bo.Loader = map[string]api.Loader{".png": o.assetLoader}
	} else {
		bo.Loader = map[string]api.Loader{".png": api.LoaderCopy}
	}
	if o.outExt != "" {
		bo.OutExtension = map[string]string{".js": o.outExt}
	}
	if o.fault != "" && o.fault != "syntax" {
		f := o.fault
		bo.Plugins = []api.Plugin{{Name: "fault", Setup: func(b api.PluginBuild) {
			cancel := func() {
				if ctxOut != nil && *ctxOut != nil {
					(*ctxOut).Cancel()
				}
			}
			b.OnStart(func() (api.OnStartResult, error) {
				if f == "cancel-in-onStart" {
					go cancel()
				}
				return api.OnStartResult{}, nil
			})
			b.OnResolve(api.OnResolveOptions{Filter: `b\.js$`}, func(a api.OnResolveArgs) (api.OnResolveResult, error) {
				if f == "onResolve" {
					return api.OnResolveResult{}, fmt.Errorf("injected resolve failure")
				}
				return api.OnResolveResult{}, nil
			})
			b.OnLoad(api.OnLoadOptions{Filter: `b\.js$`}, func(a api.OnLoadArgs) (api.OnLoadResult, error) {
				if f == "onLoad" {
					return api.OnLoadResult{}, fmt.Errorf("injected load failure")
				}
				return api.OnLoadResult{}, nil
			})
			b.OnEnd(func(r *api.BuildResult) (api.OnEndResult, error) {
				if f == "onEnd" {
					return api.OnEndResult{}, fmt.Errorf("injected end failure")
				}
				return api.OnEndResult{}, nil
			})
		}}}
	}
	return bo
}

func c17Matrix(tier string) []c17Opts {
	var out []c17Opts
	outdirs := []string{"out", "src", ".", "src/sub", "lnk", "lnk/sub"}
	entryNames := []string{"", "[name]", "[dir]/[name]", "../[name]", "[dir]/[name]-[hash]"}
	outExts := []string{"", ".js", ".mjs"}
	assetNames := []string{"", "[name]"}
	loaders := []api.Loader{api.LoaderFile, api.LoaderCopy}
	outbases := []string{"", "src", "."}
	entrySets := [][]string{{"src/a.js"}, {"src/a.js", "src/c.css"}, {"src/a.js", "src/img.png"}, {"lnk/a.js"}, {"src/a.js", "src/A2.js"}, {"src/a.js", "src/sub2/a.js"}, {"src/u.ts", "src/u.js"}}
	for _, od := range outdirs {
		for _, en := range entryNames {
			for _, oe := range outExts {
				for _, an := range assetNames {
					for li, ld := range loaders {
						for _, ob := range outbases {
							for ei, es := range entrySets {
								for _, aw := range []bool{false, true} {
									for _, bundle := range []bool{true, false} {
										if tier == "quick" && (len(out)+li+ei)%3 != 0 && !(od == "lnk" || od == "src") {
											continue
										}
										if !bundle && ld == api.LoaderCopy {
											continue
										}
										out = append(out, c17Opts{outdir: od, outExt: oe, entryNames: en, assetNames: an, assetLoader: ld, outbase: ob, allowOverwrite: aw, write: true, bundle: bundle, entries: es})
									}
								}
							}
						}
					}
				}
			}
		}
	}
	// outfile forms
	for _, of := range []string{"out.js", "src/a.js", "src/out.js", "lnk/a.js", "./src/../src/a.js", "src/b.js"} {
		for _, aw := range []bool{false, true} {
			for _, bundle := range []bool{true, false} {
				out = append(out, c17Opts{outfile: of, allowOverwrite: aw, write: true, bundle: bundle, entries: []string{"src/a.js"}, assetLoader: api.LoaderDataURL})
			}
		}
	}
	// write disabled and faults
	for _, od := range []string{"out", "src", "lnk"} {
		for _, f := range []string{"", "syntax", "onResolve", "onLoad", "onEnd"} {
			for _, w := range []bool{true, false} {
				if f == "" && w {
					continue
				}
				out = append(out, c17Opts{outdir: od, allowOverwrite: true, write: w, bundle: true, entries: []string{"src/a.js", "src/c.css"}, assetLoader: api.LoaderFile, fault: f, entryNames: "[name]-out"})
			}
		}
	}
	return out
}

type c17Result struct {
	created, modified, deleted []string
}

// c17CheckBuild evaluates one build result against the directory snapshots.
func c17CheckBuild(c *Check, label string, root string, before, after map[string]snapEntry, r api.BuildResult, o c17Opts, inputs map[string]bool, everWritten map[string]bool, isRebuild bool) {
	created, modified, deleted := snapDiff(before, after)
	viol := func(kind string, extra map[string]interface{}) {
		extra["kind"] = kind
		extra["case"] = label
		extra["options"] = o.String()
		extra["created"], extra["modified"], extra["deleted"] = created, modified, deleted
		var errs []string
		for _, e := range r.Errors {
			errs = append(errs, e.Text)
		}
		extra["errors"] = errs
		c.Violation("fs:"+kind+":"+c17Key(o, extra), extra)
	}
	outByPath := map[string][]byte{}
	dup := false
	for _, f := range r.OutputFiles {
		rel, err := filepath.Rel(root, f.Path)
		if err != nil {
			rel = f.Path
		}
		if old, ok := outByPath[rel]; ok && string(old) != string(f.Contents) {
			dup = true
			viol("two outputs share one path with different contents", map[string]interface{}{"path": rel})
		}
		outByPath[rel] = f.Contents
	}
	_ = dup
	failed := len(r.Errors) > 0
	if o.fault == "onEnd" {
		failed = false // end callbacks run after the outputs are written (C20); their errors do not undo the build
	}
	changed := append(append([]string{}, created...), modified...)
	var changedFiles []string
	for _, p := range changed {
		if after[p].Kind == "file" {
			changedFiles = append(changedFiles, p)
		}
	}
	if failed || !o.write {
		if len(changedFiles) > 0 {
			viol("a failed, cancelled or write-disabled build created or modified files", map[string]interface{}{"files": changedFiles})
		}
	} else {
		// created/modified files == reported outputs with identical bytes
		for _, p := range changedFiles {
			real := c17RealRel(root, p)
			data, ok := outByPath[p]
			if !ok {
				data, ok = outByPath[real]
			}
			if !ok {
				// a reported output may reach this file through the symlink
				for op, od := range outByPath {
					if c17RealRel(root, op) == real {
						data, ok = od, true
					}
				}
			}
			if !ok {
				viol("build wrote a file it does not report as an output", map[string]interface{}{"path": p, "reported": keysOfBytes(outByPath)})
				continue
			}
			disk, _ := os.ReadFile(filepath.Join(root, p))
			if string(disk) != string(data) {
				viol("file on disk differs from the reported output contents", map[string]interface{}{"path": p})
			}
		}
		for op, data := range outByPath {
			disk, err := os.ReadFile(filepath.Join(root, op))
			if err != nil || string(disk) != string(data) {
				viol("reported output is not on disk with the reported contents", map[string]interface{}{"path": op})
			}
			// inside outdir unless the templates contain ".."
			if o.outdir != "" && !strings.Contains(o.entryNames, "..") && !strings.Contains(o.assetNames, "..") {
				od := filepath.Clean(o.outdir)
				if od != "." && !strings.HasPrefix(filepath.Clean(op), od+string(filepath.Separator)) {
					viol("output written outside the output directory", map[string]interface{}{"path": op})
				}
			}
		}
	}
	// inputs never modified or removed unless overwriting was allowed
	if !o.allowOverwrite {
		for _, p := range append(append([]string{}, modified...), deleted...) {
			if inputs[c17RealRel(root, p)] || inputs[p] {
				extra := map[string]interface{}{"path": p}
				kind := "input file overwritten or deleted without allow-overwrite"
				if isRebuild && everWritten[p] {
					kind = "rebuild deleted a stale output of an earlier build that has meanwhile become an input"
				}
				viol(kind, extra)
			}
		}
	}
	for _, p := range deleted {
		if inputs[c17RealRel(root, p)] || inputs[p] {
			if !o.allowOverwrite {
				continue // already reported above
			}
		}
		if !isRebuild {
			viol("a build deleted a file", map[string]interface{}{"path": p})
		} else if !everWritten[p] {
			viol("a rebuild deleted a file that this context never wrote", map[string]interface{}{"path": p})
		} else if _, ok := outByPath[p]; ok {
			viol("a rebuild deleted a file that is an output of the current build", map[string]interface{}{"path": p})
		}
	}
}

func c17RealRel(root, rel string) string {
	real, err := filepath.EvalSymlinks(filepath.Join(root, filepath.Dir(rel)))
	if err != nil {
		return rel
	}
	rroot, _ := filepath.EvalSymlinks(root)
	r, err := filepath.Rel(rroot, filepath.Join(real, filepath.Base(rel)))
	if err != nil {
		return rel
	}
	return r
}

// key for known findings: the option class that matters, not the full matrix point
func c17Key(o c17Opts, extra map[string]interface{}) string {
	cls := "outdir=" + o.outdir
	if o.outfile != "" {
		cls = "outfile=" + o.outfile
	}
	if strings.HasPrefix(o.outdir, "lnk") || strings.HasPrefix(o.outfile, "lnk") {
		cls = "through-symlink"
	}
	if strings.HasPrefix(fmt.Sprint(extra["kind"]), "rebuild deleted a stale output") {
		return "stale-output-that-became-an-input"
	}
	return cls + fmt.Sprintf(":aw=%v:fault=%s", o.allowOverwrite, o.fault)
}

func runC17(c *Check) {
	c.Rule = "project {src/a.js, b.js, img.png, c.css, case-variant entry, symlink lnk->src} x option matrix (outdir in {out, src, ., src/sub, lnk, lnk/sub} x entry-name templates x out-extension x asset-name templates x file/copy loaders x outbase x allow-overwrite x bundle; outfile forms; write disabled) x faults (syntax error; plugin failure in onResolve/onLoad/onEnd) x rebuild histories of length<=3 over {add entry match, remove it, change content hash, break, repair}; oracle = recursive directory snapshots before/after each build compared with the reported OutputFiles; distinct = distinct (created, modified, deleted) sets; entry-point pairs whose outputs collide on one path"
	c.Assump = []string{"write-time I/O errors (read-only directories, ENOSPC) and Windows path semantics are not explored", "cancellation points are explored by the C20 scheduler harness; here cancellation is only issued from plugin callbacks of a context build"}
	root := scratchRoot("c17")
	defer os.RemoveAll(root)
	cases := c17Matrix(c.Tier)
	c.Set("matrix_points", len(cases))
	inputs := map[string]bool{}
	for p, v := range c17Project {
		if !strings.HasPrefix(v, "SYMLINK:") {
			inputs[p] = true
		}
	}
	c.ForEach(uint64(len(cases)), func(w int, i uint64) {
		o := cases[i]
		// every case gets a parent directory of its own: entry-name templates such as "../[name]" write next to the
		// project directory, which must not be shared with the cases running in parallel
		dir := filepath.Join(root, fmt.Sprintf("m%d", i), "proj")
		files := map[string]string{}
		for k, v := range c17Project {
			files[k] = v
		}
		if o.fault == "syntax" {
			files["src/b.js"] = "export const b = ;\n"
		}
		writeTree(dir, files)
		defer os.RemoveAll(filepath.Dir(dir))
		before := snapshot(dir)
		r := api.Build(o.build(dir, nil))
		after := snapshot(dir)
		c.Eval(1)
		cr, mo, de := snapDiff(before, after)
		c.Distinct(fmt.Sprint(cr, mo, de, len(r.Errors) > 0))
		// the inputs of this build: its entry points, plus what they import when bundling
		myInputs := map[string]bool{}
		for _, e := range o.entries {
			myInputs[c17RealRel(dir, e)] = true
			if o.bundle && strings.HasSuffix(e, "a.js") {
				myInputs["src/b.js"], myInputs["src/img.png"] = true, true
			}
			if o.bundle && strings.HasSuffix(e, "c.css") {
				myInputs["src/img.png"] = true
			}
		}
		c17CheckBuild(c, fmt.Sprintf("matrix#%d", i), dir, before, after, r, o, myInputs, nil, false)
	})
	c17Histories(c, root, inputs)
	c.Sample(map[string]string{"options": cases[len(cases)/2].String()})
	c17CLI(c, root)
}

// rebuild histories on one context
func c17Histories(c *Check, root string, inputs map[string]bool) {
	edits := []string{"add-entry", "remove-entry", "change-content", "break", "repair", "output-becomes-input"}
	var hist [][]string
	var rec func(cur []string)
	rec = func(cur []string) {
		if len(cur) > 0 {
			hist = append(hist, append([]string{}, cur...))
		}
		if len(cur) == 3 {
			return
		}
		for _, e := range edits {
			rec(append(cur, e))
		}
	}
	rec(nil)
	var mu sync.Mutex
	_ = mu
	cfgs := []c17Opts{
		{outdir: "out", entryNames: "[name]-[hash]", assetLoader: api.LoaderFile, write: true, bundle: true, entries: []string{"src/*.js"}},
		{outdir: "out", entryNames: "[name]", assetLoader: api.LoaderFile, write: true, bundle: true, entries: []string{"src/*.js"}, allowOverwrite: true},
	}
	type job struct {
		h   []string
		cfg int
	}
	var jobs []job
	for _, h := range hist {
		for ci := range cfgs {
			jobs = append(jobs, job{h, ci})
		}
	}
	c.Set("rebuild_histories", len(jobs))
	c.ForEach(uint64(len(jobs)), func(w int, i uint64) {
		j := jobs[i]
		o := cfgs[j.cfg]
		dir := filepath.Join(root, fmt.Sprintf("h%d", i))
		writeTree(dir, c17Project)
		defer os.RemoveAll(dir)
		ctx, err := api.Context(o.build(dir, nil))
		if err != nil {
			fatalf("context: %v", err)
		}
		defer ctx.Dispose()
		ever := map[string]bool{}
		myInputs := map[string]bool{}
		for k := range inputs {
			myInputs[k] = true
		}
		step := func(label string) {
			before := snapshot(dir)
			r := ctx.Rebuild()
			after := snapshot(dir)
			c.Eval(1)
			cr, mo, de := snapDiff(before, after)
			c.Distinct("hist", fmt.Sprint(cr, mo, de, len(r.Errors) > 0))
			c17CheckBuild(c, label, dir, before, after, r, o, myInputs, ever, true)
			if len(r.Errors) == 0 {
				for _, f := range r.OutputFiles {
					rel, _ := filepath.Rel(dir, f.Path)
					ever[rel] = true
				}
			}
		}
		step(fmt.Sprintf("history %v cfg%d step 0", j.h, j.cfg))
		for si, e := range j.h {
			switch e {
			case "add-entry":
				os.WriteFile(filepath.Join(dir, "src/extra.js"), []byte("console.log('extra')\n"), 0o644)
				myInputs["src/extra.js"] = true
			case "remove-entry":
				os.Remove(filepath.Join(dir, "src/extra.js"))
				delete(myInputs, "src/extra.js")
			case "change-content":
				os.WriteFile(filepath.Join(dir, "src/b.js"), []byte(fmt.Sprintf("export const b = 'b%d';\n", si)), 0o644)
			case "break":
				os.WriteFile(filepath.Join(dir, "src/b.js"), []byte("export const b = ;\n"), 0o644)
			case "repair":
				os.WriteFile(filepath.Join(dir, "src/b.js"), []byte("export const b = 'b';\n"), 0o644)
			case "output-becomes-input":
				// a previous output is now also imported by an input (so it is an input of the next build)
				var outs []string
				for p := range ever {
					if strings.HasSuffix(p, ".js") {
						outs = append(outs, p)
					}
				}
				sort.Strings(outs)
				if len(outs) > 0 {
					os.WriteFile(filepath.Join(dir, "src/A2.js"), []byte(fmt.Sprintf("import '../%s'; console.log('uses output')\n", outs[0])), 0o644)
					myInputs[outs[0]] = true
				}
			}
			step(fmt.Sprintf("history %v cfg%d step %d(%s)", j.h, j.cfg, si+1, e))
		}
	})
}

func init() { register("C17", "fault_enumeration", runC17) }
