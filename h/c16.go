package main

// C16: no crash, hang or internal error on any input.

import (
	"encoding/base64"
	"encoding/json"
	"fmt"
	"os"
	"os/exec"
	"path/filepath"
	"strings"
	"time"

	"github.com/evanw/esbuild/pkg/api"
)

var c16Loaders = []struct {
	name string
	l    api.Loader
}{{"js", api.LoaderJS}, {"jsx", api.LoaderJSX}, {"ts", api.LoaderTS}, {"tsx", api.LoaderTSX}, {"css", api.LoaderCSS}, {"local-css", api.LoaderLocalCSS}, {"json", api.LoaderJSON}}

var c16Bytes = []string{"!", "\"", "#", "$", "%", "&", "'", "(", ")", "*", "+", ",", "-", ".", "/", ":", ";", "<", "=", ">", "?", "@", "[", "\\", "]", "^", "`", "{", "|", "}", "~",
	"a", "1", " ", "\n", "\x00", "\x80", "\xC3\x28", "\xEF\xBB\xBF", "u"}

type c16Opt struct {
	name string
	o    api.TransformOptions
}

var c16Opts = []c16Opt{
	{"default", api.TransformOptions{}},
	{"minify-es2015-map", api.TransformOptions{MinifySyntax: true, MinifyIdentifiers: true, MinifyWhitespace: true, Target: api.ES2015, Sourcemap: api.SourceMapExternal, Sourcefile: "in.x"}},
	{"iife-es5-keepnames", api.TransformOptions{Format: api.FormatIIFE, Target: api.ES5, KeepNames: true, MinifySyntax: true, GlobalName: "G"}},
	{"mangle-esm", api.TransformOptions{Format: api.FormatESModule, MangleProps: "_$", MinifySyntax: true, TreeShaking: api.TreeShakingTrue, JSX: api.JSXAutomatic}},
}

var c16Journal string

func c16Bad(msgs []api.Message) string {
	for _, m := range msgs {
		if strings.HasPrefix(m.Text, "panic:") || strings.Contains(m.Text, "Internal error") || strings.Contains(m.Text, "internal error") || strings.Contains(m.Text, "runtime error") {
			return m.Text
		}
	}
	return ""
}

type c16Result struct {
	out  string
	errs int
	bad  string
	dur  time.Duration
	hung bool
}

func c16Try(input string, loader api.Loader, o api.TransformOptions) c16Result {
	if c16Journal != "" {
		os.WriteFile(c16Journal, []byte(fmt.Sprintf("%d\n%s", loader, input)), 0o644)
	}
	o.Loader = loader
	o.LogLevel = api.LogLevelSilent
	ch := make(chan c16Result, 1)
	start := time.Now()
	go func() {
		r := api.Transform(input, o)
		res := c16Result{out: string(r.Code), errs: len(r.Errors)}
		res.bad = c16Bad(r.Errors)
		if res.bad == "" {
			res.bad = c16Bad(r.Warnings)
		}
		ch <- res
	}()
	select {
	case r := <-ch:
		r.dur = time.Since(start)
		return r
	case <-time.After(120 * time.Second):
		return c16Result{hung: true, dur: time.Since(start)}
	}
}

func c16Eval(c *Check, input string, li int, oi int, src string) c16Result {
	l := c16Loaders[li]
	o := c16Opts[oi]
	r := c16Try(input, l.l, o.o)
	c.Eval(1)
	if r.hung {
		c.Violation("hang:"+l.name+":"+o.name+":"+input, map[string]interface{}{"kind": "hang (>120s)", "loader": l.name, "options": o.name, "input_b64": base64.StdEncoding.EncodeToString([]byte(input)), "source": src})
	} else if r.bad != "" {
		c.Violation("internal:"+l.name+":"+o.name+":"+input, map[string]interface{}{"kind": "internal error / recovered panic", "message": trunc(r.bad, 600), "loader": l.name, "options": o.name, "input_b64": base64.StdEncoding.EncodeToString([]byte(input)), "input": trunc(input, 300), "source": src})
	}
	if r.errs == 0 {
		c.Distinct(l.name, r.out)
	} else {
		c.Sub("reported_ordinary_errors", 1)
	}
	return r
}

var c16Openers = []string{"(", "[", "{", "<a>", "a?", "a=>", "async(", "`${", "class{x=", "function(){", "<T>(", "a as <", "!", "a.", "a?.", "new ", "a**", "{a:", "[...", "typeof ", "a?b:", "-", "a=", "a,"}
var c16CSSOpeners = []string{"{", "(", "a{", "@media{", "a:is(", "calc(", "[", "&", "a{&:b{", "@layer a{", "url(", "var(--a,", "a>", ":not("}

func c16Body(c *Check) {
	quick := c.Tier == "quick"
	// (a) byte words
	maxLen := 3
	alpha := c16Bytes
	if quick {
		alpha = append(append([]string{}, c16Bytes[:30]...), c16Bytes[31:39]...) // 38 classes
	}
	for n := 1; n <= maxLen; n++ {
		size := uint64(1)
		for k := 0; k < n; k++ {
			size *= uint64(len(alpha))
		}
		nl := uint64(len(c16Loaders))
		c.ForEach(size*nl, func(w int, i uint64) {
			li := int(i % nl)
			wd := c13Word(i/nl, n, alpha)
			in := strings.Join(wd, "")
			oi := 0
			if (i/nl)%5 == 1 {
				oi = 1 + int((i/nl/5)%3)
			}
			c16Eval(c, in, li, oi, "byte-words")
		})
		c.Sub(fmt.Sprintf("byte_words_len%d", n), size*nl/uint64(c.shardN))
	}
	// (b) token words (C13 alphabet) under the non-JS loaders and with minify/target/sourcemap
	tl := 2
	toks := c13Tokens
	{
		size := uint64(1)
		for k := 0; k < tl; k++ {
			size *= uint64(len(toks))
		}
		c.ForEach(size*4, func(w int, i uint64) {
			li := []int{1, 2, 3, 0}[i%4]
			wd := c13Word(i/4, tl, toks)
			in := joinTokens(wd)
			c16Eval(c, in, li, 1+int(i/4)%3, "token-words")
		})
	}
	// (c) corpus and its mutants
	corpus := loadCorpus()
	c.Set("corpus_size", len(corpus))
	c.ForEach(uint64(len(corpus)), func(w int, i uint64) {
		it := corpus[i]
		for li := range c16Loaders {
			c16Eval(c, it.text, li, int(i+uint64(li))%len(c16Opts), "corpus")
		}
		ms := mutants(it.text)
		if quick {
			// quick tier: every 4th mutant of every input, origin-appropriate loaders
			var keep []string
			for k, m := range ms {
				if (k+int(i))%4 == 0 {
					keep = append(keep, m)
				}
			}
			ms = keep
		}
		lis := []int{0, 3}
		if strings.HasPrefix(it.src, "css") {
			lis = []int{4, 5}
		}
		for k, m := range ms {
			for _, li := range lis {
				c16Eval(c, m, li, (k+li)%len(c16Opts), "corpus-mutants")
			}
		}
		c.Sub("corpus_mutants", uint64(len(ms)))
	})
	// (d) nesting words: w^n
	ns := []int{64, 1500}
	if !quick {
		ns = []int{8, 64, 1000, 2000, 20000}
	}
	type nw struct {
		w  string
		li []int
	}
	var words []nw
	for _, a := range c16Openers {
		words = append(words, nw{a, []int{0, 2, 3}})
	}
	for _, a := range c16CSSOpeners {
		words = append(words, nw{a, []int{4, 5}})
	}
	words = append(words, nw{"[", []int{6}}, nw{"{\"a\":", []int{6}}, nw{"[[", []int{6}})
	if !quick {
		for _, a := range c16Openers[:12] {
			for _, b := range c16Openers[:12] {
				words = append(words, nw{a + b, []int{0, 3}})
			}
		}
	}
	// balanced nesting (opener^n body closer^n): accepted programs, so the printer runs on the deep tree as well
	for _, bw := range [][3]string{{"{", "", "}"}, {"[", "", "]"}, {"(a,", "1", ")"}, {"f(", "", ")"}, {"`${", "1", "}`"}, {"a?(", "1", "):2"}, {"-(", "1", ")"}, {"()=>{", "", "}"}, {"if(a){", "", "}"}, {"a=[", "1", "]"}, {"({a:", "1", "})"}, {"class A{static{", "", "}}"}} {
		words = append(words, nw{bw[0] + "\x00" + bw[1] + "\x00" + bw[2], []int{0, 3}})
	}
	words = append(words, nw{"<a>\x00x\x00</a>", []int{1, 3}}, nw{"[\x001\x00]", []int{6}}, nw{"{\"a\":\x001\x00}", []int{6}},
		nw{"a{\x00color:red\x00}", []int{4, 5}}, nw{"@media screen{\x00a{color:red}\x00}", []int{4, 5}}, nw{"a{&:hover{\x00color:red\x00}}", []int{4, 5}})
	// words on which the TypeScript parser backtracks (trial parses that contain further trial parses): depths 16, 64
	// and 400 only - without memoisation depth 64 would mean 2^64 trial parses, which the 120 s hang oracle reports
	backtrack := map[string]bool{}
	for _, a := range []string{"a?(b):c=>", "a?(b):(c):d=>", "a?async(b):c=>", "a?<T>(b):c=>", "(a):b=>", "a<b>(", "<a>(b)=>", "a?(b,c):d=>{", "x as a<b<", "a?(b):c=>d?(e):"} {
		words = append(words, nw{a, []int{2, 3}})
		backtrack[a] = true
	}
	c.ForEach(uint64(len(words)), func(w int, i uint64) {
		wd := words[i]
		for _, li := range wd.li {
			var prev time.Duration
			ns := ns
			if backtrack[wd.w] {
				ns = []int{16, 64, 400}
			}
			for _, n := range ns {
				css := li == 4 || li == 5
				balanced := strings.Contains(wd.w, "\x00")
				if n > 2000 && (css || balanced) {
					// blocks nested n deep are pretty-printed with 2n^2 bytes of indentation (size oracle below; CSS closes
					// unbalanced blocks itself): depth 20000 would mean 800 MB of output, so these stop at 2000
					continue
				}
				in := strings.Repeat(wd.w, n)
				if balanced {
					p := strings.Split(wd.w, "\x00")
					in = strings.Repeat(p[0], n) + p[1] + strings.Repeat(p[2], n)
				}
				r := c16Eval(c, in, li, 0, "nesting")
				if r.hung {
					break
				}
				c.Sub("nesting_cases", 1)
				// size oracle (deterministic, unlike run time): output larger than 200x the input
				if n >= 1000 && len(r.out) > 200*len(in) {
					stripped := 0
					for _, line := range strings.Split(r.out, "\n") {
						stripped += len(strings.TrimLeft(line, " ")) + 1
					}
					key := "output-size-superlinear:" + c16Loaders[li].name + ":" + strings.ReplaceAll(wd.w, "\x00", "…")
					if stripped <= 20*len(in) {
						// differential: without the leading spaces of each line the output is linear in the input
						key = "pretty-printed-indentation-is-quadratic-in-block-nesting-depth"
					}
					c.Violation(key, map[string]interface{}{"kind": "output size grows quadratically with nesting depth", "word": wd.w, "n": n, "input_bytes": len(in), "output_bytes": len(r.out), "output_bytes_without_indentation": stripped, "loader": c16Loaders[li].name})
				}
				if n >= 2000 && prev > 200*time.Millisecond && r.dur > 64*prev {
					// growth check between n and 2n (thorough: 1000 -> 2000) must stay polynomial
					c.Violation("superlinear:"+wd.w, map[string]interface{}{"kind": "run time grows faster than n^6 between n and 2n", "word": wd.w, "n": n, "t_prev": prev.String(), "t": r.dur.String()})
				}
				if r.dur > 60*time.Second {
					c.Violation("slow:"+wd.w, map[string]interface{}{"kind": "input of tens of kilobytes takes more than 60s", "word": wd.w, "n": n, "t": r.dur.String(), "loader": c16Loaders[li].name})
				}
				prev = r.dur
			}
		}
	})
	// (d2) CSS nesting lowered for an old browser multiplies selectors: m parents x k ampersands (m^k combinations) and
	// selector lists nested d deep (2^d); esbuild has an expansion limit, which must also bound the time
	{
		var ins []string
		for _, m := range []int{2, 3, 10} {
			sel := []string{}
			for i := 0; i < m; i++ {
				sel = append(sel, fmt.Sprintf(".p%d", i))
			}
			for k := 1; k <= 14; k++ {
				ins = append(ins, strings.Join(sel, ",")+"{"+strings.TrimSpace(strings.Repeat("& ", k))+"{color:red}}")
				ins = append(ins, strings.Join(sel, ",")+"{"+strings.TrimSuffix(strings.Repeat(":is(&) ", k), " ")+"{color:red}}")
			}
		}
		for _, d := range []int{2, 4, 8, 16, 20, 24, 32} {
			ins = append(ins, strings.Repeat(".a,.b{& .c,& .d{", d/2)+"color:red"+strings.Repeat("}}", d/2))
			ins = append(ins, strings.Repeat(".a,.b{.c &,.d &{", d/2)+"color:red"+strings.Repeat("}}", d/2))
		}
		lower := api.TransformOptions{Engines: []api.Engine{{Name: api.EngineChrome, Version: "80"}}}
		c.ForEach(uint64(len(ins)), func(w int, i uint64) {
			for _, l := range []api.Loader{api.LoaderCSS, api.LoaderLocalCSS} {
				r := c16Try(ins[i], l, lower)
				c.Eval(1)
				if r.hung {
					c.Violation("hang:css-nesting-expansion:"+ins[i], map[string]interface{}{"kind": "hang (>120s)", "input": ins[i], "options": "chrome80", "source": "css-nesting-expansion"})
				} else if r.bad != "" {
					c.Violation("internal:css-nesting-expansion:"+ins[i], map[string]interface{}{"kind": "internal error / recovered panic", "message": trunc(r.bad, 600), "input": ins[i], "source": "css-nesting-expansion"})
				}
				c.Sub("css_nesting_expansion_cases", 1)
			}
		})
	}
	// (e) source map payloads
	maps := []string{}
	alphaM := []string{"A", "C", "D", "g", ",", ";", "!", "AAAA", "z"}
	for n := 0; n <= 4; n++ {
		size := 1
		for k := 0; k < n; k++ {
			size *= len(alphaM)
		}
		if quick && n == 4 {
			break
		}
		for i := 0; i < size; i++ {
			j := i
			s := ""
			for k := 0; k < n; k++ {
				s += alphaM[j%len(alphaM)]
				j /= len(alphaM)
			}
			maps = append(maps, `{"version":3,"sources":["a.js"],"names":["x"],"mappings":"`+s+`"}`)
		}
	}
	vals := []string{"null", "true", "0", "-1", "1e999", "\"\"", "\"x\"", "[]", "{}", "[null]", "[0]", "[\"a\",null,1]", "{\"a\":1}", "[[]]"}
	keys := []string{"version", "sources", "names", "mappings", "sourcesContent", "sourceRoot", "file", "sections", "x_google_ignoreList"}
	for _, k := range keys {
		for _, v := range vals {
			maps = append(maps, `{"version":3,"sources":["a.js"],"names":[],"mappings":"AAAA","`+k+`":`+v+`}`, `{"`+k+`":`+v+`}`)
		}
	}
	maps = append(maps, "", "{", "[", "null", "3", "\"x\"", "{\"version\":3", "\xff\xfe", strings.Repeat("[", 5000))
	c.ForEach(uint64(len(maps)), func(w int, i uint64) {
		m := maps[i]
		forms := []string{
			"let x = 1\n//# sourceMappingURL=data:application/json;base64," + base64.StdEncoding.EncodeToString([]byte(m)),
			"let x = 1\n//# sourceMappingURL=data:application/json," + strings.ReplaceAll(strings.ReplaceAll(m, "%", "%25"), "\n", "%0A"),
			"let x = 1\n//# sourceMappingURL=data:application/json;base64," + trunc(base64.StdEncoding.EncodeToString([]byte(m)), 7),
			"a{b:c}\n/*# sourceMappingURL=data:application/json;base64," + base64.StdEncoding.EncodeToString([]byte(m)) + " */",
		}
		for fi, f := range forms {
			li := 0
			if fi == 3 {
				li = 4
			}
			c16Eval(c, f, li, 1, "sourcemap-payloads")
		}
	})
}

func runC16(c *Check) {
	c.Rule = "byte words<=3 over 38-40 byte classes x 7 loaders; C13 token words<=2 under jsx/ts/tsx with minify/target/sourcemap; every string literal of the repository's parser/printer/bundler tests under all loaders plus single-token deletions/duplications/swaps; nesting words w^n; source-map payload grammar; package.json/tsconfig.json key x value-kind matrix through real bundles; oracle: call returns, no panic / internal error text, process survives (workers are subprocesses with a journal), canary build afterwards; distinct = distinct (loader, output) pairs; balanced nestings with an output-size oracle; pattern words for every pattern-valued setting of package.json/tsconfig.json; TypeScript backtracking words; CSS nesting expansion (m parents x k ampersands) under lowering"
	c.Assump = []string{"inputs above tens of kilobytes and nesting above 20000 (2000 for accepted nestings, whose pretty-printed output is quadratic) are not explored", "hang = no answer for 120 s"}
	if c.shardN > 1 {
		c16Journal = argVal("--journal", "")
		c16Body(c)
		return
	}
	// parent: spawn worker subprocesses so that a fatal error (stack overflow, OOM) is attributed to its input
	N := NumWorkers()
	dir, _ := os.MkdirTemp("/dev/shm", "verif-c16-")
	defer os.RemoveAll(dir)
	type child struct {
		cmd     *exec.Cmd
		partial string
		journal string
		out     string
	}
	var kids []child
	for k := 0; k < N; k++ {
		p := filepath.Join(dir, fmt.Sprintf("p%d.json", k))
		j := filepath.Join(dir, fmt.Sprintf("j%d", k))
		cmd := exec.Command(os.Args[0], "C16", "--tier", c.Tier, "--shard", fmt.Sprintf("%d/%d", k, N), "--partial", p, "--journal", j)
		cmd.Env = append(os.Environ(), "GOMAXPROCS=2")
		of, _ := os.Create(filepath.Join(dir, fmt.Sprintf("o%d", k)))
		cmd.Stdout = of
		cmd.Stderr = of
		if err := cmd.Start(); err != nil {
			fatalf("spawn worker: %v", err)
		}
		kids = append(kids, child{cmd, p, j, of.Name()})
	}
	for _, k := range kids {
		err := k.cmd.Wait()
		if err != nil || !c.MergePartial(k.partial) {
			jd, _ := os.ReadFile(k.journal)
			od, _ := os.ReadFile(k.out)
			tail := string(od)
			if len(tail) > 1500 {
				tail = tail[:1500]
			}
			c.Violation("crash:"+string(jd), map[string]interface{}{"kind": "worker process died (fatal error / unrecovered panic)", "journal_loader_and_input": trunc(string(jd), 2000), "input_b64": base64.StdEncoding.EncodeToString(jd), "stderr_head": tail, "exit": fmt.Sprint(err)})
		}
	}
	c16Configs(c)
	// canary: the process (and a fresh build) is still usable
	r := api.Transform("let canary = 1", api.TransformOptions{LogLevel: api.LogLevelSilent})
	if len(r.Errors) != 0 || !strings.Contains(string(r.Code), "canary") {
		c.Violation("canary", map[string]interface{}{"kind": "canary build failed after the exploration"})
	}
	c.Sample(map[string]string{"byte-word": "\\x00{`", "loader": "tsx"})
	c.Sample(map[string]string{"nesting": "(`${)^1500", "loader": "js"})
}

func init() { register("C16", "exploration", runC16) }

// (f) malformed / type-confused package.json and tsconfig.json reached through real bundles.
func c16Configs(c *Check) {
	vals := []string{"null", "true", "0", "\"\"", "\"x\"", "\"./x.js\"", "[]", "{}", "{\"a\":\"b\"}", "[1]", "{\".\":null}", "{\"./*\":\"./*.js\"}", "{\"import\":{\"default\":[\"./x.js\",null,1]}}", "[\"./x.js\"]", "\"../x\"", "{\"#x\":1}", "false", "1e999", "\"\\u0000\"", "{\"node\":{},\"default\":\"./x.js\"}"}
	pkgKeys := []string{"name", "version", "main", "module", "browser", "type", "exports", "imports", "sideEffects", "dependencies", "typesVersions", "peerDependencies"}
	tsKeys := []string{"extends", "files", "include", "references", "compilerOptions", "compilerOptions.target", "compilerOptions.module", "compilerOptions.jsx", "compilerOptions.jsxFactory", "compilerOptions.jsxFragmentFactory",
		"compilerOptions.jsxImportSource", "compilerOptions.useDefineForClassFields", "compilerOptions.importsNotUsedAsValues", "compilerOptions.preserveValueImports", "compilerOptions.verbatimModuleSyntax",
		"compilerOptions.experimentalDecorators", "compilerOptions.alwaysStrict", "compilerOptions.strict", "compilerOptions.baseUrl", "compilerOptions.paths", "compilerOptions.moduleSuffixes", "compilerOptions.rootDirs"}
	type cfgCase struct {
		pkg, ts string
	}
	var cases []cfgCase
	for _, k := range pkgKeys {
		for _, v := range vals {
			cases = append(cases, cfgCase{pkg: "{\"name\":\"pkg\",\"" + k + "\":" + v + "}"})
		}
	}
	for _, k := range tsKeys {
		for _, v := range vals {
			if strings.HasPrefix(k, "compilerOptions.") {
				cases = append(cases, cfgCase{ts: "{\"compilerOptions\":{\"" + k[16:] + "\":" + v + "}}"})
			} else {
				cases = append(cases, cfgCase{ts: "{\"" + k + "\":" + v + "}"})
			}
		}
	}
	for _, raw := range []string{"", "{", "[", "null", "1", "\"x\"", "{\"a\":}", "{,}", "// c\n{}", "/* c */{\"compilerOptions\":{/*x*/\"jsx\":\"react\",},}", "\xef\xbb\xbf{}", "\xff\xfe{\x00}\x00", "{\"extends\":\"./tsconfig.json\"}", "{\"extends\":[\"./a\",\"./tsconfig.json\"]}", "{\"compilerOptions\":{\"paths\":{\"*\":[\"*\",null,1,{}]}}}", "{\"compilerOptions\":{\"paths\":{\"a*b*\":[\"x\"]},\"baseUrl\":1}}", strings.Repeat("[", 3000), "{\"exports\":" + strings.Repeat("{\"a\":", 2000) + "1" + strings.Repeat("}", 2000) + "}"} {
		cases = append(cases, cfgCase{pkg: raw}, cfgCase{ts: raw})
	}
	if c.Tier != "quick" {
		for _, k1 := range []string{"exports", "imports", "main", "browser", "type", "sideEffects"} {
			for _, k2 := range []string{"exports", "browser", "module", "type"} {
				for _, v1 := range vals[:12] {
					for _, v2 := range vals[4:10] {
						cases = append(cases, cfgCase{pkg: "{\"name\":\"pkg\",\"" + k1 + "\":" + v1 + ",\"" + k2 + "\":" + v2 + "}"})
					}
				}
			}
		}
	}
	// pattern-valued settings: package.json sideEffects globs, exports/imports subpath patterns, browser map keys and
	// tsconfig paths patterns are turned into regular expressions or matched by prefix/suffix arithmetic. All words over a
	// glob/regexp metacharacter alphabet (quick <= 2, thorough <= 3 symbols), and all tsconfig paths patterns over {a, b, *}
	// of <= 4 (thorough 5) symbols against imports whose length is below prefix + suffix.
	{
		alpha := []string{"*", "**", "?", "[", "]", "{", "}", "(", ")", "\\", ".", "/", "a", "-", "!", "^", "$", "+", "|", ","}
		maxLen := 2
		if c.Tier != "quick" {
			maxLen = 3
		}
		var words []string
		var rec func(cur string, n int)
		rec = func(cur string, n int) {
			if n > 0 {
				words = append(words, cur)
			}
			if n == maxLen {
				return
			}
			for _, a := range alpha {
				rec(cur+a, n+1)
			}
		}
		rec("", 0)
		q := func(s string) string { b, _ := json.Marshal(s); return string(b) }
		for _, w := range words {
			cases = append(cases, cfgCase{pkg: "{\"name\":\"pkg\",\"sideEffects\":[" + q(w) + "," + q("./"+w) + "],\"browser\":{" + q("./"+w) + ":false," + q(w) + ":\"./x.js\"}}"})
			cases = append(cases, cfgCase{pkg: "{\"name\":\"pkg\",\"exports\":{\".\":\"./index.js\"," + q("./"+w) + ":\"./x.js\",\"./s/*\":" + q("./"+w) + "},\"imports\":{" + q("#"+w) + ":\"./x.js\"}}"})
		}
		pl := 4
		if c.Tier != "quick" {
			pl = 5
		}
		var pats []string
		var rec2 func(cur string, n int)
		rec2 = func(cur string, n int) {
			if n > 0 && strings.Count(cur, "*") <= 1 {
				pats = append(pats, cur)
			}
			if n == pl {
				return
			}
			for _, a := range []string{"a", "b", "*"} {
				rec2(cur+a, n+1)
			}
		}
		rec2("", 0)
		for _, pt := range pats {
			cases = append(cases, cfgCase{ts: "{\"compilerOptions\":{\"baseUrl\":\".\",\"paths\":{" + q(pt) + ":[\"./local\",\"./x/*\"]}}}"})
		}
	}
	root := scratchRoot("c16cfg")
	defer os.RemoveAll(root)
	c.ForEach(uint64(len(cases)), func(w int, i uint64) {
		cs := cases[i]
		dir := filepath.Join(root, fmt.Sprintf("c%d", i))
		files := map[string]string{
			"entry.tsx":                     "import 'pkg'; import 'pkg/sub'; import x from '#x'; import './local'; import 'pkg/s/a'; import 'a'; import 'b'; import 'ab'; import 'ba'; import 'aba'; import 'bab'; import 'abab'; export class K { x = 1; @dec y } export const j = <a/>; enum E { A }",
			"local.ts":                      "export let a = 1",
			"node_modules/pkg/index.js":     "module.exports = 1",
			"node_modules/pkg/x.js":         "export default 2",
			"node_modules/pkg/sub.js":       "export default 3",
			"node_modules/pkg/package.json": "{\"name\":\"pkg\"}",
			"package.json":                  "{\"name\":\"root\",\"imports\":{\"#x\":\"./local.ts\"}}",
		}
		if cs.pkg != "" || cs.ts == "" {
			files["node_modules/pkg/package.json"] = cs.pkg
			if i%2 == 1 {
				files["package.json"] = cs.pkg
			}
		}
		if cs.ts != "" || cs.pkg == "" {
			files["tsconfig.json"] = cs.ts
		}
		writeTree(dir, files)
		done := make(chan api.BuildResult, 1)
		go func() {
			done <- api.Build(api.BuildOptions{EntryPoints: []string{filepath.Join(dir, "entry.tsx")}, Bundle: true, Write: false, LogLevel: api.LogLevelSilent, AbsWorkingDir: dir, Outdir: filepath.Join(dir, "out"), Platform: api.PlatformNode})
		}()
		c.Eval(1)
		select {
		case r := <-done:
			bad := c16Bad(r.Errors)
			if bad == "" {
				bad = c16Bad(r.Warnings)
			}
			if bad != "" {
				c.Violation("cfg-internal:"+cs.pkg+"|"+cs.ts, map[string]interface{}{"kind": "internal error / recovered panic (config file)", "message": trunc(bad, 600), "package.json": trunc(cs.pkg, 300), "tsconfig.json": trunc(cs.ts, 300)})
			}
			c.Distinct("cfg", fmt.Sprint(len(r.Errors)), fmt.Sprint(len(r.Warnings)), fmt.Sprint(len(r.OutputFiles)))
		case <-time.After(120 * time.Second):
			c.Violation("cfg-hang:"+cs.pkg+"|"+cs.ts, map[string]interface{}{"kind": "hang (>120s) (config file)", "package.json": trunc(cs.pkg, 300), "tsconfig.json": trunc(cs.ts, 300)})
		}
		os.RemoveAll(dir)
	})
	c.Sub("config_file_cases", uint64(len(cases)))
}
