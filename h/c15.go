package main

// C15: renaming never changes which declaration a name refers to (binding identity by execution).

import (
	"fmt"
	"os"
	"path/filepath"
	"sort"
	"strings"

	"github.com/evanw/esbuild/pkg/api"
)

// Name pool engineered to collide with what the renamers generate (short names, numbered suffixes)
// and with free globals of the same names (defined by the harness prelude).
var c15Names = []string{"a", "e", "x", "n2"}

const c15Prelude = "globalThis.a = 'G:a'; globalThis.e = 'G:e'; globalThis.x = 'G:x'; globalThis.n2 = 'G:n2'; globalThis.t = 'G:t'; globalThis.n = 'G:n'; globalThis.r = 'G:r'; globalThis.i = 'G:i'; globalThis.s = 'G:s'; globalThis.o = 'G:o'; globalThis.l = 'G:l'; globalThis.c = 'G:c'; globalThis.u = 'G:u';\n"

type c15Gen struct {
	tag  int
	site int
}

func (g *c15Gen) newTag() string { g.tag++; return fmt.Sprintf("'T%d'", g.tag) }

// refs: log every pool name as seen from this point
func (g *c15Gen) refs() string {
	var b strings.Builder
	for _, n := range c15Names {
		g.site++
		fmt.Fprintf(&b, "H.log(%d, typeof %s !== 'undefined' ? %s : 'undef'); ", g.site, n, n)
	}
	return b.String()
}

// declaration kinds usable as a statement inside any block-like body
var c15DeclKinds = []string{"none", "var", "let", "const", "function", "class", "var-destr", "let-destr", "fn-in-nested-block"}

func (g *c15Gen) decl(kind, name string) string {
	switch kind {
	case "var":
		return fmt.Sprintf("var %s = %s; ", name, g.newTag())
	case "let":
		return fmt.Sprintf("let %s = %s; ", name, g.newTag())
	case "const":
		return fmt.Sprintf("const %s = %s; ", name, g.newTag())
	case "function":
		return fmt.Sprintf("function %s() { return %s } ", name, g.newTag())
	case "class":
		return fmt.Sprintf("class %s { static tag = %s } ", name, g.newTag())
	case "var-destr":
		return fmt.Sprintf("var {k: %s} = {k: %s}; ", name, g.newTag())
	case "let-destr":
		return fmt.Sprintf("let [%s] = [%s]; ", name, g.newTag())
	case "fn-in-nested-block":
		return fmt.Sprintf("{ function %s() { return %s } } ", name, g.newTag())
	}
	return ""
}

// scope kinds: wrap(body, bindName) renders a nested scope whose own binding (param, catch variable,
// loop variable, self name) is bindName ("" = none)
var c15ScopeKinds = []string{"fn", "arrow", "block", "catch", "for-let", "method", "named-fn-expr", "switch", "param-default", "class-static", "getter", "generator", "for-of-const", "label", "eval", "with", "named-class-expr"}

func (g *c15Gen) scope(kind, bind, body string) string {
	t := g.newTag()
	switch kind {
	case "fn":
		if bind != "" {
			return fmt.Sprintf("(function(%s) { %s })(%s); ", bind, body, t)
		}
		return fmt.Sprintf("(function() { %s })(); ", body)
	case "arrow":
		if bind != "" {
			return fmt.Sprintf("((%s) => { %s })(%s); ", bind, body, t)
		}
		return fmt.Sprintf("(() => { %s })(); ", body)
	case "block":
		return fmt.Sprintf("{ %s } ", body)
	case "catch":
		if bind != "" {
			return fmt.Sprintf("try { throw %s } catch (%s) { %s } ", t, bind, body)
		}
		return fmt.Sprintf("try { throw %s } catch { %s } ", t, body)
	case "for-let":
		if bind != "" {
			return fmt.Sprintf("for (let %s = %s, once = 0; once < 1; once++) { %s } ", bind, t, body)
		}
		return fmt.Sprintf("for (let once = 0; once < 1; once++) { %s } ", body)
	case "for-of-const":
		if bind != "" {
			return fmt.Sprintf("for (const %s of [%s]) { %s } ", bind, t, body)
		}
		return fmt.Sprintf("for (const unused of [0]) { %s } ", body)
	case "method":
		if bind != "" {
			return fmt.Sprintf("new (class { m(%s) { %s } })().m(%s); ", bind, body, t)
		}
		return fmt.Sprintf("new (class { m() { %s } })().m(); ", body)
	case "named-fn-expr":
		if bind != "" {
			return fmt.Sprintf("(function %s() { H.log('self', typeof %s); %s })(); ", bind, bind, body)
		}
		return fmt.Sprintf("(function self() { %s })(); ", body)
	case "named-class-expr":
		if bind != "" {
			return fmt.Sprintf("(class %s { static { H.log('self', typeof %s); %s } }); ", bind, bind, body)
		}
		return fmt.Sprintf("(class Self { static { %s } }); ", body)
	case "switch":
		return fmt.Sprintf("switch (1) { case 1: %s } ", body)
	case "param-default":
		if bind != "" {
			return fmt.Sprintf("(function(p1 = (typeof %s !== 'undefined' ? %s : 'undef'), %s = %s) { H.log('default saw', p1); %s })(); ", bind, bind, bind, t, body)
		}
		return fmt.Sprintf("(function(p1 = 1) { %s })(); ", body)
	case "class-static":
		return fmt.Sprintf("(class { static { %s } }); ", body)
	case "getter":
		return fmt.Sprintf("({get g() { %s return 1 }}).g; ", body)
	case "generator":
		if bind != "" {
			return fmt.Sprintf("[...(function*(%s) { %s })(%s)]; ", bind, body, t)
		}
		return fmt.Sprintf("[...(function*() { %s })()]; ", body)
	case "label":
		if bind != "" {
			return fmt.Sprintf("%s: { %s break %s; } ", bind, body, bind)
		}
		return fmt.Sprintf("lbl: { %s break lbl; } ", body)
	case "eval":
		// direct eval: names visible here must keep their spelling
		var b strings.Builder
		for _, n := range c15Names {
			fmt.Fprintf(&b, "H.log('eval %s', eval(\"typeof %s !== 'undefined' ? %s : 'undef'\")); ", n, n, n)
		}
		if bind != "" {
			return fmt.Sprintf("(function(%s) { %s %s })(%s); ", bind, b.String(), body, t)
		}
		return fmt.Sprintf("(function() { %s %s })(); ", b.String(), body)
	case "with":
		return fmt.Sprintf("with ({%s: %s}) { %s } ", func() string {
			if bind != "" {
				return bind
			}
			return "w"
		}(), t, body)
	}
	return body
}

type c15Spec struct {
	k1, k2     int
	d0, d1, d2 int // declaration kind index
	n0, n1, n2 int // name index
	b1, b2     int // binding name index of scope 1/2 (+1; 0 = none)
}

func c15Render(s c15Spec) string {
	g := &c15Gen{}
	name := func(i int) string { return c15Names[i%len(c15Names)] }
	bind := func(i int) string {
		if i == 0 {
			return ""
		}
		return name(i - 1)
	}
	// Block-level function declarations get names outside the collision pool: Annex B.3.3 makes their
	// hoisting depend on parameter / catch / lexical names of enclosing scopes, an area where esbuild
	// deviates (known finding, probe in runC15) and which is not about renaming.
	fnLike := map[string]bool{"fn": true, "arrow": true, "method": true, "generator": true, "eval": true, "param-default": true, "named-fn-expr": true, "getter": true}
	dname := func(level int, kindIdx int, nameIdx int, direct bool) string {
		k := c15DeclKinds[kindIdx]
		if k == "fn-in-nested-block" || (k == "function" && !direct) {
			return fmt.Sprintf("fblk%d", level)
		}
		return name(nameIdx)
	}
	// `with` scopes: no declarations inside (assignments inside `with` target the scope object; block
	// functions inside `with` hit a separate known finding)
	if c15ScopeKinds[s.k1] == "with" {
		s.d1 = 0
		if k := c15DeclKinds[s.d2]; ((k == "function" || k == "var" || k == "var-destr") && !fnLike[c15ScopeKinds[s.k2]]) || k == "fn-in-nested-block" {
			s.d2 = 0 // would be hoisted through the `with` scope
		}
	}
	if c15ScopeKinds[s.k2] == "with" {
		s.d2 = 0
	}
	if c15ScopeKinds[s.k1] == "named-class-expr" && c15ScopeKinds[s.k2] == "eval" {
		s.k2 = 0 // known finding (probe in runC15): the inner name of a class expression is renamed despite direct eval
	}
	n0, n1, n2 := dname(0, s.d0, s.n0, true), dname(1, s.d1, s.n1, fnLike[c15ScopeKinds[s.k1]]), dname(2, s.d2, s.n2, fnLike[c15ScopeKinds[s.k2]])
	inner2 := g.decl(c15DeclKinds[s.d2], n2) + g.refs()
	// a closure created in the innermost scope and called at the very end observes captured bindings
	inner2 += "late.push(() => { " + g.refs() + "}); "
	body1 := g.decl(c15DeclKinds[s.d1], n1) + g.refs() + g.scope(c15ScopeKinds[s.k2], bind(s.b2), inner2) + g.refs()
	body0 := "var late = []; " + g.decl(c15DeclKinds[s.d0], n0) + g.refs() + g.scope(c15ScopeKinds[s.k1], bind(s.b1), body1) + g.refs() + "late.forEach(f => f()); return 'end';"
	return body0
}

// c15CatchSpace: a catch parameter (or other scope-owned binding) x a same-named hoistable declaration nested in
// the scope's body (Annex B.3.3 / B.3.5): the reference sites before, inside and after the nested block must keep
// binding to the catch parameter, the block-level function and the function-level var respectively.
func c15CatchSpace() xseg {
	var progs []string
	owners := []struct{ open, close string }{
		{"try { throw 'T0' } catch (N) { ", "} "},
		{"try { throw {k: 'T0'} } catch ({k: N}) { ", "} "},
		{"for (let N of ['T0']) { ", "} "},
		{"{ let N = 'T0'; { ", "} } "},
		{"(function(N) { ", "})('T0'); "},
	}
	inner := []string{
		"{ function N() { return 'T1' } H.log('in', typeof N) } ",
		"if (H) { function N() { return 'T1' } H.log('in', typeof N) } ",
		"{ { function N() { return 'T1' } } H.log('in', typeof N) } ",
		"var N = 'T1'; ",
		"{ var N = 'T1'; H.log('in', typeof N) } ",
		"for (var N of ['T1']) H.log('in', typeof N); ",
		"{ function N() { return 'T1' } function M() { return N } H.log('in', typeof M()) } ",
		"switch (1) { case 1: function N() { return 'T1' } H.log('in', typeof N) } ",
	}
	for _, o := range owners {
		for _, in := range inner {
			for _, n := range []string{"e", "a"} {
				// hoisting a var/function through a same-named let/const/for-let binding is an early error: V8 decides
				body := "H.log('before', typeof N, String(N).slice(0, 12)); " + in + "H.log('after', typeof N, String(N).slice(0, 12)); late.push(() => H.log('late', typeof N)); "
				p := "var late = []; " + o.open + body + o.close + "H.log('outer', typeof N); late.forEach(f => f()); return 'end';"
				progs = append(progs, strings.ReplaceAll(p, "N", n))
			}
		}
	}
	return xseg{"scope-owned binding x same-named hoistable declaration", uint64(len(progs)), func(i uint64) xcase {
		return xcase{code: "globalThis.__f = function(H) {\n" + progs[i] + "\n};", label: "catch-annexb"}
	}}
}

func c15Space(tier string) xseg {
	var specs []c15Spec
	nk := len(c15ScopeKinds)
	nd := len(c15DeclKinds)
	for k1 := 0; k1 < nk; k1++ {
		for k2 := 0; k2 < nk; k2++ {
			for d0 := 0; d0 < nd; d0++ {
				for d1 := 0; d1 < nd; d1++ {
					for d2 := 0; d2 < nd; d2++ {
						// names: the interesting interactions are same-name vs different-name
						idx := len(specs)
						for v := 0; v < 3; v++ {
							if tier == "quick" && (k1*7+k2*5+d0*3+d1*2+d2+v)%11 != 0 {
								continue
							}
							if tier != "quick" && (k1+k2+d0+d1+d2+v)%2 != 0 {
								continue
							}
							s := c15Spec{k1: k1, k2: k2, d0: d0, d1: d1, d2: d2}
							switch v {
							case 0: // all the same name, bindings use the same name too
								s.n0, s.n1, s.n2, s.b1, s.b2 = 0, 0, 0, 1, 1
							case 1: // inner shadows with a name the minifier likes, bindings differ
								s.n0, s.n1, s.n2, s.b1, s.b2 = 2, 0, 1, 2, 3
							case 2:
								s.n0, s.n1, s.n2, s.b1, s.b2 = 3, 2, 3, 0, 4
							}
							specs = append(specs, s)
						}
						_ = idx
					}
				}
			}
		}
	}
	return xseg{"scope-trees(depth 3)", uint64(len(specs)), func(i uint64) xcase {
		return xcase{code: "globalThis.__f = function(H) {\n" + c15Render(specs[i]) + "\n};", label: "scopes"}
	}}
}

var c15Cfgs = []xcfg{
	{"ids", api.TransformOptions{MinifyIdentifiers: true}},
	{"all", api.TransformOptions{MinifyIdentifiers: true, MinifySyntax: true, MinifyWhitespace: true}},
	{"ids+keepnames", api.TransformOptions{MinifyIdentifiers: true, KeepNames: true}},
	{"iife+ids", api.TransformOptions{MinifyIdentifiers: true, Format: api.FormatIIFE}},
	{"plain", api.TransformOptions{}},
	{"iife+syntax", api.TransformOptions{Format: api.FormatIIFE, MinifySyntax: true}},
	{"es2015+ids", api.TransformOptions{MinifyIdentifiers: true, Target: api.ES2015}},
}

// ---- multi-file: identical top-level names in several modules, free globals of the same names
func c15Module(id string, imports string, extra string) string {
	return imports + fmt.Sprintf(`
const a = '%[1]s.a'; let e = '%[1]s.e'; var x = '%[1]s.x'; function n2() { return '%[1]s.n2' } class i { static tag = '%[1]s.i' }
function inner(a2) { let e = '%[1]s.inner.e'; return [a, e, x, n2(), i.tag, typeof t !== 'undefined' ? t : 'undef', typeof n !== 'undefined' ? n : 'undef', typeof r !== 'undefined' ? r : 'undef', a2]; }
log('%[1]s top', a, e, x, n2(), i.tag, typeof t !== 'undefined' ? t : 'undef', typeof s !== 'undefined' ? s : 'undef', typeof o !== 'undefined' ? o : 'undef');
log('%[1]s inner', ...inner('%[1]s.arg'));
%[2]s
export { a, e as e_%[1]s, inner as inner_%[1]s };
export default function() { return [a, e, x] }
`, id, extra)
}

func c15MultiFile(c *Check, pool *NodePool) {
	root := scratchRoot("c15")
	defer os.RemoveAll(root)
	type mf struct {
		name  string
		files map[string]string
	}
	cases := []mf{
		{"three-modules-same-names", map[string]string{
			"g.mjs": "globalThis.t = 'G:t'; globalThis.n = 'G:n'; globalThis.r = 'G:r'; globalThis.s = 'G:s'; globalThis.o = 'G:o';\n",
			"a.mjs": c15Module("A", "import './g.mjs'; import {a as ba, e_B, inner_B} from './b.mjs'; import cdef, * as cns from './c.mjs';", "log('A sees', ba, e_B, inner_B('A.call')[0], cdef()[0], cns.a, cns.e_C);"),
			"b.mjs": c15Module("B", "import './g.mjs'; import {a as ca} from './c.mjs';", "log('B sees', ca);"),
			"c.mjs": c15Module("C", "import './g.mjs';", ""),
		}},
		{"cjs-and-esm-same-names", map[string]string{
			"g.mjs": "globalThis.t = 'G:t'; globalThis.n = 'G:n'; globalThis.r = 'G:r'; globalThis.s = 'G:s'; globalThis.o = 'G:o';\n",
			"a.mjs": c15Module("A", "import './g.mjs'; import b from './b.cjs';", "log('A sees', b.a, b.e(), b.x);"),
			"b.cjs": "const a = 'B.a'; function e() { return 'B.e' } var x = 'B.x'; let t2 = typeof t !== 'undefined' ? t : 'undef'; log('B top', a, e(), x, t2, typeof require, typeof module, typeof exports); module.exports = {a, e, x};\n",
		}},
	}
	// direct eval pins the names of the scope it is in; in a bundle the top-level names are still renamed, so every
	// pinned name of every scope with a direct eval (not only the first such sibling) must be avoided
	pinned := "let a = 'P.a', e = 'P.e', t = 'P.t', n = 'P.n', r = 'P.r', o = 'P.o', s = 'P.s', i = 'P.i', l = 'P.l', c = 'P.c', u = 'P.u', d = 'P.d', f = 'P.f', h = 'P.h', m = 'P.m', p = 'P.p';"
	cases = append(cases, mf{"direct-eval-in-sibling-scopes", map[string]string{
		"g.mjs": "globalThis.zz = 1;\n",
		"a.mjs": "import './g.mjs'; import {a as libA, counter, bump} from './b.mjs'; import {a as libC, e as cE, t as cT} from './c.mjs';\n" +
			"function first() { let q1 = 'first.q1'; return [eval('q1'), libA, libC] }\n" +
			"function second() { " + pinned + " bump(); return [eval('a + e + t'), libA, libC, cE, cT, counter, typeof libA] }\n" +
			"function third() { { let w = 'blk1.w'; log(eval('w'), libA) } { " + strings.ReplaceAll(pinned, "P.", "B.") + " log(eval('e + n'), counter, libA, libC, cE, cT) } }\n" +
			"const fourth = () => { " + strings.ReplaceAll(pinned, "P.", "F.") + " return [eval('o + s'), counter, libA, cE] };\n" +
			"log('A', ...first(), ...second(), ...fourth()); third();\nexport {first, second};\n",
		"b.mjs": "export const a = 'lib.a'; export let counter = 100; export function bump() { counter++ } const e = 'b.e', t = 'b.t', n = 'b.n', r = 'b.r'; log('B', a, e, t, n, r, counter, a, e, t, n, r);\n",
		"c.mjs": "export const a = 'c.a', e = 'c.e', t = 'c.t'; const o = 'c.o', s = 'c.s', i = 'c.i'; log('C', a, e, t, o, s, i, a, e, t, o, s, i);\n",
	}})
	// names esbuild generates for its own top-level temporaries (`export_<alias>` copies of re-exported CommonJS
	// bindings, `import_<file>`, `require_<file>`, `<file>_default`, `<file>_exports`) used by the program itself
	cases = append(cases, mf{"user-symbols-named-like-generated-temporaries", map[string]string{
		"a.mjs": "export {foo} from './b.cjs'; import * as b_exports from './c.mjs'; import cdef from './c.mjs';\n" +
			"var export_foo = 'A.export_foo', import_b = 'A.import_b', require_b = 'A.require_b', c_default = 'A.c_default', c_exports = 'A.c_exports', init_c = 'A.init_c';\n" +
			"log('A', export_foo, import_b, require_b, c_default, c_exports, init_c, b_exports.x, cdef);\n" +
			"__pending.push(Promise.resolve().then(() => log('A later', export_foo, import_b, require_b, c_default, c_exports, init_c, b_exports.x, cdef)));\n",
		"b.cjs": "exports.foo = 'B.foo'; log('B');\n",
		"c.mjs": "export const x = 'C.x'; export default 'C.default'; log('C');\n",
	}})
	cfgs := []c02Cfg{{"esm", api.FormatESModule, api.PlatformNode, false}, {"esm-min", api.FormatESModule, api.PlatformNode, true}, {"cjs-min", api.FormatCommonJS, api.PlatformNode, true}, {"iife-min", api.FormatIIFE, api.PlatformNode, true}, {"iife", api.FormatIIFE, api.PlatformBrowser, false}}
	for ci, cs := range cases {
		dir := filepath.Join(root, fmt.Sprintf("m%d", ci))
		writeTree(dir, cs.files)
		g := &ggraph{mods: []gmod{{"a", true, "exports", false}}}
		gcases := []graphCase{{Files: cs.files, Entry: "a.mjs", How: "import"}}
		var names []string
		for _, cfg := range cfgs {
			for _, keep := range []bool{false, true} {
				gc, errText := c02BundleCase(dir, g, cfg, func(o *api.BuildOptions) { o.KeepNames = keep })
				if gc == nil {
					c.Violation("c15-multifile-build:"+cs.name, map[string]interface{}{"kind": "bundle failed", "case": cs.name, "error": errText})
					continue
				}
				gcases = append(gcases, *gc)
				names = append(names, fmt.Sprintf("%s keepnames=%v", cfg.name, keep))
			}
		}
		res := nodeGraph(pool.Get(0), gcases)
		c.Eval(uint64(len(res)))
		for k := 1; k < len(res); k++ {
			c.Distinct(cs.name, names[k-1])
			if strings.Join(res[k].Log, "\n") != strings.Join(res[0].Log, "\n") || normSurface(res[k].Surface) != normSurface(res[0].Surface) || (res[0].Err == nil) != (res[k].Err == nil) {
				c.Violation("c15-multifile:"+cs.name+":"+names[k-1], map[string]interface{}{"kind": "bundled modules with identical top-level names behave differently from native loading", "case": cs.name, "config": names[k-1], "native": res[0].String(), "bundle": res[k].String(), "bundle_code": trunc(gcases[k].Files[gcases[k].Entry], 6000)})
			}
		}
	}
}

// ---- property mangling: consistency across files, positions and the returned cache
func c15MangleProps(c *Check, pool *NodePool) {
	root := scratchRoot("c15m")
	defer os.RemoveAll(root)
	files := map[string]string{
		"a.mjs": `import {make, read} from './b.mjs';
const o = make();
log('dot', o.foo_, o.bar_, o.keep, o.reserved_);
log('optional', o?.foo_, o?.nested_?.foo_);
log('in', 'foo_' in o, 'keep' in o);
const {foo_: f1, bar_: f2, keep: f3} = o;
log('destructure', f1, f2, f3);
class K { foo_ = 'K.foo'; static bar_ = 'K.bar'; get baz_() { return 'K.baz' } qux_() { return 'K.qux' } #priv_ = 1; }
const k = new K();
log('class', k.foo_, K.bar_, k.baz_, k.qux_());
log('read-from-b', read(o), read({foo_: 'literal-in-a'}));
log('quoted', o['quoted_']);
log('unmangled keys', Object.keys(o).filter(k => k === 'keep' || k === 'reserved_').sort().join());
log('seeded', o.seeded_, 'seed_out' in o);
o.foo_ = 'assigned'; o.bar_ += '!'; log('assign', o.foo_, o.bar_);
`,
		"b.mjs": `export function make() { return {foo_: 'foo', bar_: 'bar', keep: 'keep', reserved_: 'reserved', 'quoted_': 'quoted', nested_: {foo_: 'nested-foo'}, seeded_: 'seeded'}; }
export function read(o) { return o.foo_; }
`,
	}
	dir := filepath.Join(root, "p")
	writeTree(dir, files)
	type mcfg struct {
		name   string
		quoted api.MangleQuoted
		minify bool
		format api.Format
	}
	var outs []graphCase
	var names []string
	var caches []map[string]interface{}
	var codes []string
	for _, mc := range []mcfg{{"plain", api.MangleQuotedFalse, false, api.FormatESModule}, {"quoted", api.MangleQuotedTrue, false, api.FormatESModule}, {"minify", api.MangleQuotedFalse, true, api.FormatESModule}, {"quoted-minify-cjs", api.MangleQuotedTrue, true, api.FormatCommonJS}} {
		r := api.Build(api.BuildOptions{EntryPoints: []string{filepath.Join(dir, "a.mjs")}, Bundle: true, Write: false, Format: mc.format, Platform: api.PlatformNode, LogLevel: api.LogLevelSilent, Outdir: filepath.Join(dir, "out"),
			MangleProps: "_$", ReserveProps: "^reserved_$", MangleQuoted: mc.quoted, MangleCache: map[string]interface{}{"seeded_": "seed_out", "never_": false}, MinifyIdentifiers: mc.minify, MinifySyntax: mc.minify, Engines: []api.Engine{{Name: api.EngineNode, Version: "20.20.2"}}})
		c.Eval(1)
		if len(r.Errors) > 0 {
			c.Violation("c15-mangle-build:"+mc.name, map[string]interface{}{"kind": "mangle-props bundle failed", "errors": jsonStr(r.Errors)})
			continue
		}
		code := string(r.OutputFiles[0].Contents)
		how, file := "import", "bundle.mjs"
		if mc.format == api.FormatCommonJS {
			how, file = "require", "bundle.cjs"
		}
		outs = append(outs, graphCase{Files: map[string]string{file: code}, Entry: file, How: how})
		names = append(names, mc.name)
		caches = append(caches, r.MangleCache)
		codes = append(codes, code)
	}
	native := nodeGraph(pool.Get(0), []graphCase{{Files: files, Entry: "a.mjs", How: "import"}})[0]
	res := nodeGraph(pool.Get(0), outs)
	for k, r := range res {
		c.Distinct("mangle", names[k])
		want := strings.Join(native.Log, "\n")
		// two lines legitimately differ from the unmangled run: `'foo_' in o` (a string, mangled only with mangle-quoted) and the seeded/computed probes
		got := strings.Join(r.Log, "\n")
		wantLines, gotLines := strings.Split(want, "\n"), strings.Split(got, "\n")
		for i := range wantLines {
			if i >= len(gotLines) {
				break
			}
			w, g := wantLines[i], gotLines[i]
			if strings.HasPrefix(w, "\"in\"") || strings.HasPrefix(w, "\"seeded\"") || strings.HasPrefix(w, "\"computed-no-mangle\"") || strings.HasPrefix(w, "\"quoted\"") {
				continue
			}
			if w != g {
				c.Violation("c15-mangle:"+names[k]+":"+w, map[string]interface{}{"kind": "mangled property names are not consistent (value flow broken)", "config": names[k], "expected": w, "observed": g, "code": trunc(codes[k], 5000)})
			}
		}
		if r.Err != nil {
			c.Violation("c15-mangle-run:"+names[k], map[string]interface{}{"kind": "mangle-props bundle throws", "config": names[k], "error": *r.Err})
		}
		// returned cache: function, consistent with the output text, seeded entries honoured
		cache := caches[k]
		seen := map[string]string{}
		var ks []string
		for kk := range cache {
			ks = append(ks, kk)
		}
		sort.Strings(ks)
		for _, orig := range ks {
			v := cache[orig]
			s, ok := v.(string)
			if !ok {
				continue
			}
			if prev, dup := seen[s]; dup {
				c.Violation("c15-mangle-cache-collision:"+names[k], map[string]interface{}{"kind": "two properties mangled to the same name", "config": names[k], "a": prev, "b": orig, "name": s})
			}
			seen[s] = orig
			if strings.Contains(codes[k], "."+orig) && orig != "quoted_" {
				c.Violation("c15-mangle-left:"+names[k]+":"+orig, map[string]interface{}{"kind": "a property listed in the mangle cache still appears unmangled in the output", "config": names[k], "property": orig, "code": trunc(codes[k], 4000)})
			}
		}
		if cache["seeded_"] != "seed_out" || cache["never_"] != false {
			c.Violation("c15-mangle-seed:"+names[k], map[string]interface{}{"kind": "pre-seeded mangle cache entries not honoured", "config": names[k], "cache": fmt.Sprint(cache)})
		}
		if _, ok := cache["reserved_"]; ok || strings.Contains(fmt.Sprint(cache["keep"]), "") && cache["keep"] != nil {
			c.Violation("c15-mangle-reserved:"+names[k], map[string]interface{}{"kind": "reserved or non-matching property appears in the mangle cache", "config": names[k], "cache": fmt.Sprint(cache)})
		}
		if !strings.Contains(codes[k], "reserved_") || !strings.Contains(codes[k], "keep") {
			c.Violation("c15-mangle-reserved-out:"+names[k], map[string]interface{}{"kind": "reserved / non-matching property was renamed", "config": names[k]})
		}
	}
}

func runC15(c *Check) {
	c.Rule = "scope trees of depth 3 (17 scope kinds incl. catch, for-let, named function/class expression self-binding, parameter-default scope, class static block, label, direct eval, with) x 9 declaration kinds per scope (var/let/const/function/class/destructuring/function-in-nested-block) x name assignments drawn from a pool that collides with minifier-generated names and with free globals of the same names; every reference site logs the value it sees, a closure created in the innermost scope is called at the end; input vs output under 7 configurations (minify-identifiers, all, keep-names, iife, target es2015) executed in V8; multi-file bundles with identical top-level names vs native loading; mangle-props consistency across files/positions/cache; distinct = distinct outputs; cross-chunk aliases: 4 shared modules x all 256 assignments of colliding names under code splitting; program symbols named like generated temporaries"
	c.Assump = []string{"binding identity is decided by execution: every declaration carries a unique tag and all code is executed", "function/class .name is not observed without keep-names; TDZ is not observed"}
	pool := NewNodePool("")
	defer pool.Close()
	calls := []interface{}{[]interface{}{}}
	x := &xrunner{c: c, cfgs: c15Cfgs, pool: pool, calls: calls, noNames: true, fresh: true, prelude: c15Prelude, skipCfg: func(cs xcase, cfg string) bool {
		// minify-syntax inlines constants across `with` scopes (documented C03 exclusion: no with/direct eval under syntax minification)
		return (cfg == "all" || cfg == "iife+syntax") && (strings.Contains(cs.code, "with (") || strings.Contains(cs.code, "eval("))
	}}
	// Annex B.3.3 deviations of the unchanged tree (recorded finding): a block-level function named like a binding
	// owned by an enclosing scope (parameter, catch parameter, let/for-let) is hoisted over that binding. This only
	// concerns references *after* the nested block; a case is mapped onto the finding only if the reference before
	// the block still sees exactly what it saw natively.
	x.classify2 = func(exp, got, input string) []string {
		if !strings.Contains(input, "H.log('before'") {
			return nil
		}
		first := func(s string) string {
			if i := strings.Index(s, "),"); i >= 0 {
				return s[:i]
			}
			return s
		}
		if first(exp) == first(got) && strings.HasPrefix(exp, "log(\"before\"") {
			return []string{"annexb-block-function-named-like-enclosing-scope-binding-is-hoisted-over-it"}
		}
		return nil
	}
	x.runSpace(&xspace{segs: []xseg{c15Space(c.Tier), c15CatchSpace()}})
	x.classify2 = nil
	// known-finding probes (excluded from the generated space by construction)
	x.runBatch(0, []xcase{
		{code: "globalThis.__f = function(H) {\nfunction x() { return 1 } with ({e: 'W'}) { for (let x = 2, once = 0; once < 1; once++) { var e = 'T'; H.log(e, x) } } H.log(typeof e, typeof x, typeof a, typeof n2); return 'end';\n};"},
		{code: "globalThis.__f = function(H) {\nreturn (function(n2) { { function n2() { return 'F' } } return n2 })('P');\n};"},
		{code: "globalThis.__f = function(H) {\nwith ({x: 1}) { function g() { return 2 } } return typeof g;\n};"},
		{code: "globalThis.__f = function(H) {\nvar r; (class e { static { H.log(typeof e); r = (function() { return eval('typeof e') })() } }); return r;\n};"},
		{code: "globalThis.__f = function(H) {\nfunction f(obj) { with (obj) var foo = 2; return [obj.foo, foo] } return f({foo: 1});\n};"},
		{code: "globalThis.__f = function(H) {\nfunction g() { { var arguments } return arguments.length } return g(1, 2);\n};"},
	}, "known-probes")
	c15MultiFile(c, pool)
	c15CrossChunkNames(c, pool)
	c15WrappedExternalImports(c, pool)
	c15MangleProps(c, pool)
}

func init() { register("C15", "exploration", runC15) }
