package main

// C12 environments that understand less than Chrome 147: "the browser does not know :has()" (or :is(), :where(),
// :not() with a list, :nth-child()) is simulated by renaming that functional pseudo-class to an unknown one in BOTH
// the input sheet and esbuild's output before Chrome computes styles; Chrome then drops every rule whose selector list
// contains it, exactly like the older browser would. Per element and property the output's value in that environment
// must equal the input's value in that environment or in the environment that understands everything (the
// statement's "or in an environment that understands more of the input's syntax"), so a rule that the old browser
// could apply must not be merged into a selector list that it drops.

import (
	"strconv"
	"strings"

	"github.com/evanw/esbuild/pkg/api"
)

var c12EnvFeatures = []struct{ name, token string }{
	{"has", ":has("}, {"is", ":is("}, {"where", ":where("}, {"not", ":not("}, {"nth-child", ":nth-child("}, {"nth-last-child", ":nth-last-child("},
}

func c12Environments(c *Check, pool *NodePool) {
	sels := []string{".a", ".b", "p", "span.c", ".a:has(.b)", ".a:not(.b)", "p:is(.c)", ".a:where(.b)", "li:nth-child(2n+1)", "li:nth-last-child(1)", ".a:hover", "div > .b", "p:not(.a):is(p)", "div:has(p)"}
	bodies := []string{"color: red", "color: red; margin: 1px 2px"}
	var sheets []string
	for _, s1 := range sels {
		for _, s2 := range sels {
			for bi, b := range bodies {
				sheets = append(sheets, ".a, p, li, div { color: blue; margin: 9px } "+s1+" { "+b+" } "+s2+" { "+b+" }")
				if bi == 0 {
					sheets = append(sheets, s1+" { "+b+" } /* c */ "+s2+" { "+b+" } "+s1+" { margin: 3px }")
					sheets = append(sheets, "@media screen { "+s1+" { "+b+" } "+s2+" { "+b+" } }")
				}
			}
		}
	}
	rename := func(css, tok string) string {
		return strings.ReplaceAll(css, tok, ":-verif-unknown-"+strings.Trim(tok, ":(")+"(")
	}
	const B = 8
	nb := (len(sheets) + B - 1) / B
	c.ForEach(uint64(nb), func(w int, bi uint64) {
		type meta struct{ cfg, feature, in, out string }
		var cases [][]string
		var metas []meta
		for i := int(bi) * B; i < (int(bi)+1)*B && i < len(sheets); i++ {
			css := sheets[i]
			c.Eval(1)
			for _, cfg := range c12Cfgs {
				o := cfg.opts
				o.LogLevel = api.LogLevelSilent
				r := api.Transform(css, o)
				if len(r.Errors) > 0 {
					continue
				}
				out := string(r.Code)
				c.Distinct(out)
				for _, f := range c12EnvFeatures {
					if !strings.Contains(css, f.token) {
						continue
					}
					cases = append(cases, []string{rename(css, f.token), rename(out, f.token), css})
					metas = append(metas, meta{cfg.name, f.name, css, out})
				}
			}
		}
		if len(cases) == 0 {
			return
		}
		res := chromeStyles(pool.Get(w%4+1), cases)
		for ci, obs := range res {
			c.Sub("environment_comparisons", 1)
			if obs[1] == "=" || obs[0] == "=" {
				continue // identical to the input in that environment
			}
			full := obs[2]
			if full == "=" {
				full = obs[0]
			}
			lo, li, lf := strings.Split(obs[1], "\n"), strings.Split(obs[0], "\n"), strings.Split(full, "\n")
			var diffs []string
			for r := range lo {
				if r >= len(li) || r >= len(lf) || lo[r] == li[r] {
					continue
				}
				po, pi, pf := strings.Split(lo[r], "|"), strings.Split(li[r], "|"), strings.Split(lf[r], "|")
				for k := range po {
					if k < len(pi) && k < len(pf) && !c12ValueEq(po[k], pi[k]) && !c12ValueEq(po[k], pf[k]) {
						diffs = append(diffs, strings.SplitN(po[0], ":", 2)[0]+" cell "+itoa(k)+": output="+po[k]+" input(env)="+pi[k]+" input(all)="+pf[k])
					}
				}
			}
			if len(diffs) > 0 {
				if len(diffs) > 6 {
					diffs = diffs[:6]
				}
				m := metas[ci]
				c.Violation("css-env:"+m.feature+":"+m.cfg+":"+m.in, map[string]interface{}{"kind": "in a browser that does not understand a selector syntax the output renders differently from the input (in that browser and in one that understands everything)",
					"unknown_syntax": m.feature, "config": m.cfg, "input": m.in, "output": m.out, "diff": diffs})
			}
		}
	})
}

func itoa(i int) string { return strconv.Itoa(i) }
