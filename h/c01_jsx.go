package main

import (
	"encoding/json"
	"fmt"
	"regexp"
	"strings"

	"github.com/evanw/esbuild/pkg/api"
)

// C01, JSX sub-space. Every element over 5 tag forms x <=2 attributes (13 forms) x <=2 children (15 forms; not both
// pairs at once). Oracles:
//   - transform mode (classic factory h / fragment F) against a reference translation generated from the same abstract
//     description (JSX text cleaning and entity decoding implemented here independently, following the algorithm
//     React's tooling uses: split lines, trim inner line ends, drop blank lines, join with one space, then entities);
//   - preserve mode by round trip: transform(preserve(x)) must behave like transform(x), under white-space
//     minification, ASCII charset and a line limit (this is what exercises the JSX printer);
//   - automatic mode against the same reference through a jsx/jsxs runtime that normalises to h's shape.

type jsxPiece struct {
	jsx  string
	ref  string // reference JS: for attributes a property (or spread) of the props literal, for children an argument ("" = none)
	text bool   // child is JSX text (adjacent text children form one text node)
}

var jsxAttrs = []jsxPiece{
	{`x="s"`, `x: "s"`, false},
	{`x='q"uo'`, `x: "q\"uo"`, false},
	{`x={$E}`, `x: $E`, false},
	{`{...$E}`, `...$E`, false},
	{`x`, `x: true`, false},
	{`x-y="1"`, `"x-y": "1"`, false},
	{`ns:x="1"`, `"ns:x": "1"`, false},
	{`x=<b/>`, `x: h("b", null)`, false},
	{`key="k"`, `key: "k"`, false},
	{`x="&amp;&#65;&lt;"`, `x: "&A<"`, false},
	{"x=\"é\U0001F600\"", `x: "é\u{1F600}"`, false},
	{`y={$E}`, `y: $E`, false},
	{`x="a\b"`, `x: "a\\b"`, false},
}

var jsxChildren = []jsxPiece{
	{`text`, ``, true},
	{` lead and trail `, ``, true},
	{"\n  multi\n  line  \n", ``, true},
	{"a\n\n  b", ``, true},
	{`&lt;&amp;&#x41;&nbsp;&copy;`, ``, true},
	{`&unknown; & alone`, ``, true},
	{`{$E}`, `$E`, false},
	{`{}`, ``, false},
	{`{/* c */}`, ``, false},
	{`<b/>`, `h("b", null)`, false},
	{`<b>t</b>`, `h("b", null, "t")`, false},
	{"é\U0001F600", ``, true},
	{`{"str"}`, `"str"`, false},
	{`'quotes"`, ``, true},
	{"\n   ", ``, true},
}

var jsxTags = []struct{ jsx, ref string }{{"div", `"div"`}, {"A", "A"}, {"NS.C", "NS.C"}, {"svg:rect", `"svg:rect"`}, {"", "F"}}

var jsxEntityRe = regexp.MustCompile(`&(#x[0-9a-fA-F]+|#[0-9]+|[a-zA-Z]+);`)

// jsxCleanText: the JSX text semantics (independent of esbuild's implementation)
func jsxCleanText(raw string) (string, bool) {
	lines := regexp.MustCompile(`\r\n|\n|\r`).Split(raw, -1)
	lastNonEmpty := -1
	for i, l := range lines {
		if strings.Trim(l, " \t") != "" {
			lastNonEmpty = i
		}
	}
	var sb strings.Builder
	for i, l := range lines {
		t := strings.ReplaceAll(l, "\t", " ")
		if i != 0 {
			t = strings.TrimLeft(t, " ")
		}
		if i != len(lines)-1 {
			t = strings.TrimRight(t, " ")
		}
		if t != "" {
			if i != lastNonEmpty {
				t += " "
			}
			sb.WriteString(t)
		}
	}
	s := sb.String()
	if s == "" {
		return "", false
	}
	ents := map[string]string{"lt": "<", "gt": ">", "amp": "&", "nbsp": " ", "copy": "©", "quot": "\"", "apos": "'"}
	s = jsxEntityRe.ReplaceAllStringFunc(s, func(e string) string {
		n := e[1 : len(e)-1]
		if strings.HasPrefix(n, "#x") {
			var v int
			fmt.Sscanf(n[2:], "%x", &v)
			return string(rune(v))
		}
		if strings.HasPrefix(n, "#") {
			var v int
			fmt.Sscanf(n[1:], "%d", &v)
			return string(rune(v))
		}
		if r, ok := ents[n]; ok {
			return r
		}
		return e
	})
	return s, true
}

func jsStr(s string) string {
	b, _ := json.Marshal(s)
	r := string(b)
	r = strings.ReplaceAll(r, " ", ` `)
	return strings.ReplaceAll(r, " ", ` `)
}

type jsxCase struct {
	code, ref string
}

func jsxBuild(tag int, attrs, kids []int) jsxCase {
	probe := 0
	e := func(s string) string {
		for strings.Contains(s, "$E") {
			probe++
			s = strings.Replace(s, "$E", fmt.Sprintf("(H.p(%d, a))", probe), 1)
		}
		return s
	}
	t := jsxTags[tag]
	var ja, ra []string
	for _, a := range attrs {
		ja = append(ja, e(jsxAttrs[a].jsx))
	}
	probe = 0
	for _, a := range attrs {
		ra = append(ra, e(jsxAttrs[a].ref))
	}
	pa := probe
	var jk strings.Builder
	probe = pa
	for _, k := range kids {
		jk.WriteString(e(jsxChildren[k].jsx))
	}
	probe = pa
	var rk []string
	raw := ""
	flush := func() {
		if raw != "" {
			if s, ok := jsxCleanText(raw); ok {
				rk = append(rk, jsStr(s))
			}
			raw = ""
		}
	}
	for _, k := range kids {
		c := jsxChildren[k]
		if c.text {
			raw += c.jsx
			continue
		}
		flush()
		if c.ref != "" {
			rk = append(rk, e(c.ref))
		}
	}
	flush()
	var code string
	attrText := ""
	if len(ja) > 0 {
		attrText = " " + strings.Join(ja, " ")
	}
	if t.jsx == "" {
		code = "<>" + jk.String() + "</>"
	} else if len(kids) == 0 {
		code = "<" + t.jsx + attrText + " />"
	} else {
		code = "<" + t.jsx + attrText + ">" + jk.String() + "</" + t.jsx + ">"
	}
	props := "null"
	if len(ra) > 0 {
		props = "{" + strings.Join(ra, ", ") + "}"
	}
	ref := "h(" + t.ref + ", " + props
	for _, k := range rk {
		ref += ", " + k
	}
	ref += ")"
	return jsxCase{xProgram("return "+code+";", ""), xProgram("return "+ref+";", "")}
}

const jsxPrelude = `
globalThis.F = 'FRAG';
globalThis.A = function A() {};
globalThis.NS = {C: function C() {}};
(function() {
  var norm = function(t) { return typeof t === 'function' ? 'fn:' + t.name : t };
  globalThis.h = function(t, p) { var c = Array.prototype.slice.call(arguments, 2); var P = p == null ? {} : Object.assign({}, p); if ('key' in P) { var k = P.key; delete P.key; P.key = k } return {T: norm(t), P: P, C: c} };
  var mk = function(multi) { return function(t, props, key) {
    var P = Object.assign({}, props), C = [];
    if ('children' in P) { C = multi ? P.children.slice() : [P.children]; delete P.children }
    if (key !== undefined) P.key = key;
    return {T: norm(t), P: P, C: C} } };
  var rt = {jsx: mk(false), jsxs: mk(true), Fragment: 'FRAG'};
  globalThis.require = function(n) { if (n === 'react/jsx-runtime') return rt; if (n === 'react') return {createElement: globalThis.h, Fragment: 'FRAG'}; throw new Error('require ' + n) };
})();
`

func c01JSX(c *Check, pool *NodePool) {
	var cases []jsxCase
	quick := c.Tier == "quick"
	na, nk := len(jsxAttrs), len(jsxChildren)
	for t := range jsxTags {
		frag := jsxTags[t].jsx == ""
		var attrSets, kidSets [][]int
		attrSets = append(attrSets, nil)
		if !frag {
			for i := 0; i < na; i++ {
				attrSets = append(attrSets, []int{i})
			}
		}
		kidSets = append(kidSets, nil)
		for i := 0; i < nk; i++ {
			kidSets = append(kidSets, []int{i})
		}
		var attrPairs, kidPairs [][]int
		if !frag {
			for i := 0; i < na; i++ {
				for j := 0; j < na; j++ {
					attrPairs = append(attrPairs, []int{i, j})
				}
			}
		}
		for i := 0; i < nk; i++ {
			for j := 0; j < nk; j++ {
				kidPairs = append(kidPairs, []int{i, j})
			}
		}
		for _, as := range attrSets {
			for _, ks := range kidSets {
				cases = append(cases, jsxBuild(t, as, ks))
			}
		}
		for pi, ap := range attrPairs {
			for ki, ks := range kidSets {
				if quick && (pi+ki+t)%3 != 0 {
					continue
				}
				cases = append(cases, jsxBuild(t, ap, ks))
			}
		}
		for pi, kp := range kidPairs {
			for ai, as := range attrSets {
				if quick && (pi+ai+t)%3 != 0 {
					continue
				}
				cases = append(cases, jsxBuild(t, as, kp))
			}
		}
		if !quick && !frag {
			// thorough: pairs x pairs on the plain tag
			if t == 0 {
				for _, ap := range attrPairs {
					for _, kp := range kidPairs {
						cases = append(cases, jsxBuild(t, ap, kp))
					}
				}
			}
		}
	}
	c.Set("jsx_cases", len(cases))
	tr := func(code string, o api.TransformOptions) (string, bool) {
		o.Loader = api.LoaderJSX
		o.LogLevel = api.LogLevelSilent
		r := api.Transform(code, o)
		if len(r.Errors) > 0 {
			return "", false
		}
		return string(r.Code), true
	}
	classic := api.TransformOptions{JSX: api.JSXTransform, JSXFactory: "h", JSXFragment: "F"}
	type variant struct {
		name string
		make func(code string) (string, bool)
	}
	pres := func(name string, po api.TransformOptions) variant {
		return variant{"preserve-" + name + "-then-transform", func(code string) (string, bool) {
			po.JSX = api.JSXPreserve
			mid, ok := tr(code, po)
			if !ok {
				return "", false
			}
			return tr(mid, classic)
		}}
	}
	variants := []variant{
		{"transform", func(code string) (string, bool) { return tr(code, classic) }},
		{"transform-minify-ws-ascii", func(code string) (string, bool) {
			o := classic
			o.MinifyWhitespace, o.Charset = true, api.CharsetASCII
			return tr(code, o)
		}},
		pres("default", api.TransformOptions{}),
		pres("minify-ws", api.TransformOptions{MinifyWhitespace: true}),
		pres("ascii", api.TransformOptions{Charset: api.CharsetASCII}),
		pres("line-limit", api.TransformOptions{LineLimit: 20, MinifyWhitespace: true}),
		pres("utf8-esm", api.TransformOptions{Charset: api.CharsetUTF8, Format: api.FormatESModule}),
		{"automatic-cjs", func(code string) (string, bool) {
			return tr(code, api.TransformOptions{JSX: api.JSXAutomatic, Format: api.FormatCommonJS})
		}},
	}
	const B = 24
	nb := (len(cases) + B - 1) / B
	c.ForEach(uint64(nb), func(w int, bi uint64) {
		var rcs []runCase
		type pend struct {
			cs    jsxCase
			names []string
			codes []string
		}
		var pends []pend
		for i := int(bi) * B; i < (int(bi)+1)*B && i < len(cases); i++ {
			cs := cases[i]
			c.Eval(1)
			p := pend{cs: cs, names: []string{"reference"}, codes: []string{cs.ref}}
			for _, v := range variants {
				out, ok := v.make(cs.code)
				if !ok {
					c.Violation("jsx-rejected:"+v.name+":"+cs.code, map[string]interface{}{"kind": "valid JSX rejected", "config": v.name, "input": cs.code})
					continue
				}
				c.Distinct(out)
				p.names = append(p.names, v.name)
				p.codes = append(p.codes, out)
			}
			pends = append(pends, p)
			rcs = append(rcs, runCase{Codes: p.codes, Calls: xCallsStd[:4], Fresh: true, Quiet: true, Prelude: jsxPrelude})
		}
		res := nodeRun(pool.Get(w), rcs)
		for i, p := range pends {
			obs := res[i]
			if strings.HasPrefix(obs[0], "eval-throw:SyntaxError") {
				fatalf("jsx reference program is invalid: %s", p.cs.ref)
			}
			c.Sub("jsx_executed", 1)
			for k := 1; k < len(obs); k++ {
				if obs[k] != obs[0] {
					c.Violation("jsx:"+p.names[k]+":"+p.cs.code, map[string]interface{}{"kind": "JSX behaviour differs from the reference translation", "config": p.names[k], "input": p.cs.code, "reference": p.cs.ref, "output": p.codes[k], "expected_obs": obs[0], "observed_obs": obs[k]})
				}
			}
		}
	})
}
