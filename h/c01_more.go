package main

// C01 part 2: literal round trips (strings, templates, keys, numbers, bigints, regexps, identifiers),
// statement skeletons / ASI hazards, JSX.

import (
	"fmt"
	"math"
	"strconv"
	"strings"
	"unicode/utf8"

	"github.com/evanw/esbuild/pkg/api"
)

// ---- strings -------------------------------------------------------------------------------

// class representatives for words over UTF-16 code units
var c01Units = []uint16{'\'', '"', '`', '\\', '$', '{', '<', '/', 's', 'c', 'r', 'i', 'p', 't', '\r', '\n', 0x2028, 0x2029, 0, '1',
	0xD83D, 0xDE00, 0xFEFF, 0x7F, 0x85, 0xE9, '}', '!', '-', '>', 'u', 'x', '8'}

func isHigh(u uint16) bool { return u >= 0xD800 && u <= 0xDBFF }
func isLow(u uint16) bool  { return u >= 0xDC00 && u <= 0xDFFF }

// srcString renders code units as the body of a literal with the given quote (one of ' " `).
// mode 0: raw where legal; mode 1: everything as \uXXXX; mode 2: short escapes (\0, \xNN, \n ...)
func srcString(units []uint16, quote byte, mode int) string {
	var b strings.Builder
	for i := 0; i < len(units); i++ {
		u := units[i]
		esc := func() { fmt.Fprintf(&b, "\\u%04X", u) }
		if mode == 1 {
			esc()
			continue
		}
		if mode == 2 {
			switch {
			case u == 0:
				if i+1 < len(units) && units[i+1] >= '0' && units[i+1] <= '9' {
					b.WriteString("\\x00")
				} else {
					b.WriteString("\\0")
				}
				continue
			case u == '\n':
				b.WriteString("\\n")
				continue
			case u == '\r':
				b.WriteString("\\r")
				continue
			case u < 0x100 && (u < 0x20 || u >= 0x7F):
				fmt.Fprintf(&b, "\\x%02x", u)
				continue
			case u == 0x2028 || u == 0x2029:
				esc()
				continue
			}
		}
		switch {
		case u == uint16(quote) || u == '\\':
			b.WriteByte('\\')
			b.WriteByte(byte(u))
		case quote == '`' && u == '$' && i+1 < len(units) && units[i+1] == '{':
			b.WriteString("\\$")
		case u == '\r':
			b.WriteString("\\r")
		case u == '\n' && quote != '`':
			b.WriteString("\\n")
		case isHigh(u) && i+1 < len(units) && isLow(units[i+1]):
			r := rune(0x10000 + (int(u)-0xD800)<<10 + (int(units[i+1]) - 0xDC00))
			b.WriteRune(r)
			i++
		case isHigh(u) || isLow(u):
			esc()
		default:
			b.WriteRune(rune(u))
		}
	}
	return b.String()
}

func unitsWord(idx uint64, n int, alpha []uint16) []uint16 {
	w := make([]uint16, n)
	A := uint64(len(alpha))
	for k := n - 1; k >= 0; k-- {
		w[k] = alpha[idx%A]
		idx /= A
	}
	return w
}

var c01LitCfgs = []xcfg{
	{"default", api.TransformOptions{}},
	{"ascii", api.TransformOptions{Charset: api.CharsetASCII}},
	{"ws-utf8", api.TransformOptions{MinifyWhitespace: true, Charset: api.CharsetUTF8}},
	{"ascii-ws-ll40", api.TransformOptions{MinifyWhitespace: true, Charset: api.CharsetASCII, LineLimit: 40}},
	{"esm-ascii", api.TransformOptions{Format: api.FormatESModule, Charset: api.CharsetASCII}},
	{"iife-ws", api.TransformOptions{Format: api.FormatIIFE, MinifyWhitespace: true}},
}

// litFreshContexts: evaluate every code of a literal batch in its own V8 context (needed when outputs declare top-level
// helper variables such as the `_a` cache of a lowered tagged template, which would otherwise survive in the shared
// global object from one program to the next)
var litFreshContexts = false

// litBatch: a list of literal source texts evaluated as one array.
func litProgram(items []string) string {
	return "globalThis.__f = function(H) { return [\n" + strings.Join(items, ",\n") + "\n]; };"
}

func c01RunLitBatches(c *Check, pool *NodePool, name string, items []string, asciiCheck bool, perBatch int) {
	runLitBatches(c, pool, name, items, asciiCheck, perBatch, c01LitCfgs)
}

// runLitBatches: literal expressions evaluated as one array per batch, input vs every configuration's output
func runLitBatches(c *Check, pool *NodePool, name string, items []string, asciiCheck bool, perBatch int, cfgs []xcfg) {
	nb := (len(items) + perBatch - 1) / perBatch
	c.ForEach(uint64(nb), func(w int, bi uint64) {
		lo, hi := int(bi)*perBatch, (int(bi)+1)*perBatch
		if hi > len(items) {
			hi = len(items)
		}
		c01LitOne(c, pool.Get(w), name, items[lo:hi], asciiCheck, cfgs)
	})
	c.Sub("literals:"+name, uint64(len(items)))
}

func c01LitOne(c *Check, node *Node, name string, items []string, asciiCheck bool, litCfgs []xcfg) {
	prog := litProgram(items)
	codes := []string{prog}
	cfgs := []string{"input"}
	for _, cfg := range litCfgs {
		out, ok, errs := transformJS(prog, cfg.opts)
		if !ok {
			if len(items) > 1 {
				// bisect to find the rejected literal(s)
				mid := len(items) / 2
				c01LitOne(c, node, name, items[:mid], asciiCheck, litCfgs)
				c01LitOne(c, node, name, items[mid:], asciiCheck, litCfgs)
				return
			}
			// is the single literal valid for V8?
			if syntaxBatch(node, []synCase{{prog, "script"}})[0] {
				c.Violation("lit-rejected:"+items[0], map[string]interface{}{"kind": "valid-literal-rejected", "literal": items[0], "config": cfg.name, "errors": jsonStr(errs)})
			} else {
				c.Sub("generator_invalid_literal", 1)
			}
			return
		}
		if asciiCheck && cfg.opts.Charset == api.CharsetASCII {
			for i := 0; i < len(out); i++ {
				if out[i] >= 0x80 {
					if len(items) > 1 {
						mid := len(items) / 2
						c01LitOne(c, node, name, items[:mid], asciiCheck, litCfgs)
						c01LitOne(c, node, name, items[mid:], asciiCheck, litCfgs)
						return
					}
					c.Violation("non-ascii:"+items[0], map[string]interface{}{"kind": "non-ascii-byte-in-ascii-output", "literal": items[0], "config": cfg.name, "output": out})
					break
				}
			}
		}
		codes = append(codes, out)
		cfgs = append(cfgs, cfg.name)
	}
	c.Eval(uint64(len(items)))
	res := nodeRun(node, []runCase{{Codes: codes, Calls: []interface{}{[]interface{}{}}, Fresh: litFreshContexts}})[0]
	if strings.HasPrefix(res[0], "eval-throw") {
		if len(items) > 1 {
			mid := len(items) / 2
			c01LitOne(c, node, name, items[:mid], asciiCheck, litCfgs)
			c01LitOne(c, node, name, items[mid:], asciiCheck, litCfgs)
			return
		}
		c.Sub("generator_invalid_literal", 1)
		return
	}
	c.Distinct(res[0])
	for k := 1; k < len(res); k++ {
		if res[k] != res[0] {
			if len(items) > 1 {
				mid := len(items) / 2
				c01LitOne(c, node, name, items[:mid], asciiCheck, litCfgs)
				c01LitOne(c, node, name, items[mid:], asciiCheck, litCfgs)
				return
			}
			c.Violation("lit:"+cfgs[k]+":"+items[0], map[string]interface{}{"kind": "literal-value-differs", "class": name, "literal": items[0], "config": cfgs[k], "output": codes[k], "expected": res[0], "observed": res[k]})
		}
	}
}

func c01Literals(c *Check, pool *NodePool) {
	// (1) all 65536 single code units x 3 quotes x 2 modes + property keys
	var items, tagged []string
	for u := 0; u < 0x10000; u++ {
		us := []uint16{uint16(u)}
		items = append(items, "\""+srcString(us, '"', 0)+"\"", "'"+srcString(us, '\'', 1)+"'", "`"+srcString(us, '`', 0)+"`")
		if u%7 == 0 || u < 0x300 || (u >= 0x2000 && u < 0x2100) || u >= 0xD700 {
			items = append(items, "Object.keys({\""+srcString(us, '"', 0)+"\": 1})[0]")
			tagged = append(tagged, "(s => s.raw[0] + s[0])`"+srcString(us, '`', 0)+"`")
		}
	}
	c01RunLitBatches(c, pool, "single-code-units", items, true, 2048)
	// tagged templates: escaping would change .raw, so the ASCII clause does not apply (DESIGN §C01)
	c01RunLitBatches(c, pool, "single-code-units-tagged", tagged, false, 2048)

	// (2) words over class representatives
	maxLen := 3
	alpha := c01Units
	if c.Tier == "quick" {
		maxLen = 3
		alpha = c01Units[:26]
	}
	items, tagged = nil, nil
	for n := 2; n <= maxLen; n++ {
		size := uint64(1)
		for k := 0; k < n; k++ {
			size *= uint64(len(alpha))
		}
		for i := uint64(0); i < size; i++ {
			w := unitsWord(i, n, alpha)
			q := []byte{'"', '\'', '`'}[i%3]
			items = append(items, string(q)+srcString(w, q, int(i/3)%3)+string(q))
			if i%5 == 0 {
				tagged = append(tagged, "(s => s.raw[0] + s[0])`"+srcString(w, '`', 0)+"`")
			}
			if i%11 == 0 {
				items = append(items, "Object.keys({'"+srcString(w, '\'', 0)+"': 1})[0]")
			}
		}
	}
	c01RunLitBatches(c, pool, "code-unit-words", items, true, 1024)
	c01RunLitBatches(c, pool, "code-unit-words-tagged", tagged, false, 1024)

	// (3) numbers: every binary exponent x mantissa patterns x sign
	items = nil
	mant := []uint64{0, 1, 1 << 51, (1 << 52) - 1, 0x5555555555555, 0xAAAAAAAAAAAAA, 0x8000000000001, 1 << 32, (1 << 32) - 1, 0xFFFFF00000000, 0x1999999999999A & ((1 << 52) - 1), 0x3FF0000000000 & ((1 << 52) - 1)}
	for e := uint64(0); e < 2047; e++ {
		for mi, m := range mant {
			if c.Tier == "quick" && mi >= 6 && e%4 != 0 {
				continue
			}
			f := math.Float64frombits(e<<52 | m)
			s := strconv.FormatFloat(f, 'g', -1, 64)
			items = append(items, s)
			if mi%3 == 0 {
				items = append(items, "-"+s, "2 ** -"+s, "("+s+").constructor", "x => x - -"+s)
			}
		}
	}
	forms := []string{"0", "-0", "0.0", ".5", "5.", "5.e1", "0.5e+1", "5E-1", "1e21", "1e-7", "123456789012345680000", "1.2345678901234567e+30", "0x10", "0XfF", "0o17", "0O7", "0b101", "0B1",
		"017", "08", "09.5", "1_000", "1_0.0_1", "0x1_F", "0b1_0", "1e1_0", "1n", "0n", "0x10n", "0o7n", "0b1n", "1_000n", "123456789012345678901234567890n", "-1n", "2147483647", "2147483648",
		"4294967295", "4294967296", "9007199254740991", "9007199254740992", "9007199254740993", "1e308", "1.7976931348623157e308", "2e308", "5e-324", "2e-324", "1e-400", "0.1", "0.30000000000000004",
		"1.0000000000000002", "999999999999999900000", "1e21 .x", "1..constructor", "1 .constructor", "1.5.constructor", "1e3.constructor", "0x10.constructor", "1n.constructor", "(1).constructor",
		"(-1).constructor", "(-1) ** 2", "(- -1)", "- -1", "+ +1", "- +1", "1 - -1", "1 + +1", "1 - - -1", "(-1n) ** 2n", "2 ** -1", "(-(1)) ** 2", "-(1 ** 2)", "(-0) ** 2", "1 / -0", "1 / (-0)", "-(0)", "+0", "-0.0",
		"1e21 + 1", "0.1 + 0.2", "010", "0.5.toFixed(1)", "5..toFixed(1)", "5 .toFixed(1)", "1e2.toFixed(1)", "1_0.0.toFixed(1)", "100..toFixed", "0x64.toFixed", "1e21.toFixed", "1000000 .toFixed", "1000000..toFixed", "1e100.toFixed", "1e-7.toFixed"}
	items = append(items, forms...)
	// integers around powers of ten and two
	for p := 0; p < 64; p++ {
		for _, d := range []int64{-1, 0, 1} {
			v := int64(1)<<uint(p) + d
			if v > 0 {
				items = append(items, strconv.FormatInt(v, 10), "0x"+strconv.FormatInt(v, 16), strconv.FormatInt(v, 10)+"n", strconv.FormatInt(v, 10)+".x", strconv.FormatInt(v, 10)+" .x", "-"+strconv.FormatInt(v, 10)+" ** 1 || 0 "[0:0])
			}
		}
	}
	for p := 0; p < 23; p++ {
		s := "1" + strings.Repeat("0", p)
		items = append(items, s, s+"1", s+".5", "0."+strings.Repeat("0", p)+"1", s+".toFixed", s+"e-"+strconv.Itoa(p), "9"+strings.Repeat("9", p))
	}
	var clean []string
	for _, it := range items {
		if it != "" && !strings.HasSuffix(it, " ") {
			clean = append(clean, it)
		}
	}
	c01RunLitBatches(c, pool, "numbers", clean, true, 512)

	// (4) regular expressions: bodies of length <= 3 over atoms x flags; V8 decides validity.
	atoms := []string{"a", ".", "\\/", "[/]", "[^/]", "\\\\", "(?:x)", "$", "^", "*", "+?", "{1,2}", "|", "[", "]", "(", ")", "\\u{1F600}", "é", "\U0001F600", "\\d", "\\1", "(?<n>x)", "\\k<n>", "[a-z]", "\\u2028", " ", "\\n", "-", "\\p{L}", "(?=x)", "(?<!x)", "/"}
	flagsets := []string{"", "g", "i", "u", "v", "gimsuyd", "s", "y", "d", "gi"}
	if c.Tier == "quick" {
		atoms = atoms[:22]
		flagsets = flagsets[:6]
	}
	items = nil
	for n := 1; n <= 3; n++ {
		size := 1
		for k := 0; k < n; k++ {
			size *= len(atoms)
		}
		for i := 0; i < size; i++ {
			j := i
			body := ""
			for k := 0; k < n; k++ {
				body = atoms[j%len(atoms)] + body
				j /= len(atoms)
			}
			fl := flagsets[i%len(flagsets)]
			items = append(items, "/"+body+"/"+fl)
			if n == 1 {
				for _, f := range flagsets {
					items = append(items, "/"+body+"/"+f, "a = 1, a /"+body+"/ 2", "/"+body+"/"+f+".source", "[/"+body+"/"+f+" in {}]")
				}
			}
		}
	}
	c01RunLitBatchesValid(c, pool, "regexps", items, false, 256)

	// (5) identifiers with non-ASCII characters (must be escaped under charset=ascii)
	ids := []string{"π", "été", "\U00020BB7", "a‌", "a‍", "℘", "℮", "゛", "ᢅ", "µ", "ａ", "\U0001d49c", "ɵ", "x̀", "_é", "$\U00020BB7y",
		"\\u03c0", "\\u{3c0}", "\\u{20BB7}", "a\\u200c", "中文", "абв", "א", "ا", "ก", "가", "ᄀ", "힣"}
	items = nil
	for _, id := range ids {
		items = append(items,
			"(() => { var "+id+" = 1; return "+id+" })()",
			"({"+id+": 2})."+id,
			"Object.keys({"+id+": 2})[0]",
			"(() => { var o = {"+id+"(){ return 3 }}; return o."+id+"() })()",
			"(() => { class K { static "+id+" = 4; static #"+id+" = 5; static g() { return K.#"+id+" } } return [K."+id+", K.g()] })()",
			"(function "+id+"() { return "+id+".name }).name",
			"(() => { "+id+": for (;;) break "+id+"; return 6 })()",
			"(({"+id+": x}) => x)({"+id+": 7})",
			"(() => { var {"+id+"} = {"+id+": 8}; return "+id+" })()",
			"(() => { try { throw 9 } catch ("+id+") { return "+id+" } })()",
			"a?."+id,
		)
	}
	c01RunLitBatches(c, pool, "identifiers", items, true, 64)
}

// Like c01RunLitBatches but the item list is first filtered by V8 validity (items V8 rejects are not
// literals of the language and are dropped by construction).
func c01RunLitBatchesValid(c *Check, pool *NodePool, name string, items []string, asciiCheck bool, perBatch int) {
	valid := make([]bool, len(items))
	nb := (len(items) + 511) / 512
	c.ForEach(uint64(nb), func(w int, bi uint64) {
		lo, hi := int(bi)*512, (int(bi)+1)*512
		if hi > len(items) {
			hi = len(items)
		}
		var sc []synCase
		for _, it := range items[lo:hi] {
			sc = append(sc, synCase{"x = [" + it + "]", "script"})
		}
		r := syntaxBatch(pool.Get(w), sc)
		for i := range r {
			valid[lo+i] = r[i]
		}
	})
	var keep []string
	for i, it := range items {
		if valid[i] {
			keep = append(keep, it)
		}
	}
	c.Sub("v8-valid:"+name, uint64(len(keep)))
	c01RunLitBatches(c, pool, name, keep, asciiCheck, perBatch)
}

var _ = utf8.RuneLen

var xCallsStmt = []interface{}{
	[]interface{}{true, true, 1}, []interface{}{true, false, 2}, []interface{}{false, true, 3}, []interface{}{false, false, 9},
	[]interface{}{nil, map[string]interface{}{"t": "undef"}, 1},
	[]interface{}{map[string]interface{}{"t": "U", "n": "a"}, map[string]interface{}{"t": "U", "n": "b"}, map[string]interface{}{"t": "U", "n": "c"}},
	[]interface{}{2, 3, 5},
}

func c01Statements(c *Check, x *xrunner) {
	y := *x
	y.calls = xCallsStmt
	y.runSpace(&xspace{segs: []xseg{asiSpace(), stmtSpace(c.Tier)}})
}
