package main

// C13: accepted input yields valid, stable output; valid input is accepted.
// Explorer: all token words of length <= N over a context-sensitive token alphabet.

import (
	"fmt"
	"os"
	"regexp"
	"strings"
	"sync"
	"time"

	"github.com/evanw/esbuild/pkg/api"
)

var c13Tokens = []string{
	"a", ";", "\n", "(", ")", "{", "}", "[", "]", ",", "=", ":", ".", "?",
	"/", "/=", "/x/g", "`t`", "`${", "}`", "=>", "...", "?.", "??", "<", ">", "<!--", "-->",
	"let", "async", "await", "yield", "of", "get", "set", "static", "new", "in", "class", "function", "*",
	"\\u0061b", "l\\u0065t", "1_0", "'s'", "0", ".5", "1n", "+", "++", "-", "--", "!", "var", "const",
	"for", "if", "else", "return", "extends", "super", "this", "import", "export", "default", "from", "as",
	"do", "while", "#p", "typeof", "delete", "void", "**", "&&=", "x:", "b", "instanceof", "with", "08", "010",
	"try", "catch", "finally", "throw", "break", "continue", "switch", "case", "debugger", "null", "true",
	"enum", "arguments", "eval", "target", "meta", "using", "accessor", "&&", "||", "|", "'use strict'", "@",
}

func c13Word(idx uint64, n int, alpha []string) []string {
	w := make([]string, n)
	A := uint64(len(alpha))
	for k := n - 1; k >= 0; k-- {
		w[k] = alpha[idx%A]
		idx /= A
	}
	return w
}

func joinTokens(w []string) string { return strings.Join(w, " ") }

type synCase struct {
	Code string `json:"code"`
	Goal string `json:"goal"`
}
type synResp struct {
	R []struct {
		Ok  bool   `json:"ok"`
		Err string `json:"err"`
	} `json:"r"`
	InfraError string `json:"infraError"`
}

// oracleCrashes records inputs on which the engine itself aborted (not a verdict: callers skip and count them)
var oracleCrashes sync.Map

func oracleCrashed(code string) bool {
	_, ok := oracleCrashes.Load(code)
	return ok
}

func syntaxBatch(n *Node, cases []synCase) []bool {
	if len(cases) == 0 {
		return nil
	}
	var resp synResp
	answered, crashed := n.CallC(map[string]interface{}{"op": "syntax", "cases": cases}, &resp, 10*time.Minute, true)
	if crashed {
		// the engine process died on one of the cases: isolate it by bisection
		if len(cases) == 1 {
			oracleCrashes.Store(cases[0].Code, true)
			fmt.Fprintf(os.Stderr, "ORACLE-CRASH (skipped, not a verdict): %q goal=%s\n", cases[0].Code, cases[0].Goal)
			return []bool{false}
		}
		h := len(cases) / 2
		return append(syntaxBatch(n, cases[:h]), syntaxBatch(n, cases[h:])...)
	}
	if !answered {
		fatalf("node worker did not answer within 10 minutes")
	}
	if resp.InfraError != "" || len(resp.R) != len(cases) {
		fatalf("syntax op failed: %s", resp.InfraError)
	}
	out := make([]bool, len(cases))
	for i, r := range resp.R {
		out[i] = r.Ok
	}
	return out
}

func hasTok(w []string, ts ...string) bool {
	for _, x := range w {
		for _, t := range ts {
			if x == t {
				return true
			}
		}
	}
	return false
}

type c13Cfg struct {
	name   string
	format api.Format
	ws     bool
	ascii  bool
	goal   string // goal the output must satisfy: "" = same as input
}

var c13Cfgs = []c13Cfg{
	{"preserve", api.FormatDefault, false, false, ""},
	{"preserve-ws", api.FormatDefault, true, true, ""},
	{"esm", api.FormatESModule, false, false, "module"},
	{"cjs-ws", api.FormatCommonJS, true, false, "cjs"},
	{"iife", api.FormatIIFE, false, true, "script"},
}

// `f()++`, `f() = 1`, `++f()`, `for (f() in x)`
var c13CallTarget = regexp.MustCompile(`\)\s*(\+\+|--|=($|[^=>])|[-+*/%&|^]=|<<=|>>>?=|\*\*=|in\b|of\b)|(\+\+|--)\s*[\w$.\s]+\(`)

func transformJS(code string, opts api.TransformOptions) (string, bool, []api.Message) {
	opts.LogLevel = api.LogLevelSilent
	r := api.Transform(code, opts)
	if len(r.Errors) > 0 {
		return "", false, r.Errors
	}
	return string(r.Code), true, nil
}

func c13CheckBatch(c *Check, node *Node, inputs []string, words [][]string, src string) {
	type item struct {
		in       string
		w        []string
		ok       bool
		out      string
		v8s, v8m bool
		onlyMod  bool
		onlyScr  bool
		errText  string
	}
	items := make([]*item, len(inputs))
	var sc []synCase
	for i, in := range inputs {
		it := &item{in: in}
		if words != nil {
			it.w = words[i]
		}
		var errs0 []api.Message
		it.out, it.ok, errs0 = transformJS(in, api.TransformOptions{LegalComments: api.LegalCommentsNone})
		if len(errs0) > 0 {
			it.errText = errs0[0].Text
		}
		items[i] = it
		sc = append(sc, synCase{in, "script"}, synCase{in, "module"})
	}
	res := syntaxBatch(node, sc)
	var oc []synCase
	type pend struct {
		it   *item
		cfg  string
		goal string
		out  string
		// esbuild rejected its own output of this configuration (a violation if the reference engine accepts that output)
		reparseErr string
	}
	var pends []pend
	for i, it := range items {
		it.v8s, it.v8m = res[2*i], res[2*i+1]
		c.Eval(1)
		if oracleCrashed(it.in) {
			c.Sub("oracle_crash_skipped", 1)
			continue
		}
		// Exclusions by construction (DESIGN §C13): esbuild parses every file as a possible
		// module, so top-level `await` is always a keyword and HTML-like comment tokens are only
		// meaningful in the script goal.
		wantAccept := false
		if strings.Contains(it.in, "await") {
			wantAccept = it.v8m
		} else if strings.Contains(it.in, "<!--") || strings.Contains(it.in, "-->") {
			wantAccept = it.v8s && !it.v8m
			if it.v8s && it.v8m {
				wantAccept = true
			}
		} else {
			wantAccept = it.v8s || it.v8m
		}
		if wantAccept && !it.ok {
			if it.errText == "Invalid assignment target" && c13CallTarget.MatchString(it.in) {
				// recorded finding: a call expression as the target of an assignment / update / for-in head
				c.Violation("call-expression-as-assignment-target-rejected", map[string]interface{}{"kind": "valid-input-rejected", "input": it.in, "v8_script": it.v8s, "v8_module": it.v8m, "source": src})
			} else if !c13DocumentedReject(it.in, it.v8s, it.v8m) {
				c.Violation("accept:"+it.in, map[string]interface{}{"kind": "valid-input-rejected", "input": it.in, "v8_script": it.v8s, "v8_module": it.v8m, "source": src})
			} else {
				c.Sub("documented_reject", 1)
			}
		}
		if !it.ok {
			continue
		}
		c.Sub("accepted", 1)
		c.Distinct(it.out)
		if strings.Contains(it.in, "await") {
			it.v8s = false // top-level await is always the keyword for esbuild (module reading only)
		}
		if !(it.v8s || it.v8m) {
			c.Sub("lenient_accept", 1)
			continue // esbuild is documented not to be a validator; only valid inputs are "programs"
		}
		// fixed point
		out2, ok2, errs := transformJS(it.out, api.TransformOptions{LegalComments: api.LegalCommentsNone})
		if !ok2 {
			c.Violation("reparse:"+it.in, map[string]interface{}{"kind": "output-not-reparsable", "input": it.in, "output": it.out, "errors": jsonStr(errs), "source": src})
		} else if out2 != it.out {
			c.Violation("fixpoint:"+it.in, map[string]interface{}{"kind": "not-a-fixed-point", "input": it.in, "T1": it.out, "T2": out2, "source": src})
		}
		for _, cfg := range c13Cfgs {
			o := it.out
			if cfg.name != "preserve" {
				cs := api.CharsetUTF8
				if cfg.ascii {
					cs = api.CharsetASCII
				}
				var ok bool
				o, ok, _ = transformJS(it.in, api.TransformOptions{Format: cfg.format, MinifyWhitespace: cfg.ws, Charset: cs, LegalComments: api.LegalCommentsNone})
				if !ok {
					continue
				}
			}
			goals := []string{}
			if cfg.goal == "module" && !it.v8m {
				// A sloppy-only script converted to ESM: outside the statement (the input is not a
				// valid program of the requested kind).
				continue
			}
			if cfg.goal != "" {
				// A format conversion only constrains inputs valid in the corresponding source goal:
				if cfg.goal == "module" && !it.v8m {
					// sloppy-only script converted to ESM: esbuild must have errored for strict-mode violations; if it did not, output must still parse
				}
				goals = append(goals, cfg.goal)
			} else {
				if it.v8s {
					goals = append(goals, "script")
				}
				if it.v8m {
					goals = append(goals, "module")
				}
			}
			reparseErr := ""
			if cfg.name == "preserve-ws" && len(goals) > 0 {
				// minified whitespace glues tokens together: esbuild must be able to read its own output again
				if _, okR, errsR := transformJS(o, api.TransformOptions{LegalComments: api.LegalCommentsNone}); !okR {
					reparseErr = jsonStr(errsR)
				}
			}
			for _, g := range goals {
				oc = append(oc, synCase{o, g})
				pends = append(pends, pend{it, cfg.name, g, o, reparseErr})
			}
		}
	}
	ores := syntaxBatch(node, oc)
	for i, p := range pends {
		c.Sub("output_syntax_checks", 1)
		if ores[i] && p.reparseErr != "" {
			c.Violation("reparse:"+p.cfg+":"+p.it.in, map[string]interface{}{"kind": "output-not-reparsable", "input": p.it.in, "config": p.cfg, "output": p.out, "errors": p.reparseErr, "source": src})
		}
		if !ores[i] {
			if oracleCrashed(p.out) {
				c.Sub("oracle_crash_skipped", 1)
				continue
			}
			if c13DocumentedOutput(p.it.in, p.cfg, p.goal, p.it.v8s, p.it.v8m) {
				c.Sub("documented_output_goal", 1)
				continue
			}
			c.Violation("invalid:"+p.cfg+":"+p.goal+":"+p.it.in, map[string]interface{}{"kind": "output-invalid", "input": p.it.in, "config": p.cfg, "goal": p.goal, "output": p.out, "v8_script": p.it.v8s, "v8_module": p.it.v8m, "source": src})
		}
	}
}

// Filled in after classification of first runs (fixed list in the generator, not learned at run time).
func c13DocumentedReject(in string, v8s, v8m bool) bool            { return false }
func c13DocumentedOutput(in, cfg, goal string, v8s, v8m bool) bool { return false }

func runC13(c *Check) {
	maxLen := 3
	alpha := c13Tokens
	if c.Tier == "quick" {
		maxLen = 3
	} else {
		maxLen = 4
	}
	c.Rule = "all token words of length<=N over the C13 token alphabet (joined by single spaces), plus every depth-3 operator chain over a 14-operator (thorough 24) alphabet in 7 (thorough 14) grammar-sensitive statement contexts (for-init, for-var-init, for-of/in heads, arrow bodies, new callee, class heritage, labels, exponent base, statement start); each word: esbuild accept/reject vs V8 (script+module goal), output validity in V8 under 5 configurations, T(T(x))==T(x); distinct = distinct esbuild outputs; numeric-adjacency family (29 contexts x 21 numeric forms); statement hazards; every minify-whitespace output is parsed again by esbuild itself"
	c.Assump = []string{"V8 (Node 20) is the reference grammar", "inputs V8 rejects but esbuild accepts constrain only the fixed-point oracle (esbuild documents that it is not a validator)"}
	pool := NewNodePool("")
	defer pool.Close()
	total := uint64(0)
	for n := 1; n <= maxLen; n++ {
		size := uint64(1)
		for k := 0; k < n; k++ {
			size *= uint64(len(alpha))
		}
		const B = 256
		nb := (size + B - 1) / B
		done := c.ForEach(nb, func(w int, bi uint64) {
			var ins []string
			var ws [][]string
			for i := bi * B; i < (bi+1)*B && i < size; i++ {
				wd := c13Word(i, n, alpha)
				ins = append(ins, joinTokens(wd))
				ws = append(ws, wd)
			}
			c13CheckBatch(c, pool.Get(w), ins, ws, "words")
		})
		total += done
		c.Set("words_len_"+string(rune('0'+n)), map[string]interface{}{"batches_done": done, "batches": nb, "size": size})
	}
	// ---- structured programs: the places where the printer must decide on parentheses, spaces and "in"/"of"/
	// "let"/"async" look-alikes depend on the surrounding production, which three-token words cannot reach.
	// Every depth-3 operator chain over a 20-operator alphabet in 14 grammar-sensitive contexts: accepted, output
	// valid in V8 under every configuration, fixed point. (Behaviour of the same programs is C01's business.)
	{
		allOps := concatOps(xAllOps, xAsyncGen, xGen)
		ops := pickOps(allOps, "$0, $1", "#0 = $0", "$0 ? $1 : $2", "$0 ?? $1", "$0 || $1", "$0 in $1", "$0 + $1", "$0 ** $1", "-$0", "typeof $0", "$0($1)", "new $0", "$0.x", "$0?.x", "$0`t`", "() => $0",
			"function() { return $0 }", "{x: $0}", "class {}", "async () => $0", "{x: #0} = $0", "$0[$1]", "(async)($0)", "[$0, $1]")
		ctxNames := []string{"stmt", "for-init", "for-var-init", "for-var-init2", "for-of", "for-in", "for-of-lhs", "arrow-body-noparen", "new-callee", "class-extends", "label", "stmt-after-expr", "exponent-left", "call-callee"}
		if c.Tier == "quick" {
			ctxNames = []string{"stmt", "for-init", "for-var-init", "for-of", "arrow-body-noparen", "new-callee", "class-extends"}
			ops = pickOps(allOps, "$0, $1", "#0 = $0", "$0 ? $1 : $2", "$0 || $1", "$0 in $1", "-$0", "$0($1)", "new $0", "$0.x", "() => $0", "{x: $0}", "class {}", "async () => $0", "$0`t`")
		}
		sp := &xspace{}
		for _, cx := range pickCtx(ctxNames...) {
			// three parenthesisation modes: full, bare top level and arrow bodies, none (inputs V8 rejects are skipped)
			sp.segs = append(sp.segs, segDepth3(cx, ops), segDepth3Parens(cx, ops, 1), segDepth3Parens(cx, ops, 2))
		}
		size := sp.Size()
		const B = 256
		nb := (size + B - 1) / B
		done := c.ForEach(nb, func(w int, bi uint64) {
			var ins []string
			for i := bi * B; i < (bi+1)*B && i < size; i++ {
				xc, _ := sp.At(i)
				if pat := os.Getenv("VERIF_C13_PRINT"); pat != "" && strings.Contains(xc.code, pat) {
					fmt.Fprintln(os.Stderr, "STRUCTURED:", strings.ReplaceAll(xc.code, "\n", " "))
				}
				ins = append(ins, xc.code)
			}
			c13CheckBatch(c, pool.Get(w), ins, nil, "structured")
		})
		c.Set("structured_programs", map[string]interface{}{"batches_done": done, "batches": nb, "size": size, "contexts": ctxNames})
	}
	// ---- regular expression literals: esbuild scans them itself (to find the end, to count groups and to decide
	// whether a target supports the syntax). All bodies of <= 3 atoms x 5 flag sets, valid per V8 => accepted, output valid.
	{
		atoms := []string{"a", ".", "\\d", "[a-z]", "[^)]", "[(]", "\\(", "\\)", "(a)", "(?:a)", "(?=a)", "(?!a)", "(?<=a)", "(?<!a)", "(?<n>a)", "\\k<n>", "a*", "a+?", "a{1,2}", "|", "^", "$", "\\/", "[/]", "\\p{L}", "\\u{1F600}", "\\1", "(?<n2>(?<=b)c)", "(", ")", "[", "]"}
		flagSets := []string{"", "u", "v", "gimsy", "d"}
		var ins []string
		maxR := 2
		if c.Tier != "quick" {
			maxR = 3
		}
		var rec func(cur string, n int)
		rec = func(cur string, n int) {
			if n > 0 {
				for _, f := range flagSets {
					ins = append(ins, "x = /"+cur+"/"+f+";")
				}
			}
			if n == maxR {
				return
			}
			for _, a := range atoms {
				rec(cur+a, n+1)
			}
		}
		rec("", 0)
		const B = 256
		nb := (uint64(len(ins)) + B - 1) / B
		done := c.ForEach(nb, func(w int, bi uint64) {
			lo, hi := bi*B, (bi+1)*B
			if hi > uint64(len(ins)) {
				hi = uint64(len(ins))
			}
			c13CheckBatch(c, pool.Get(w), ins[lo:hi], nil, "regexp-literals")
		})
		c.Set("regexp_literals", map[string]interface{}{"batches_done": done, "batches": nb, "size": len(ins), "atoms": len(atoms), "max_atoms": maxR})
	}
	// ---- numeric literals next to punctuators: `a?.5:b` is a conditional, `a?.b` a chain; `1..x`, `1.e3`, `.5.x`, legacy
	// octal-looking decimals, separators and BigInt suffixes in every position where the previous/next token matters
	{
		nums := []string{"0", "1", ".0", ".5", "0.5", ".05", "0.05", "0.025", "5e-7", "1e21", "0x10", "0b1", "0o7", "1n", "1_0", "08", "09.5", "1.", "1.e3", "1.5e+3", "0.0000001"}
		ctxs := []string{"x = a?N:b;", "x = a ? N : b;", "x = a?N.x:b;", "x = a?.N;", "x = a?.[N];", "x = a+N;", "x = a-N;", "x = a- -N;", "x = a/N;", "x = N/a/N;", "x = N.x;", "x = N .x;", "x = N..x;", "x = (N).x;", "x = N in a;",
			"x = N?N:N;", "x = [N,N];", "x = {N: a};", "x = a[N];", "x = -N ** 2;", "x = (-N) ** 2;", "x = N ** -N;", "x = a<N>N;", "x = N instanceof a;", "x = a?.x?N:N;", "x = typeof N;", "x = void N;", "x = a?+N:-N;", "x = !N?.5:N;"}
		var ins []string
		for _, cx := range ctxs {
			for _, nm := range nums {
				ins = append(ins, strings.ReplaceAll(cx, "N", nm))
			}
		}
		const B = 128
		nb := (uint64(len(ins)) + B - 1) / B
		c.ForEach(nb, func(w int, bi uint64) {
			lo, hi := bi*B, (bi+1)*B
			if hi > uint64(len(ins)) {
				hi = uint64(len(ins))
			}
			c13CheckBatch(c, pool.Get(w), ins[lo:hi], nil, "numeric-adjacency")
		})
		c.Set("numeric_adjacency", map[string]interface{}{"size": len(ins), "contexts": len(ctxs), "numbers": len(nums)})
	}
	// ---- explicit statement hazards (ASI, directives, labels on rewritten loops, label sets, `in` inside for-initializers)
	{
		var ins []string
		for _, h := range asiHazards {
			ins = append(ins, xProgram(h, ""))
		}
		c13CheckBatch(c, pool.Get(0), ins, nil, "statement-hazards")
		c.Set("statement_hazards", map[string]interface{}{"size": len(ins)})
	}
	c.Set("alphabet_size", len(alpha))
	c.Set("max_word_length", maxLen)
	c.Sample(map[string]string{"word": joinTokens(c13Word(12345, 3, alpha))})
	c.Sample(map[string]string{"word": joinTokens(c13Word(777777, 3, alpha))})
}

func init() { register("C13", "exploration", runC13) }
