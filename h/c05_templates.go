package main

// C05 template literals: when template literals are lowered (feature switched off, or the default protection against
// "</script" in inline scripts), a tagged template's strings / strings.raw arrays and an untagged template's value
// must be the same as natively. All templates of <= 3 chunks over an alphabet of chunk source texts.

import (
	"github.com/evanw/esbuild/pkg/api"
)

var c05TemplateChunks = []string{"", "a", "\\n", "\\\n", "\r\n", "\\u0041", "\\u{1F600}", "\\0", "\\`", "$", "\\${", "</script>", " ", "\\xZ", "\\u{110000}"}

var c05TemplateCfgs = []xcfg{
	{"default", api.TransformOptions{}},
	{"template-literal=false", api.TransformOptions{Supported: map[string]bool{"template-literal": false}}},
	{"template-literal=false+minify", api.TransformOptions{Supported: map[string]bool{"template-literal": false}, MinifySyntax: true, MinifyWhitespace: true}},
	{"minify-syntax", api.TransformOptions{MinifySyntax: true}},
	{"es2015+ascii", api.TransformOptions{Target: api.ES2015, Charset: api.CharsetASCII}},
	{"es2017+utf8+minify", api.TransformOptions{Target: api.ES2017, Charset: api.CharsetUTF8, MinifySyntax: true, MinifyWhitespace: true}},
}

func c05TemplateLiterals(c *Check, pool *NodePool) {
	tag := "(function(s) { return JSON.stringify([s, s.raw, [].slice.call(arguments, 1), Object.isFrozen(s)]) })"
	var tagged, untagged []string
	n := len(c05TemplateChunks)
	valid := n - 2 // the last two chunks are invalid escapes: only allowed in tagged templates
	lim := n
	if c.Tier == "quick" {
		lim = 9
	}
	for i := 0; i < n; i++ {
		tagged = append(tagged, tag+"`"+c05TemplateChunks[i]+"`")
		if i < valid {
			untagged = append(untagged, "`"+c05TemplateChunks[i]+"`")
		}
		for j := 0; j < n; j++ {
			a, b := c05TemplateChunks[i], c05TemplateChunks[j]
			tagged = append(tagged, tag+"`"+a+"${1}"+b+"`")
			if i < valid && j < valid {
				untagged = append(untagged, "`"+a+"${1}"+b+"`", "`"+a+"${'x'}"+b+"`")
			}
			for k := 0; k < lim; k++ {
				// three chunks: quick keeps the third chunk to the first nine alphabet entries
				d := c05TemplateChunks[k]
				tagged = append(tagged, tag+"`"+a+"${1}"+b+"${H}"+d+"`")
				if i < valid && j < valid && k < valid && k < 4 {
					untagged = append(untagged, "`"+a+"${1}"+b+"${2}"+d+"`")
				}
			}
		}
	}
	litFreshContexts = true
	runLitBatches(c, pool, "lowered-templates-tagged", tagged, false, 256, c05TemplateCfgs)
	runLitBatches(c, pool, "lowered-templates-untagged", untagged, false, 256, c05TemplateCfgs)
}
