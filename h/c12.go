package main

// C12: CSS parsing, minification, lowering and bundling preserve the cascade (oracle: Chrome 147).

import (
	"regexp"
	"fmt"
	"os"
	"path/filepath"
	"strings"
	"sync"
	"time"

	"github.com/evanw/esbuild/pkg/api"
)

var c12Selectors = []string{"div", ".a", "#i1", "[x]", "[x=y]", "div.a", ".a.b", "div > span", "div span", "p + p", "p ~ p", ":first-child", ":not(.a)", ":is(.a, .b)", ":where(.a)", ".a, .b", "a:hover",
	"::-moz-x", ":unknown-pseudo(x)", "div, ::-moz-x", ".b, :unknown-pseudo(x)", "li", "span.c", "#i5 p", "*", "p:last-child", ".a > .b", ".c ~ .c", ":is(div, p) .b", ":not(.a, .b)", "div:has(> .b)", ".a:nth-child(2n+1)", "a", ".a::before", "p::before", ":root", "body .a"}

// declaration blocks by family: members of one family interact (shorthand/longhand, duplicates, fallbacks, !important)
var c12Families = map[string][]string{
	"color": {"color: red", "color: #f00", "color: #ff0000ff", "color: rgb(255, 0, 0)", "color: rgba(255 0 0 / 50%)", "color: hsl(0, 100%, 50%)", "color: hsl(120deg 100% 50% / .5)", "color: hwb(0 0% 0%)", "color: blue !important", "color: red; color: unknown-fn(1)",
		"color: unknown-fn(1); color: green", "color: lab(50% 40 30)", "color: oklch(60% .2 30)", "color: color(display-p3 1 0 0)", "color: color-mix(in srgb, red, blue)", "color: currentColor", "color: transparent", "color: #FFF", "color: rgb(0 0 0 / 0)", "color: rgb(300 -5 0)",
		"color: hsl(400 50% 50%)", "color: hsl(-40deg 120% 50%)", "color: hsl(-40, 120%, 50%)", "color: hsla(320, 150%, 40%, .5)", "color: rgb(10% 20% 30%)", "color: #0f08", "color: RED", "color: rgb(none 0 0)", "color: inherit", "color: var(--v1, green)", "--v1: blue; color: var(--v1)", "color: rgb(from red r g b)"},
	"margin": {"margin: 1px", "margin: 1px 2px", "margin: 1px 2px 3px", "margin: 1px 2px 3px 4px", "margin-top: 5px", "margin-left: 6px; margin-right: 7px", "margin: 1px; margin-top: 9px", "margin-top: 9px; margin: 1px", "margin: 1px !important; margin-top: 2px",
		"margin-top: 2px !important; margin: 1px", "margin: 0 auto", "margin: 1px 1px 1px 1px", "margin: 1px 2px 1px 2px", "margin-top: 1px; margin-right: 1px; margin-bottom: 1px; margin-left: 1px", "margin: calc(1px + 2px)", "margin: -0px +1px 1e1px .5px", "margin: 01px 1.0px 1.50px 0.0px",
		"margin-inline-start: 3px", "margin: 1px; margin: unknown(2px)", "margin: var(--v2, 4px)", "margin-top: 1px; margin-top: 2px", "margin: 1PX 2Px"},
	"padding-inset": {"padding: 1px 2px 3px 4px", "padding-top: 5px; padding: 1px", "padding: 1px; padding-left: 5px !important", "inset: 1px 2px; position: absolute", "top: 1px; right: 2px; bottom: 1px; left: 2px; position: absolute", "inset: 0; position: fixed", "top: 0; inset: 5px; position: absolute",
		"padding: 0 0 0 0", "padding: 1px 2px 1px", "padding-block: 1px 2px", "inset-inline-start: 4px; position: relative"},
	"border": {"border: 1px solid red", "border: solid", "border-top: 2px dashed blue", "border: 1px solid red; border-top-color: blue", "border-top-color: blue; border: 1px solid red", "border-width: 1px 2px; border-style: solid", "border-color: red blue; border-style: solid; border-width: 1px",
		"border-radius: 1px", "border-radius: 1px 2px 3px 4px", "border-radius: 1px 2px / 3px 4px", "border-top-left-radius: 5px; border-radius: 1px", "border-radius: 1px; border-top-left-radius: 5px", "border-radius: 1px 1px 1px 1px / 2px", "border: 0", "border: none", "border: 1px solid; border: unknown-thing",
		"outline: 1px solid red", "border-left: 1px solid #f00; border-right: 1px solid #ff0000", "border-style: solid; border-width: thin medium thick 0"},
	"font": {"font: 12px serif", "font: bold italic 12px/1.5 Arial, sans-serif", "font-size: 10px; font: 12px serif", "font: 12px serif; font-size: 10px", "font-weight: bold", "font-weight: 700", "font-weight: normal", "font-weight: 400", "font-family: 'Helvetica Neue', Arial", "font-family: \"x y\", serif",
		"font-family: x y", "font: small-caps 12px serif", "font: 12px/2 serif; line-height: 3", "font: caption", "font-size: 1.0em", "font-size: 100%", "font: condensed 12px serif", "font-weight: bolder"},
	"background": {"background: red", "background: url(x.png) no-repeat", "background: #fff url(x.png) 1px 2px / 3px 4px repeat-x", "background-color: red; background: blue", "background: blue; background-color: red", "background: none", "background: linear-gradient(red, blue)",
		"background: linear-gradient(to right, red 0%, blue 100%)", "background: linear-gradient(45deg, #f00, #00f 50%, rgb(0 255 0))", "background-image: radial-gradient(circle at center, red, blue)", "background: red; background: linear-gradient(in oklch, red, blue)", "background-position: left top", "background-position: 0 0", "background-position: center", "background: conic-gradient(red, blue)", "background: linear-gradient(red 10% 20%, blue)"},
	"misc": {"transition: color 1s", "transition: color 1s ease 0s", "transition: all 0.5s ease-in-out 100ms", "transition: color 1s, opacity 2s", "transition-property: color; transition-duration: 1s", "transform: translate(1px, 2px)", "transform: translate(1px, 0)", "transform: translateX(1px) scale(1, 1) rotate(0deg)",
		"transform: scale(2, 2)", "transform: rotate(90deg)", "transform: rotate(0.25turn)", "transform: translate3d(0, 0, 0)", "transform: matrix(1, 0, 0, 1, 0, 0)", "opacity: .5", "opacity: 50%", "z-index: 1; position: relative", "list-style: none", "list-style: square inside", "content: 'x'", "content: \"\\201C\"",
		"width: calc(100% - 10px)", "width: calc(1px + 2px * 3)", "width: calc(10px - -2px)", "width: calc((1px + 2px) * 2)", "width: calc(10px / 4)", "width: calc(1em + 2px)", "width: calc(1px + calc(2px + 3px))", "width: min(10px, 2em)", "width: clamp(1px, 2px, 3px)", "width: calc(1px - (2px - 3px))", "width: calc(2 * (1px + 1em))", "width: calc(100% / 3)",
		"width: 0.50px", "width: +.5e1px", "width: 1e3px", "width: 10.0PX", "letter-spacing: -0.0px", "line-height: 1.50", "flex: 1", "flex: 1 1 0", "flex: 0 0 auto", "gap: 1px 1px", "display: none", "display: grid; grid-template-columns: repeat(2, 1fr)", "box-shadow: 0 0 0 red", "box-shadow: 1px 1px #000, 0 0 2px rgba(0,0,0,.5)",
		"text-decoration: underline red", "--v1: {a:b}; --v2:  x ; --v3:", "--v1: 1px; width: var(--v1)", "animation: spin 1s", "aspect-ratio: 16 / 9", "clip-path: circle(50%)", "filter: blur(1px)", "text-shadow: 1px 1px red", "overflow: hidden auto", "cursor: pointer", "visibility: hidden", "rotate: 90deg", "scale: 2 2", "translate: 1px 0"},
}

var c12FamilyOrder = []string{"color", "margin", "padding-inset", "border", "font", "background", "misc", "prefixed"}

func init() {
	// properties for which esbuild inserts vendor-prefixed copies (or prefixed values) for older targets: the copies
	// must never change what a browser that understands the unprefixed form computes
	c12Families["prefixed"] = []string{"appearance: none", "backdrop-filter: blur(2px)", "background-clip: text", "background-clip: border-box", "box-decoration-break: clone", "clip-path: circle(40%)", "font-kerning: none", "hyphens: auto",
		"mask-image: linear-gradient(red, blue)", "mask: url(x.png) no-repeat", "mask-size: 10px", "position: sticky; top: 1px", "position: absolute", "print-color-adjust: exact", "tab-size: 3", "text-decoration-color: red", "text-decoration-line: underline",
		"text-emphasis-style: dot", "text-orientation: upright", "text-size-adjust: none", "user-select: none", "width: stretch", "min-height: stretch", "width: 10px", "-webkit-user-select: text; user-select: none", "user-select: none; -webkit-user-select: text",
		"appearance: none !important", "user-select: none; user-select: unknown-value", "-webkit-appearance: button; appearance: none"}
}

type c12Wrap struct {
	name string
	wrap func(rules string) string
}

var c12Wraps = []c12Wrap{
	{"plain", func(r string) string { return r }},
	{"media-min-width", func(r string) string { return "@media (min-width: 500px) { " + r + " }" }},
	{"media-print", func(r string) string { return "@media print { " + r + " }" }},
	{"media-not-all", func(r string) string { return "@media not all { " + r + " }" }},
	{"media-screen-and", func(r string) string { return "@media screen and (max-width: 600px) { " + r + " }" }},
	{"supports-true", func(r string) string { return "@supports (display: grid) { " + r + " }" }},
	{"supports-false", func(r string) string { return "@supports (unknown-prop: x) { " + r + " }" }},
	{"supports-unknown-syntax", func(r string) string { return "@supports unknown-fn(x) { " + r + " }" }},
	{"layer-block", func(r string) string { return "@layer a { " + r + " }" }},
	{"layer-anon", func(r string) string { return "@layer { " + r + " }" }},
	{"layer-order", func(r string) string {
		return "@layer b, a; @layer a { " + r + " } @layer b { .a { color: purple; margin: 9px } }"
	}},
	{"nested-in-a", func(r string) string { return ".a { " + r + " }" }},
	{"container", func(r string) string {
		return "div { container-type: inline-size } @container (min-width: 100px) { " + r + " }"
	}},
	{"media-nested", func(r string) string { return "@media screen { @media (min-width: 500px) { " + r + " } }" }},
	{"unknown-at-rule", func(r string) string { return "@unknown-rule x { " + r + " } " + r }},
	{"keyframes-before", func(r string) string { return "@keyframes spin { from { color: red } to { color: blue } } " + r }},
}

type c12Cfg struct {
	name   string
	opts   api.TransformOptions
	lowers bool
}

var c12Cfgs = []c12Cfg{
	{"default", api.TransformOptions{Loader: api.LoaderCSS}, false},
	{"minify", api.TransformOptions{Loader: api.LoaderCSS, MinifySyntax: true, MinifyWhitespace: true}, false},
	{"minify-syntax", api.TransformOptions{Loader: api.LoaderCSS, MinifySyntax: true}, false},
	{"chrome100", api.TransformOptions{Loader: api.LoaderCSS, Engines: []api.Engine{{Name: api.EngineChrome, Version: "100"}}}, true},
	{"minify+chrome100", api.TransformOptions{Loader: api.LoaderCSS, MinifySyntax: true, Engines: []api.Engine{{Name: api.EngineChrome, Version: "100"}}}, true},
	{"safari11-firefox60", api.TransformOptions{Loader: api.LoaderCSS, MinifySyntax: true, Engines: []api.Engine{{Name: api.EngineSafari, Version: "11"}, {Name: api.EngineFirefox, Version: "60"}}}, true},
	{"chrome50-safari9-edge14-ios9", api.TransformOptions{Loader: api.LoaderCSS, Engines: []api.Engine{{Name: api.EngineChrome, Version: "50"}, {Name: api.EngineSafari, Version: "9"}, {Name: api.EngineEdge, Version: "14"}, {Name: api.EngineIOS, Version: "9"}}}, true},
}

type chromeResp struct {
	R          [][]string `json:"r"`
	InfraError string     `json:"infraError"`
}

func chromeStyles(n *Node, cases [][]string) [][]string {
	type cs struct {
		Variants []string `json:"variants"`
	}
	var req []cs
	for _, v := range cases {
		req = append(req, cs{v})
	}
	var resp chromeResp
	n.Call(map[string]interface{}{"op": "styles", "cases": req}, &resp)
	if resp.InfraError != "" || len(resp.R) != len(cases) {
		fatalf("chrome styles failed: %s", resp.InfraError)
	}
	return resp.R
}

func c12Diff(a, b string, props []string) []string {
	la, lb := strings.Split(a, "\n"), strings.Split(b, "\n")
	var out []string
	for i := range la {
		if i >= len(lb) || la[i] == lb[i] {
			continue
		}
		pa, pb := strings.Split(la[i], "|"), strings.Split(lb[i], "|")
		head := strings.SplitN(pa[0], ":", 2)[0]
		for k := range pa {
			if k < len(pb) && !c12ValueEq(pa[k], pb[k]) {
				name := "?"
				if k < len(props) {
					name = props[k]
				} else if k == len(props) {
					name = "::before content"
				} else {
					name = "::before color"
				}
				va, vb := pa[k], pb[k]
				if k == 0 {
					va, vb = strings.SplitN(va, ":", 2)[1], strings.SplitN(vb, ":", 2)[1]
				}
				out = append(out, fmt.Sprintf("%s %s: input=%q output=%q", head, name, va, vb))
				if len(out) >= 8 {
					return out
				}
			}
		}
	}
	return out
}

// c12Classify recognises the recorded finding "nesting lowering hoists declarations that follow a nested rule" by
// a differential test, not by the input's shape alone: the input rewritten to the old-specification order
// (trailing declaration moved before the nested rule) must render exactly like esbuild's output in Chrome.
const c12HoistProbe = "& { color: red } color: blue"

var c12MixedRGB = regexp.MustCompile(`rgb\(([\d.]+%?) ([\d.]+%?) ([\d.]+%?)\)`)
var c12ModernHSL = regexp.MustCompile(`hsl\((-?[\d.]+(?:deg|grad|rad|turn)?) ([\d.]+)% ([\d.]+)%\)`)

func c12Classify(n *Node, cfg, input, output string) string {
	// recorded finding: modern hsl() lowered to the legacy comma syntax, which clamps the saturation to 100%.
	// Differential test: the input with the notation rewritten by hand must render exactly like esbuild's output.
	if c12ModernHSL.MatchString(input) {
		alt := c12ModernHSL.ReplaceAllString(input, "hsl($1, $2%, $3%)")
		r := chromeStyles(n, [][]string{{alt, output}})
		if c12Equal(r[0][0], r[0][1]) {
			return "modern-hsl-with-saturation-above-100-lowered-to-legacy-syntax-is-clamped"
		}
	}
	// recorded finding: rgb() mixing percentages and numbers (valid in the modern syntax only) is lowered to the
	// legacy comma syntax, where the mix is invalid, so the declaration is dropped by every browser
	if m := c12MixedRGB.FindStringSubmatch(input); m != nil && strings.Contains(m[0], "%") && (!strings.HasSuffix(m[1], "%") || !strings.HasSuffix(m[2], "%") || !strings.HasSuffix(m[3], "%")) {
		alt := c12MixedRGB.ReplaceAllString(input, "rgb($1, $2, $3)")
		r := chromeStyles(n, [][]string{{alt, output}})
		if c12Equal(r[0][0], r[0][1]) {
			return "rgb-mixing-percentages-and-numbers-lowered-to-invalid-legacy-syntax"
		}
	}
	if strings.Contains(input, c12HoistProbe) {
		alt := strings.ReplaceAll(input, c12HoistProbe, "color: blue; & { color: red }")
		r := chromeStyles(n, [][]string{{alt, output}})
		if c12Equal(r[0][0], r[0][1]) {
			return "nesting-lowering-hoists-declarations-after-nested-rule"
		}
	}
	return ""
}

// usesWideGamut: colours whose lowering to sRGB may legitimately change the rendered value (out of gamut)
func c12WideGamut(css string) bool {
	for _, k := range []string{"lab(", "lch(", "oklab(", "oklch(", "color(", "color-mix(", "from ", "in oklch", "hwb("} {
		if strings.Contains(css, k) {
			return true
		}
	}
	return false
}

var c12T0 = time.Now()

func runC12(c *Check) {
	c.Rule = "style sheets over a generated grammar: 37 selectors (type/class/id/attribute/pseudo, combinators, :is/:where/:not/:has, lists, deliberately unknown selectors) x ~180 declaration blocks in 7 families (colour notations, margin/padding/inset/border/border-radius/font/background shorthand-longhand interleavings, !important, duplicates and unknown-value fallbacks, custom properties, calc trees, numeric forms, gradients, transforms) as single rules, as interacting rule pairs within a family, as at-rule sandwiches W1{R} W2{R'} W1{R''} over 12 block wrappers (layers, media, supports, container, nesting), under media conditions built from 19 width/feature atoms (both operand orders, ranges, min-/max-) with not/and/or/lists/nesting evaluated at 400px and 900px, nested with & in every position and wrapped in 16 at-rule contexts (@media true/false/print, @supports true/false/unknown, @layer, @container, nested); x {default, minify, minify-syntax, chrome100 lowering, safari11+firefox60 lowering}; oracle: Chrome 147 computes every element x ~100 properties x 2 viewport widths for input and output, which must be equal; @import graphs loaded natively by Chrome vs the bundle; distinct = distinct outputs; bare declarations inside nested conditional group rules under parents with pseudo-elements"
	c.Assump = []string{"Chrome 147 (headless shell) is the cascade/value engine; other browsers are not evaluated", "for lowering targets, sheets using wide-gamut or relative colour syntax are only compared under non-lowering configurations (out-of-gamut lowering excluded)", "the 'understands less' clause is decided through the unknown selectors/values/at-rules in the alphabet, which Chrome itself drops"}
	pool := NewScriptPool("chrome_worker.js")
	defer pool.Close()
	var props []string
	{
		var pr struct {
			Props      []string `json:"props"`
			InfraError string   `json:"infraError"`
		}
		pool.Get(0).Call(map[string]interface{}{"op": "props"}, &pr)
		if pr.InfraError != "" {
			fatalf("chrome: %s", pr.InfraError)
		}
		props = pr.Props
	}
	// ---- build the list of sheets
	var sheets []string
	add := func(s string) { sheets = append(sheets, s) }
	quick := c.Tier == "quick"
	selMain := []string{".a", "div", "#i1", ".a.b", "div > span", ":is(.a, .b)", ":where(.a)", ".a, .b", "div, ::-moz-x", ":not(.a)", "p + p", "[x=y]"}
	// (1) every declaration block on a matching selector, and every selector with one block
	for _, fam := range c12FamilyOrder {
		for _, d := range c12Families[fam] {
			add(".a { " + d + " }")
			add("div p, span { " + d + " }")
		}
	}
	for _, s := range c12Selectors {
		add(s + " { color: red; margin: 1px 2px }")
		add(".a { color: blue } " + s + " { color: red }")
		add(s + " { color: red } .a { color: blue }")
	}
	// (2) interacting pairs within a family x selector pairs
	for _, fam := range c12FamilyOrder {
		ds := c12Families[fam]
		for i, d1 := range ds {
			for j, d2 := range ds {
				if quick && (i*7+j*3)%5 != 0 {
					continue
				}
				for si, s1 := range selMain {
					for sj, s2 := range selMain {
						if (si*5+sj*3+i+j)%13 != 0 && !(si == sj && (i+j)%3 == 0 && si < 3) {
							continue
						}
						if quick && (si+sj+i)%3 != 0 {
							continue
						}
						add(s1 + " { " + d1 + " } " + s2 + " { " + d2 + " }")
					}
				}
			}
		}
	}
	// (3) three-rule sheets: same selector separated by a different rule (merging must respect order)
	for _, fam := range []string{"color", "margin", "border"} {
		ds := c12Families[fam]
		for i := 0; i < len(ds); i += 2 {
			for j := 1; j < len(ds); j += 3 {
				add(".a { " + ds[i] + " } .b { " + ds[j] + " } .a { " + ds[(i+j)%len(ds)] + " }")
				add(".a { " + ds[i] + " } div { " + ds[j] + " } .a { " + ds[i] + " }")
				add(".a { " + ds[i] + " } ::-moz-x { " + ds[j] + " } .a { " + ds[j] + " }")
			}
		}
	}
	// (4) at-rule wrappers and nesting
	base := []string{".a { color: red; margin: 1px }", ".b { color: blue } .a { color: green }", "div { margin: 1px 2px 3px 4px } p { margin-top: 9px !important }", "& .b { color: red }", ".b & { color: red }", "&:first-child { margin: 3px }", "> span { color: red }", "& { color: red } color: blue",
		"color: red; & .b { color: blue } margin: 2px", "&.b, & > p { color: red }", "& & { color: red }", ".c { & .b { color: red } }", "@media (min-width: 500px) { color: red; & .b { margin: 4px } }", "span& { color: red }", ":is(&, .b) { color: red }", "+ p { color: red }", "~ p, > span { color: red }",
		"@media (min-width: 500px) { color: red }", "@supports (display: grid) { color: red; margin: 3px }", "@layer x { color: red }", "@container (min-width: 100px) { color: red }",
		"@media screen { @media (min-width: 500px) { color: red } }", "@media (min-width: 500px) { color: red; @supports (display: grid) { color: lime } }", "color: blue; @media screen { color: red } margin: 2px"}
	for _, w := range c12Wraps {
		for _, b := range base {
			if strings.HasPrefix(b, "&") || strings.HasPrefix(b, ">") || strings.HasPrefix(b, "+") || strings.HasPrefix(b, "~") || strings.HasPrefix(b, "color") || strings.HasPrefix(b, ".b &") || strings.HasPrefix(b, "span&") || strings.HasPrefix(b, ":is(&") || strings.HasPrefix(b, "@") || strings.HasPrefix(b, ".c {") {
				add(w.wrap(".a { " + b + " }"))
				add(w.wrap("div, .a > span { " + b + " }"))
				// parents with pseudo-elements: "&" cannot represent them, but declarations placed directly inside a
				// nested conditional group rule still apply to them
				add(w.wrap(".a, p::before { content: 'x'; " + b + " }"))
				add(w.wrap(".a::before { content: 'y'; " + b + " }"))
			} else {
				add(w.wrap(b))
				add(w.wrap(b) + " .a { color: orange; margin: 7px }")
				add(".a { color: orange !important; margin: 7px } " + w.wrap(b))
			}
		}
	}
	// (4b) at-rule sandwiches: W1{R1} W2{R2} W1{R1'} for every pair of block wrappers, with rules that compete for the
	// same elements. Removing or merging a "duplicate" at-rule block is only sound if it does not change layer order
	// (first declaration), condition scope or source order.
	blockWraps := []struct{ name, head string }{
		{"layer-a", "@layer a"}, {"layer-b", "@layer b"}, {"layer-anon", "@layer"}, {"layer-a.b", "@layer a.b"},
		{"media-wide", "@media (min-width: 500px)"}, {"media-narrow", "@media (max-width: 499px)"}, {"media-screen", "@media screen"},
		{"supports-true", "@supports (display: grid)"}, {"supports-false", "@supports (unknown-prop: x)"},
		{"container", "@container (min-width: 100px)"}, {"scope-like-nesting", ".a"}, {"plain", ""},
	}
	bw := func(w struct{ name, head string }, r string) string {
		if w.head == "" {
			return r
		}
		return w.head + " { " + r + " }"
	}
	sandR := [][3]string{
		{"p { color: red }", "p { color: blue }", "p { color: red }"},
		{"p { color: red; margin: 1px }", "p { color: blue }", "p { margin: 2px }"},
		{".a { color: red !important }", ".a { color: blue !important }", ".a { color: red !important }"},
	}
	for i, w1 := range blockWraps {
		for j, w2 := range blockWraps {
			for k, rr := range sandR {
				if quick && (i+j+k)%2 != 0 && !(strings.HasPrefix(w1.name, "layer") && strings.HasPrefix(w2.name, "layer")) {
					continue
				}
				add("div { container-type: inline-size } " + bw(w1, rr[0]) + " " + bw(w2, rr[1]) + " " + bw(w1, rr[2]))
				if k == 0 {
					add(bw(w1, rr[0]) + " " + bw(w2, rr[1]) + " " + bw(w1, rr[0]) + " " + bw(w2, rr[1]))
					add("@layer b, a; " + bw(w1, rr[0]) + " " + bw(w2, rr[1]) + " " + bw(w1, rr[0]))
				}
			}
		}
	}
	// (4c) media conditions: the two frames are 400px and 900px wide, so every width comparison below has a known
	// truth value in each; the minifier rewrites "not (a < b)" into "(a >= b)", drops redundant parentheses and merges
	// identical nested conditions.
	mqAtoms := []string{"(width < 500px)", "(width <= 400px)", "(width > 500px)", "(width >= 900px)", "(width = 400px)", "(500px > width)", "(400px >= width)", "(500px < width)", "(900px <= width)", "(400px = width)",
		"(300px < width < 500px)", "(300px <= width <= 400px)", "(1000px > width >= 900px)", "(min-width: 500px)", "(max-width: 400px)", "(width: 400px)", "(width)", "(orientation: landscape)", "(unknown-feature: 1)"}
	mqRule := " { .a { color: red; margin: 3px } }"
	for i, a := range mqAtoms {
		add("@media " + a + mqRule)
		add("@media not " + a + mqRule)
		add("@media screen and " + a + mqRule)
		add("@media not screen and " + a + mqRule)
		add("@media only screen and " + a + mqRule)
		add("@media print, " + a + mqRule)
		add("@media (not " + a + ")" + mqRule)
		add("@media not (not " + a + ")" + mqRule)
		add("@media " + a + " { @media " + a + " { .a { color: red } } .a { margin: 2px } }")
		for j, b := range mqAtoms {
			if quick && (i*3+j)%5 != 0 {
				continue
			}
			add("@media " + a + " and " + b + mqRule)
			add("@media " + a + " or " + b + mqRule)
			add("@media not (" + a + " and " + b + ")" + mqRule)
			add("@media not (" + a + " or " + b + ")" + mqRule)
			add("@media (not " + a + ") and " + b + mqRule)
			add("@media " + a + ", not " + b + mqRule)
			add("@media " + a + " { @media " + b + " { .a { color: red } } }")
		}
	}
	// (5) colour component grid (exact under non-lowering configurations)
	grid := []string{"0", "50", "128", "255", "300", "-10", "12.5%", "none"}
	for _, r := range grid {
		for _, g := range grid[:4] {
			add(fmt.Sprintf(".a { color: rgb(%s %s 10); background-color: rgba(%s, %s, 0, .5) }", r, g, strings.TrimSuffix(strings.ReplaceAll(r, "none", "0"), "%"), strings.TrimSuffix(g, "%")))
		}
	}
	for _, h := range []string{"0", "30", "120deg", "0.5turn", "400", "-60", "3.14rad", "100grad", "none"} {
		for _, s := range []string{"0%", "50%", "100%", "120%"} {
			for _, l := range []string{"0%", "25%", "50%", "100%"} {
				add(fmt.Sprintf(".a { color: hsl(%s %s %s); border: 1px solid hsla(%s, %s, %s, 0.5) }", h, s, l, strings.ReplaceAll(h, "none", "0"), s, l))
			}
		}
	}
	for _, x := range []string{"#000", "#fff", "#abc", "#abcd", "#aabbcc", "#aabbccdd", "#AbCdEf", "#11223344", "#ff000080", "#f008"} {
		add(".a { color: " + x + "; background: " + x + " }")
	}
	if os.Getenv("VERIF_C12_ONLY") != "" { // debugging aid: skip the sheet phase
		sheets = nil
	}
	c.Set("sheets", len(sheets))
	// ---- evaluate
	const B = 6
	nb := (len(sheets) + B - 1) / B
	nChrome := 4
	var mu sync.Mutex
	_ = mu
	c.ForEach(uint64(nb), func(w int, bi uint64) {
		var cases [][]string
		var metas [][]string
		for i := int(bi) * B; i < (int(bi)+1)*B && i < len(sheets); i++ {
			css := sheets[i]
			variants := []string{css}
			names := []string{"input"}
			for _, cfg := range c12Cfgs {
				if cfg.lowers && c12WideGamut(css) {
					continue
				}
				if quick && cfg.name == "minify-syntax" {
					continue // differs from "minify" only in white space, which "default" covers
				}
				o := cfg.opts
				o.LogLevel = api.LogLevelSilent
				r := api.Transform(css, o)
				if len(r.Errors) > 0 {
					c.Sub("esbuild_error", 1)
					continue
				}
				out := string(r.Code)
				c.Distinct(out)
				dup := false
				for _, v := range variants {
					if v == out {
						dup = true
					}
				}
				if !dup {
					variants = append(variants, out)
					names = append(names, cfg.name)
				}
			}
			c.Eval(1)
			if len(variants) > 1 {
				cases = append(cases, variants)
				metas = append(metas, names)
			}
		}
		if len(cases) == 0 {
			return
		}
		res := chromeStyles(pool.Get(w%nChrome+1), cases)
		for ci, obs := range res {
			for k := 1; k < len(obs); k++ {
				c.Sub("chrome_comparisons", 1)
				if obs[k] != "=" && !c12Equal(obs[0], obs[k]) {
					if key := c12Classify(pool.Get(w%nChrome+1), metas[ci][k], cases[ci][0], cases[ci][k]); key != "" {
						c.Violation(key, map[string]interface{}{"input": cases[ci][0], "config": metas[ci][k]})
						continue
					}
					c.Violation("css:"+metas[ci][k]+":"+cases[ci][0], map[string]interface{}{"kind": "computed styles differ between input and output", "config": metas[ci][k], "input": cases[ci][0], "output": cases[ci][k], "diff": c12Diff(obs[0], obs[k], props)})
				}
			}
		}
	})
	if os.Getenv("VERIF_DEBUG") != "" {
		fmt.Fprintf(os.Stderr, "C12 sheets phase done at %v\n", time.Since(c12T0))
	}
	c12Environments(c, pool)
	c12Imports(c, pool)
	c12Modules(c, pool)
	c12Colors(c, pool)
	if os.Getenv("VERIF_DEBUG") != "" {
		fmt.Fprintf(os.Stderr, "C12 imports phase done at %v\n", time.Since(c12T0))
	}
	if len(sheets) > 0 {
		c.Sample(map[string]string{"sheet": sheets[len(sheets)/3]})
		c.Sample(map[string]string{"sheet": sheets[2*len(sheets)/3]})
	}
}

// @import graphs: native loading by Chrome through file:// URLs vs the bundled sheet
func c12Imports(c *Check, pool *NodePool) {
	root := scratchRoot("c12")
	defer os.RemoveAll(root)
	type ig struct {
		name  string
		files map[string]string
	}
	graphs := []ig{
		{"chain", map[string]string{"entry.css": "@import './a.css'; .a { color: red }", "a.css": "@import './b.css'; .a { color: blue; margin: 1px }", "b.css": ".a { color: green; margin: 2px; padding: 3px }"}},
		{"diamond-later-duplicate-wins", map[string]string{"entry.css": "@import './a.css'; @import './b.css'; @import './a.css';", "a.css": ".a { color: red }", "b.css": ".a { color: blue }"}},
		{"diamond-shared", map[string]string{"entry.css": "@import './a.css'; @import './b.css';", "a.css": "@import './shared.css'; .a { color: red }", "b.css": "@import './shared.css'; .b { color: blue }", "shared.css": ".a, .b { color: green; margin: 5px }"}},
		{"cycle", map[string]string{"entry.css": "@import './a.css'; .a { margin: 1px }", "a.css": "@import './b.css'; .a { color: red }", "b.css": "@import './a.css'; .a { color: blue }"}},
		{"conditional-media", map[string]string{"entry.css": "@import './a.css' (min-width: 500px); @import './b.css' print; .a { margin: 1px }", "a.css": ".a { color: red }", "b.css": ".a { color: blue }"}},
		{"conditional-supports", map[string]string{"entry.css": "@import './a.css' supports(display: grid); @import './b.css' supports(unknown: x); .a { margin: 1px }", "a.css": ".a { color: red }", "b.css": ".a { color: blue }"}},
		{"layered", map[string]string{"entry.css": "@import './a.css' layer(one); @import './b.css' layer(two); @import './c.css' layer(one); .a { padding: 1px }", "a.css": ".a { color: red; margin: 1px }", "b.css": ".a { color: blue; margin: 2px }", "c.css": ".a { color: green }"}},
		{"layer-order-first-declaration", map[string]string{"entry.css": "@layer two, one; @import './a.css' layer(one); @import './b.css' layer(two);", "a.css": ".a { color: red }", "b.css": ".a { color: blue }"}},
		{"anonymous-layer", map[string]string{"entry.css": "@import './a.css' layer; @import './b.css' layer; .a { margin: 1px }", "a.css": ".a { color: red }", "b.css": ".a { color: blue }"}},
		{"nested-conditions", map[string]string{"entry.css": "@import './a.css' layer(x) supports(display: grid) (min-width: 500px);", "a.css": "@import './b.css' (max-width: 2000px); .a { color: red }", "b.css": ".a { color: blue; margin: 3px }"}},
		{"same-file-different-conditions", map[string]string{"entry.css": "@import './a.css' (min-width: 500px); @import './a.css' (max-width: 499px); @import './b.css';", "a.css": ".a { color: red }", "b.css": ".b { color: blue }"}},
		{"charset-and-layers-before-imports", map[string]string{"entry.css": "@charset \"UTF-8\"; @layer base; @import './a.css' layer(base); .a::before { content: 'é' }", "a.css": ".a { color: red }"}},
		{"import-in-middle-invalid", map[string]string{"entry.css": ".a { color: red } @import './a.css';", "a.css": ".a { color: blue }"}},
		{"subdirectory-urls", map[string]string{"entry.css": "@import './sub/a.css';", "sub/a.css": "@import '../b.css'; .a { color: red }", "b.css": ".a { margin: 4px }"}},
	}
	type filesCase struct {
		Files  map[string]string `json:"files"`
		Links  []string          `json:"links"`
		Inline []string          `json:"inline"`
	}
	for gi, g := range graphs {
		dir := filepath.Join(root, fmt.Sprintf("g%d", gi))
		writeTree(dir, g.files)
		var inline, names []string
		for _, minify := range []bool{false, true} {
			r := api.Build(api.BuildOptions{EntryPoints: []string{filepath.Join(dir, "entry.css")}, Bundle: true, Write: false, LogLevel: api.LogLevelSilent, Outdir: filepath.Join(dir, "out"), MinifySyntax: minify, MinifyWhitespace: minify})
			c.Eval(1)
			if len(r.Errors) > 0 {
				c.Sub("import_graph_build_error", 1)
				continue
			}
			inline = append(inline, string(r.OutputFiles[0].Contents))
			names = append(names, fmt.Sprintf("minify=%v", minify))
			c.Distinct(string(r.OutputFiles[0].Contents))
		}
		if len(inline) == 0 {
			continue
		}
		var resp chromeResp
		pool.Get(0).Call(map[string]interface{}{"op": "files", "cases": []filesCase{{g.files, []string{"entry.css"}, inline}}}, &resp)
		if resp.InfraError != "" || len(resp.R) != 1 {
			fatalf("chrome files failed: %s", resp.InfraError)
		}
		obs := resp.R[0]
		for k := 1; k < len(obs); k++ {
			c.Sub("import_graph_comparisons", 1)
			if !c12Equal(obs[0], obs[k]) {
				c.Violation("css-import:"+g.name+":"+names[k-1], map[string]interface{}{"kind": "bundled @import graph renders differently from native loading", "graph": g.name, "config": names[k-1], "files": g.files, "bundle": inline[k-1], "diff": c12Diff(obs[0], obs[k], nil)})
			}
		}
	}
}

func init() { register("C12", "exploration", runC12) }
