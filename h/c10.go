package main

// C10: code splitting shares modules correctly across chunks.

import (
	"fmt"
	"os"
	"path/filepath"
	"regexp"
	"sort"
	"strings"

	"github.com/evanw/esbuild/pkg/api"
)

type splitGraph struct {
	k, m     int
	inc      [][]int // inc[entry][shared] = 0 none, 1 static, 2 dynamic, 3 re-export, 4 side-effect-only, 5 export star, 6 export star through a re-exporting intermediate module
	sharedTo [][]int // sharedTo[i][j] = 1 if shared i statically imports shared j (i<j)
	entryDep int     // if >=0: entry 0 also imports entry entryDep (an entry point that is also a dependency)
}

func (g *splitGraph) String() string {
	return fmt.Sprintf("k=%d m=%d inc=%v shared=%v entryDep=%d", g.k, g.m, g.inc, g.sharedTo, g.entryDep)
}

func (g *splitGraph) files() map[string]string {
	f := map[string]string{}
	for j := 0; j < g.m; j++ {
		id := fmt.Sprintf("s%d", j+1)
		var src []string
		for t := j + 1; t < g.m; t++ {
			if g.sharedTo[j][t] == 1 {
				tid := fmt.Sprintf("s%d", t+1)
				src = append(src, fmt.Sprintf("import {name as %sname, inc as %sinc} from './%s.js';", tid, tid, tid))
			}
		}
		src = append(src, fmt.Sprintf("log('%s:start');", id))
		src = append(src, "export let count = 0;")
		src = append(src, fmt.Sprintf("export function inc(by) { count++; log(by + ': %s.inc -> ' + count); return count; }", id))
		src = append(src, fmt.Sprintf("export const name = '%s';", id))
		src = append(src, "const helper = () => name + '!'; export function shout() { return helper(); }")
		for t := j + 1; t < g.m; t++ {
			if g.sharedTo[j][t] == 1 {
				tid := fmt.Sprintf("s%d", t+1)
				src = append(src, fmt.Sprintf("log('%s: sees %s.name', %sname); %sinc('%s');", id, tid, tid, tid, id))
			}
		}
		src = append(src, fmt.Sprintf("log('%s:end');", id))
		f[id+".js"] = strings.Join(src, "\n") + "\n"
	}
	for i := 0; i < g.k; i++ {
		id := fmt.Sprintf("e%d", i+1)
		var imports, body []string
		for j := 0; j < g.m; j++ {
			sid := fmt.Sprintf("s%d", j+1)
			switch g.inc[i][j] {
			case 1:
				imports = append(imports, fmt.Sprintf("import {inc as inc%d, count as count%d, name as name%d, shout as shout%d} from './%s.js';", j, j, j, j, sid))
				body = append(body, fmt.Sprintf("log('%s: %s.name', name%d, shout%d()); inc%d('%s'); log('%s: %s.count', count%d);", id, sid, j, j, j, id, id, sid, j))
				body = append(body, fmt.Sprintf("export function peek%d() { return count%d; }", j, j))
			case 2:
				body = append(body, fmt.Sprintf("const dyn%d = await import('./%s.js'); log('%s: dyn %s.name', dyn%d.name); dyn%d.inc('%s'); log('%s: dyn %s.count', dyn%d.count);", j, sid, id, sid, j, j, id, id, sid, j))
			case 3:
				imports = append(imports, fmt.Sprintf("export {name as %sname, inc as %sinc} from './%s.js';", sid, sid, sid))
			case 4:
				imports = append(imports, fmt.Sprintf("import './%s.js';", sid))
			case 5:
				// export star straight from the shared module (names that several stars provide are ambiguous
				// and disappear from the entry's surface natively and in the bundle alike)
				imports = append(imports, fmt.Sprintf("export * from './%s.js';", sid))
			case 6:
				// export star through a private intermediate module that re-exports the shared bindings
				mid := fmt.Sprintf("mid_%s_%s", id, sid)
				imports = append(imports, fmt.Sprintf("export * from './%s.js';", mid))
				f[mid+".js"] = fmt.Sprintf("export {count as %s_%scount, inc as %s_%sinc} from './%s.js';\nexport const %s_tag = '%s';\n", id, sid, id, sid, sid, mid, mid)
			}
		}
		if i == 0 && g.entryDep > 0 {
			imports = append(imports, fmt.Sprintf("import {id as depId} from './e%d.js';", g.entryDep+1))
			body = append(body, fmt.Sprintf("log('%s: dep entry id', depId);", id))
		}
		src := append([]string{}, imports...)
		src = append(src, fmt.Sprintf("log('%s:start');", id))
		src = append(src, fmt.Sprintf("export const id = '%s'; const name = 'local-%s'; let count = -1;", id, id))
		src = append(src, body...)
		src = append(src, fmt.Sprintf("log('%s: locals', name, count);", id))
		src = append(src, fmt.Sprintf("log('%s:end');", id))
		f[id+".js"] = strings.Join(src, "\n") + "\n"
	}
	f["package.json"] = `{"type":"module"}`
	return f
}

func enumSplitGraphs(tier string) []*splitGraph {
	var out []*splitGraph
	type km struct{ k, m int }
	kms := []km{{2, 1}, {2, 2}, {3, 1}, {3, 2}, {2, 3}}
	if tier != "quick" {
		kms = append(kms, km{3, 3})
	}
	kinds := 7
	for _, x := range kms {
		cells := x.k * x.m
		total := 1
		for i := 0; i < cells; i++ {
			total *= kinds
		}
		step := 1
		if tier == "quick" && total > 300 {
			step = total/300 + 1
		} else if tier != "quick" && total > 8000 {
			step = total/8000 + 1
		}
		for idx := 0; idx < total; idx += step {
			g := &splitGraph{k: x.k, m: x.m, entryDep: -1}
			j := idx
			used := make([]bool, x.m)
			tla := 0
			for i := 0; i < x.k; i++ {
				row := make([]int, x.m)
				for s := 0; s < x.m; s++ {
					row[s] = j % kinds
					j /= kinds
					if row[s] != 0 {
						used[s] = true
					}
					if row[s] == 2 {
						tla++
					}
				}
				g.inc = append(g.inc, row)
			}
			ok := true
			for _, u := range used {
				if !u {
					ok = false
				}
			}
			if !ok {
				continue
			}
			g.sharedTo = make([][]int, x.m)
			for s := range g.sharedTo {
				g.sharedTo[s] = make([]int, x.m)
			}
			out = append(out, g)
			// variants: shared chain, entry that is also a dependency
			if x.m >= 2 && idx%3 == 0 {
				g2 := *g
				g2.sharedTo = make([][]int, x.m)
				for s := range g2.sharedTo {
					g2.sharedTo[s] = make([]int, x.m)
				}
				g2.sharedTo[0][1] = 1
				if x.m == 3 {
					g2.sharedTo[1][2] = 1
				}
				out = append(out, &g2)
			}
			if idx%4 == 1 {
				g3 := *g
				g3.entryDep = 1
				out = append(out, &g3)
			}
		}
	}
	return out
}

var c10ImportRe = regexp.MustCompile(`(?m)(?:^|[;\n}])\s*(?:import|export)\s*(?:[^"'();]*?\bfrom\s*)?["'](\.[^"']+)["']`)
var c10DynRe = regexp.MustCompile(`import\(\s*["'](\.[^"']+)["']\s*\)`)

func groupLines(log []string) map[string][]string {
	g := map[string][]string{}
	for _, l := range log {
		t := strings.Trim(l, "\"")
		if strings.HasPrefix(t, "LOAD ") {
			continue
		}
		id := t
		if i := strings.Index(t, ":"); i > 0 {
			id = t[:i]
		}
		g[id] = append(g[id], l)
	}
	return g
}

func permsOfSubsets(k int) [][]int {
	var out [][]int
	var rec func(cur []int, used int)
	rec = func(cur []int, used int) {
		if len(cur) > 0 {
			out = append(out, append([]int{}, cur...))
		}
		for i := 0; i < k; i++ {
			if used&(1<<uint(i)) == 0 {
				rec(append(cur, i), used|1<<uint(i))
			}
		}
	}
	rec(nil, 0)
	return out
}

type c10Cfg struct {
	name       string
	minify     bool
	entryNames string
	chunkNames string
}

var c10Cfgs = []c10Cfg{
	{"default", false, "", ""},
	{"minify", true, "", ""},
	{"templates", false, "[dir]/[name]-[hash]", "x/[hash]"},
}

func runC10(c *Check) {
	c.Rule = "k in {2,3} entry points x m<=3 shared modules, every incidence matrix over {none, static import, dynamic import, re-export, side-effect import, export star, export star through a re-exporting intermediate module} (up to a stride in the quick tier), shared-module chains, an entry that is also a dependency; built with splitting x {default, minify, name templates}; every non-empty subset and order of entry points is loaded into one realm from the emitted files and compared with native loading of the sources in the same order: per-module log subsequences (each body once, own effects in order, initialised bindings, shared state), entry export surfaces, no errors; static: chunk import graph acyclic, referenced files exist; distinct = distinct native logs"
	c.Assump = []string{"Node 20 native ESM loading of the unbundled sources in the same order is the reference", "the relative order of top-level code of different modules is not compared (documented limitation of splitting)", "public path builds are not executed"}
	pool := NewNodePool("")
	defer pool.Close()
	root := scratchRoot("c10")
	defer os.RemoveAll(root)
	graphs := enumSplitGraphs(c.Tier)
	c.Set("graphs", len(graphs))
	c.ForEach(uint64(len(graphs)), func(w int, gi uint64) {
		g := graphs[gi]
		dir := filepath.Join(root, fmt.Sprintf("g%d", gi))
		files := g.files()
		writeTree(dir, files)
		defer os.RemoveAll(dir)
		var entries, entryFiles []string
		for i := 0; i < g.k; i++ {
			entries = append(entries, filepath.Join(dir, fmt.Sprintf("e%d.js", i+1)))
			entryFiles = append(entryFiles, fmt.Sprintf("e%d.js", i+1))
		}
		orders := permsOfSubsets(g.k)
		for ci, cfg := range c10Cfgs {
			if c.Tier == "quick" && ci > 0 && (int(gi)+ci)%3 != 0 {
				continue
			}
			r := api.Build(api.BuildOptions{EntryPoints: entries, Bundle: true, Splitting: true, Format: api.FormatESModule, Outdir: filepath.Join(dir, "out"), Write: false, LogLevel: api.LogLevelSilent,
				MinifySyntax: cfg.minify, MinifyIdentifiers: cfg.minify, MinifyWhitespace: cfg.minify, EntryNames: cfg.entryNames, ChunkNames: cfg.chunkNames, Engines: []api.Engine{{Name: api.EngineNode, Version: "20.20.2"}}, AbsWorkingDir: dir, Outbase: dir})
			c.Eval(1)
			if len(r.Errors) > 0 {
				c.Violation("split-build:"+g.String(), map[string]interface{}{"kind": "splitting build failed", "graph": g.String(), "errors": jsonStr(r.Errors)})
				continue
			}
			outFiles := map[string]string{"package.json": `{"type":"module"}`}
			entryOut := make([]string, g.k)
			for _, f := range r.OutputFiles {
				rel, _ := filepath.Rel(filepath.Join(dir, "out"), f.Path)
				outFiles[rel] = string(f.Contents)
			}
			// map entry -> output path: find by name prefix
			for i := 0; i < g.k; i++ {
				base := fmt.Sprintf("e%d", i+1)
				for rel := range outFiles {
					b := filepath.Base(rel)
					if b == base+".js" || strings.HasPrefix(b, base+"-") {
						entryOut[i] = rel
					}
				}
				if entryOut[i] == "" {
					c.Violation("split-entry-missing:"+g.String(), map[string]interface{}{"kind": "no output file for entry point", "graph": g.String(), "entry": base, "outputs": keysSorted(outFiles)})
					return
				}
			}
			// static checks
			staticEdges := map[string][]string{}
			for rel, code := range outFiles {
				if !strings.HasSuffix(rel, ".js") {
					continue
				}
				for _, m := range c10ImportRe.FindAllStringSubmatch(code, -1) {
					target := filepath.Clean(filepath.Join(filepath.Dir(rel), m[1]))
					if _, ok := outFiles[target]; !ok {
						c.Violation("split-dangling:"+cfg.name+":"+g.String(), map[string]interface{}{"kind": "output references a chunk that was not emitted", "graph": g.String(), "config": cfg.name, "from": rel, "to": target, "outputs": keysSorted(outFiles)})
					}
					staticEdges[rel] = append(staticEdges[rel], target)
				}
				for _, m := range c10DynRe.FindAllStringSubmatch(code, -1) {
					target := filepath.Clean(filepath.Join(filepath.Dir(rel), m[1]))
					if _, ok := outFiles[target]; !ok {
						c.Violation("split-dangling-dyn:"+cfg.name+":"+g.String(), map[string]interface{}{"kind": "output dynamically imports a chunk that was not emitted", "graph": g.String(), "config": cfg.name, "from": rel, "to": target})
					}
				}
			}
			if cyc := findCycle(staticEdges); cyc != nil {
				c.Violation("split-cycle:"+cfg.name+":"+g.String(), map[string]interface{}{"kind": "static import cycle between emitted chunks", "graph": g.String(), "config": cfg.name, "cycle": cyc})
			}
			// dynamic checks: every subset and order of entries
			var cases []graphCase
			for _, ord := range orders {
				var nat, spl []string
				for _, e := range ord {
					nat = append(nat, entryFiles[e])
					spl = append(spl, entryOut[e])
				}
				cases = append(cases, graphCase{Files: files, Entry: nat[0], How: "import-many"})
				cases = append(cases, graphCase{Files: outFiles, Entry: spl[0], How: "import-many"})
				_ = nat
			}
			// entries lists travel in a parallel slice (graphCase has no field for it): encode via Observe
			for oi, ord := range orders {
				var nat, spl []string
				for _, e := range ord {
					nat = append(nat, entryFiles[e])
					spl = append(spl, entryOut[e])
				}
				cases[2*oi].Observe = nat
				cases[2*oi+1].Observe = spl
			}
			res := nodeGraphMany(pool.Get(w), cases)
			for oi, ord := range orders {
				n, s := res[2*oi], res[2*oi+1]
				c.Sub("entry_orders_loaded", 1)
				c.Distinct(strings.Join(n.Log, "\n"))
				label := fmt.Sprintf("%s order=%v cfg=%s", g.String(), ord, cfg.name)
				if (n.Err == nil) != (s.Err == nil) || (n.Err != nil && *n.Err != *s.Err) {
					c.Violation("split-error:"+label, map[string]interface{}{"kind": "split build throws differently from native loading", "case": label, "native": n.String(), "split": s.String(), "files": files, "outputs": outFiles})
					continue
				}
				gn, gs := groupLines(n.Log), groupLines(s.Log)
				bad := ""
				for id, lines := range gn {
					if strings.Join(lines, "\n") != strings.Join(gs[id], "\n") {
						bad = id
					}
				}
				for id := range gs {
					if _, ok := gn[id]; !ok {
						bad = id
					}
				}
				if bad == "" {
					// surfaces: same keys/values per entry (paths differ, so compare the values only)
					if c10SurfaceValues(n.Surface, entryFiles) != c10SurfaceValues(s.Surface, entryOut) {
						bad = "surface"
					}
				}
				if bad != "" {
					c.Violation("split:"+label, map[string]interface{}{"kind": "split build behaves differently from native loading (module " + bad + ")", "case": label, "native": n.String(), "split": s.String(), "files": files, "outputs": outFiles})
				}
			}
		}
	})
	c.Sample(map[string]interface{}{"graph": graphs[len(graphs)/2].String(), "files": graphs[len(graphs)/2].files()})
	c10TwinModules(c, pool)
}

// c10TwinModules: two different modules with byte-identical text (copies of one file in two directories), each shared by
// its own pair of entry points, each with its own state. Under name templates without [hash] and whitespace
// minification their shared chunks get the same path and the same bytes: the build must either report the collision or
// keep two module instances; all chunk/entry name templates x minify x load orders, against native loading.
func c10TwinModules(c *Check, pool *NodePool) {
	root := scratchRoot("c10t")
	defer os.RemoveAll(root)
	counter := "export const state = { n: 0 };\nlog('init counter');\n"
	files := map[string]string{"x/counter.mjs": counter, "y/counter.mjs": counter}
	for _, e := range []struct{ name, dir string }{{"a", "x"}, {"b", "x"}, {"c", "y"}, {"d", "y"}} {
		files[e.name+".mjs"] = "import { state } from './" + e.dir + "/counter.mjs';\nstate.n++;\nlog('" + e.name + "', state.n);\n"
	}
	orders := [][]string{{"a", "c"}, {"c", "a"}, {"a", "b", "c", "d"}, {"d", "a", "c", "b"}}
	writeTree(root, files)
	for _, chunkNames := range []string{"", "[name]", "chunks/[name]", "[name]-[hash]", "[hash]"} {
		for _, minify := range []bool{false, true} {
			r := api.Build(api.BuildOptions{AbsWorkingDir: root, EntryPoints: []string{"a.mjs", "b.mjs", "c.mjs", "d.mjs"}, Bundle: true, Splitting: true, Format: api.FormatESModule, Write: false,
				Outdir: "out", OutExtension: map[string]string{".js": ".mjs"}, ChunkNames: chunkNames, MinifyWhitespace: minify, LogLevel: api.LogLevelSilent})
			c.Eval(1)
			if len(r.Errors) > 0 {
				c.Sub("twin_modules_collision_reported", 1)
				continue
			}
			out := map[string]string{}
			for _, f := range r.OutputFiles {
				rel, _ := filepath.Rel(filepath.Join(root, "out"), f.Path)
				out[filepath.ToSlash(rel)] = string(f.Contents)
			}
			for _, ord := range orders {
				drv := ""
				for _, e := range ord {
					drv += "await import('./" + e + ".mjs');\n"
				}
				nat := map[string]string{"driver.mjs": drv}
				for k, v := range files {
					nat[k] = v
				}
				bun := map[string]string{"driver.mjs": drv}
				for k, v := range out {
					bun[k] = v
				}
				res := nodeGraph(pool.Get(0), []graphCase{{Files: nat, Entry: "driver.mjs", How: "import"}, {Files: bun, Entry: "driver.mjs", How: "import"}})
				c.Sub("twin_module_cases", 1)
				if strings.Join(res[0].Log, "\n") != strings.Join(res[1].Log, "\n") || (res[0].Err == nil) != (res[1].Err == nil) {
					c.Violation(fmt.Sprintf("twin-modules:chunk-names=%q:minify-whitespace=%v:%s", chunkNames, minify, strings.Join(ord, ",")), map[string]interface{}{"kind": "two modules with identical text do not keep separate instances in the split build",
						"chunk_names": chunkNames, "minify_whitespace": minify, "load_order": ord, "native": res[0].String(), "split": res[1].String(), "outputs": keysSorted(out)})
				}
			}
		}
	}
}

func c10SurfaceValues(s *string, names []string) string {
	if s == nil {
		return ""
	}
	out := *s
	for i, n := range names {
		out = strings.ReplaceAll(out, n+"=", fmt.Sprintf("E%d=", i))
	}
	// entry order inside the surface follows sorted keys: normalise by sorting parts
	parts := strings.Split(out, ";")
	sort.Strings(parts)
	return strings.Join(parts, ";")
}

func keysSorted(m map[string]string) []string {
	var k []string
	for x := range m {
		k = append(k, x)
	}
	sort.Strings(k)
	return k
}

func findCycle(edges map[string][]string) []string {
	state := map[string]int{}
	var stack []string
	var found []string
	var dfs func(n string) bool
	dfs = func(n string) bool {
		state[n] = 1
		stack = append(stack, n)
		for _, t := range edges[n] {
			if state[t] == 1 {
				found = append(append([]string{}, stack...), t)
				return true
			}
			if state[t] == 0 && dfs(t) {
				return true
			}
		}
		stack = stack[:len(stack)-1]
		state[n] = 2
		return false
	}
	var keys []string
	for k := range edges {
		keys = append(keys, k)
	}
	sort.Strings(keys)
	for _, k := range keys {
		if state[k] == 0 && dfs(k) {
			return found
		}
	}
	return nil
}

// nodeGraphMany: like nodeGraph but the entry list of an "import-many" case travels in Observe.
func nodeGraphMany(n *Node, cases []graphCase) []graphRes {
	type manyCase struct {
		Files   map[string]string `json:"files"`
		Entry   string            `json:"entry"`
		How     string            `json:"how"`
		Entries []string          `json:"entries"`
	}
	var mc []manyCase
	for _, cs := range cases {
		mc = append(mc, manyCase{cs.Files, cs.Entry, cs.How, cs.Observe})
	}
	var resp graphResp
	n.Call(map[string]interface{}{"op": "graph", "cases": mc}, &resp)
	if resp.InfraError != "" || len(resp.R) != len(cases) {
		fatalf("graph op failed: %s", resp.InfraError)
	}
	return resp.R
}

func init() { register("C10", "exploration", runC10) }
