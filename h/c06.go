package main

// C06: TypeScript types are erased without runtime effect.

import (
	"fmt"
	"regexp"
	"strings"
	"time"

	"github.com/evanw/esbuild/pkg/api"
)

// Type positions: ⟦…⟧ delimits type-level syntax (deleted in the untyped twin); %T = type form,
// %R = return-position type form. "ts" marks positions valid only in .ts (not .tsx).
type c06Pos struct {
	tpl  string
	only string // "" | "ts" | "module"
}

var c06Positions = []c06Pos{
	{"let x⟦: %T⟧ = a; x;", ""},
	{"let x⟦!⟧⟦: %T⟧; x;", ""},
	{"var x⟦: %T⟧, y⟦: %T⟧ = a; [x, y];", ""},
	{"const {p, q}⟦: %T⟧ = a, [r]⟦: %T⟧ = b; [p, q, r];", ""},
	{"function f(p⟦: %T⟧, q⟦?⟧⟦: %T⟧, ...r⟦: %T⟧)⟦: %R⟧ { return p } f;", ""},
	{"function f(⟦this: %T, ⟧p) { return p } f;", ""},
	{"function f(⟦this: %T⟧) { return this } f;", ""},
	{"function f⟦<U extends %T = %T, V = U>⟧(x⟦: U⟧, y⟦?: V⟧) { return x } f;", ""},
	{"⟦function ov(x: %T): void;⟧\n⟦function ov(x: %T, y: number): %R;⟧\nfunction ov(x⟦?: any⟧, y⟦?: any⟧) {} ov;", ""},
	{"const g = (p⟦: %T⟧)⟦: %A⟧ => p; g;", ""},
	{"const g = async (p⟦: %T⟧, q⟦?: %T⟧)⟦: Promise<%T>⟧ => p; g;", ""},
	{"const g = ⟦<U,>⟧(p⟦: U⟧)⟦: %A⟧ => p; g;", ""},
	{"const g = ⟦<U extends %T>⟧(p⟦: U⟧) => p; g;", ""},
	{"const g = async ⟦<U,>⟧(p⟦: U⟧) => p; g;", ""},
	{"const g = function⟦<U>⟧(x⟦: U⟧)⟦: %R⟧ { return x }; g;", ""},
	{"const g = p⟦: %T⟧ => p; g;", "never"},
	{"let r = a ? (x)⟦: %A⟧ => x : b; r;", ""},
	{"let r = a ? (x⟦: %T⟧) => x : (y⟦?: %T⟧) => y; r;", ""},
	{"let o = { m⟦<U>⟧(x⟦: U⟧)⟦: %R⟧ { return x }, get g()⟦: %T⟧ { return 1 }, set s(v⟦: %T⟧) {}, async *n(x⟦?: %T⟧)⟦: any⟧ {} }; o;", ""},
	{"class C⟦<U, V extends %T = %T>⟧ { x⟦: %T⟧ = 1; y⟦?⟧⟦: %T⟧; z⟦!⟧⟦: %T⟧; m()⟦: %R⟧ {} } C;", ""},
	{"class C ⟦implements I, J<%T>⟧ {} C;", ""},
	{"class C extends B⟦<%T>⟧ ⟦implements I⟧ {} C;", ""},
	{"class C { ⟦private ⟧x = 1; ⟦protected ⟧y = 2; ⟦public ⟧z = 3; ⟦readonly ⟧w = 4; ⟦private readonly ⟧v = 5; ⟦public ⟧static s = 6; static ⟦readonly ⟧t = 7; ⟦override ⟧m() {} ⟦private ⟧static ⟦override ⟧n() {} ⟦protected ⟧get g() { return 1 } ⟦public ⟧async *a() {} } C;", ""},
	{"class C { ⟦declare x: %T;⟧ ⟦declare static y: %T;⟧ ⟦declare readonly z: %T;⟧ w = 1 } C;", ""},
	{"class C { ⟦[k: string]: %T;⟧ ⟦static [k: number]: %T;⟧ ⟦readonly [k: string]: %T;⟧ x = 1 } C;", ""},
	{"⟦abstract ⟧class C { ⟦abstract m(): %R;⟧ ⟦abstract x: %T;⟧ ⟦protected abstract get g(): %T;⟧ ⟦abstract set s(v: %T);⟧ n() {} } C;", ""},
	{"class C { ⟦m(x: %T): void;⟧ ⟦m(x: %T, y: any): %R;⟧ m(x⟦?: any⟧, y⟦?: any⟧) {} ⟦constructor(x: %T);⟧ constructor(x⟦?: any⟧) {} } C;", ""},
	{"class C { constructor(x⟦: %T⟧, y⟦?: %T⟧) {} m⟦<U>⟧(x⟦?: U⟧)⟦: %R⟧ {} n⟦?⟧() {} static o⟦<U>⟧() {} get g()⟦: %T⟧ { return 1 } set s(v⟦: %T⟧) {} } C;", ""},
	{"class C { #p⟦: %T⟧ = 1; static #q⟦?: %T⟧; accessor r⟦: %T⟧ = 2; m() { return this.#p⟦!⟧ } } C;", ""},
	{"let K = class⟦<U>⟧ ⟦implements I⟧ { x⟦: U⟧ }; K;", ""},
	{"f⟦<%T>⟧(a);", ""},
	{"f⟦<%T, %T>⟧(a, b);", ""},
	{"f⟦<%T>⟧?.(a); a?.f⟦<%T>⟧(b); a.b⟦<%T>⟧(c);", ""},
	{"new C⟦<%T>⟧(a); new C⟦<%T>⟧; new a.B⟦<%T>⟧(c);", ""},
	{"tag⟦<%T>⟧`x${a}`; a.tag⟦<%T>⟧`x`;", ""},
	{"const g = f⟦<%T>⟧; g;", ""},
	{"const g = f⟦<%T>⟧\nh;", ""},
	{"let x = a⟦ as %T⟧; x;", ""},
	{"let x = a⟦ as any as %T⟧; x;", ""},
	{"let x = a⟦ satisfies %T⟧; x;", ""},
	{"let x = (a⟦ as %T⟧).b; (a⟦ satisfies %T⟧)(); [a⟦ as %T⟧, b]; x;", ""},
	{"let x = a⟦ as %T⟧ ? b : c; let y = (a⟦ as %T⟧) + b; let z = a⟦ as const⟧; [x, y, z];", ""},
	{"(a⟦ as %T⟧) = b; (a⟦ as any⟧).b = c; (a⟦!⟧) = d; for ((a⟦ as %T⟧) of b) ; ", ""},
	{"let x = ⟦<%T>⟧a; x;", "ts"},
	{"let x = ⟦<%T>⟧⟦<any>⟧a.b; x;", "ts"},
	{"let x = a⟦!⟧; a⟦!⟧.b; a⟦!⟧[0]; a⟦!⟧(); a⟦!⟧++; a.b⟦!⟧.c; a?.b⟦!⟧.c; a?.b⟦!⟧[0]; a⟦!⟧?.b; a⟦!⟧⟦!⟧; x;", ""},
	{"let x = a⟦!⟧ + b⟦!⟧; let y = a⟦!⟧ ? b⟦!⟧ : c⟦!⟧; let z = [a⟦!⟧, ...b⟦!⟧]; [x, y, z];", ""},
	{"try { a } catch (e⟦: unknown⟧) { e } try { a } catch (e⟦: any⟧) { e }", ""},
	{"⟦interface I { x: %T; m(): %R; readonly [k: string]: any }⟧\na;", ""},
	{"⟦interface I<U extends %T> extends J<%T>, K { new (x: %T): I<U>; (y: %T): void; get g(): %T; set s(v: %T) }⟧\na;", ""},
	{"⟦type A = %T;⟧\na;", ""},
	{"⟦type A<U extends %T = %T> = U | %T;⟧\na;", ""},
	{"a\n⟦type A = %T⟧\nb", ""},
	{"a\n⟦interface I {}⟧\nb", ""},
	{"⟦declare const d: %T;⟧\n⟦declare let e: %T, f: %T;⟧\n⟦declare var v: %T;⟧\na;", ""},
	{"⟦declare function df<U>(x: %T, ...r: %T[]): %R;⟧\n⟦declare async function af(): Promise<%T>;⟧\na;", ""},
	{"⟦declare class DC<U> extends B<%T> implements I { x: %T; static y: %T; m(): %R; constructor(x: %T); private z; }⟧\n⟦declare abstract class AC { abstract m(): %R }⟧\na;", ""},
	{"⟦declare namespace NS { let x: %T; function f(): %R; class C {} namespace Inner { const y: %T } }⟧\n⟦declare module M { export let x: %T }⟧\na;", ""},
	{"⟦declare enum DE { A, B = 2 }⟧\n⟦declare const enum DCE { A = 'a' }⟧\na;", ""},
	{"⟦declare module 'mod' { export let x: %T; export default function f(): %R; }⟧\n⟦declare module 'mod2';⟧\na;", ""},
	{"⟦declare global { interface Window { x: %T } var g: %T }⟧\nexport {};", "module"},
	{"⟦namespace TypeOnly { export interface I { x: %T } export type A = %T }⟧\na;", ""},
	{"⟦import type { TT } from './t';⟧\n⟦import type DT from './t';⟧\n⟦import type * as NT from './t';⟧\na;", "module"},
	{"import { ⟦type A1, ⟧b1⟦, type C1 as D1⟧ } from './m'; b1;", "module"},
	{"import { ⟦type A1, ⟧b1 } from './m'; export { b1⟦, type A1⟧ };", "module"},
	{"⟦export type { TT };⟧\n⟦export type { TT as UU } from './t';⟧\n⟦export type * from './t';⟧\n⟦export type * as NS from './t';⟧\nexport let v = 1;", "module"},
	{"⟦export type ET<U> = %T;⟧\n⟦export interface EI { x: %T }⟧\n⟦export declare const q: %T;⟧\n⟦export declare function edf(): %R;⟧\n⟦export abstract class_ { }⟧export let v = 1;", "never"},
	{"⟦export type ET<U> = %T;⟧\n⟦export interface EI { x: %T }⟧\n⟦export declare const q: %T;⟧\n⟦export declare function edf(): %R;⟧\nexport let v = 1;", "module"},
	{"export default ⟦abstract ⟧class⟦<U>⟧ { x⟦: %T⟧ }", "module"},
	{"export default function⟦<U>⟧(x⟦: %T⟧)⟦: %R⟧ {}", "module"},
	{"⟦export default interface DI { x: %T }⟧\nexport let v = 1;", "module"},
	{"export const g = ⟦<U,>⟧(x⟦: U⟧)⟦: %A⟧ => x, h = (a⟦ as %T⟧);", "module"},
	{"let u = (a⟦ as %T⟧) < b; let v = a < (b⟦ as %T⟧); [u, v];", ""},
	{"for (let i⟦: %T⟧ = 0; i < 1; i++) ; for (const k in a⟦ as %T⟧) ; for (const v of a⟦ as %T⟧) ; for (var i2⟦: %T⟧ = 0, j2⟦: %T⟧ = 1;;) break;", ""},
	{"label: { let x⟦: %T⟧ = 1 } if (a) { ⟦type L = %T;⟧ } else { ⟦interface LI {}⟧ } switch (a) { case 1: ⟦type S = %T;⟧ break }", ""},
	{"function outer() { ⟦type L = %T;⟧\n⟦interface LI { x: %T }⟧\n⟦declare const ld: %T;⟧\nreturn a⟦ as L⟧ } outer;", ""},
	{"let fn = (⟦this: %T, ⟧x⟦?: %T⟧) => x; fn;", "never"},
	{"function* gen⟦<U>⟧(x⟦: %T⟧)⟦: Generator<%T>⟧ { yield x⟦ as any⟧ } async function af⟦<U>⟧()⟦: Promise<%T>⟧ { await (a⟦ as %T⟧) } [gen, af];", ""},
	{"let d1 = ({p, q}⟦: %T⟧, [r]⟦: %T⟧ = []⟦ as any⟧) => p; let d2 = function({p}⟦: {p: %T}⟧ = a⟦ as any⟧) {}; [d1, d2];", ""},
	{"let v1 = typeof a⟦ as any⟧; let v2 = void (a⟦ satisfies %T⟧); let v3 = `${a⟦ as %T⟧}`; let v4 = {k: a⟦ as %T⟧, [b⟦ as any⟧]: 1, ...c⟦ as %T⟧}; [v1, v2, v3, v4];", ""},
}

var c06Types = []string{
	"any", "string", "number[]", "Array<string>", "A | B", "| A | B", "A & B", "& A", "(A)", "() => void", "(x: number, ...r: any[]) => string", "new () => A", "abstract new (x: A) => B",
	"{ a: string; b?: number; readonly c: A; [k: string]: any; m(): void; get g(): A; set s(v: A); new (): A; (): A }", "{ a: 1, b: 2 }", "{ a: 1\n b: 2 }", "[A, B?, ...C[]]", "[a: A, b?: B, ...rest: C[]]", "readonly A[]", "readonly [A, B]",
	"unique symbol", "keyof A", "typeof a", "typeof a.b.c", "typeof import('x')", "import('x').Y<Z>", "import('x', { with: { 'resolution-mode': 'import' } }).Y", "A extends B ? C : D",
	"A extends (infer U extends V ? 1 : 2) ? U : never", "A extends infer U extends V ? U : never", "A extends [infer H, ...infer R] ? H : never", "A extends (infer U extends V) ? U : never",
	"A extends { a: infer U, b: infer U } ? U : never", "{ [K in keyof A]: A[K] }", "{ readonly [K in keyof A]?: A[K] }", "{ -readonly [K in keyof A]-?: A[K] }", "{ +readonly [K in A as `x${K}`]+?: 1 }",
	"`a${string}b`", "`${A}-${B}`", "`${infer_ extends string ? 1 : 2}`", "A[B]", "A[B][C]", "A['k']", "A[]['length']", "123", "-1", "\"s\"", "true", "null", "undefined", "void", "never", "unknown", "object", "symbol", "bigint", "1n", "-1n", "this",
	"A<B<C>>", "A<B<C<D>>>", "A<B<C>>[]", "Map<string, Array<number>>", "<T>(x: T) => T", "<const T>(x: T) => T", "<T extends A = B>() => T", "(A | B)[]", "A.B.C", "A.B<C>", "typeof a<b>", "typeof a.b<c, d>",
	"a extends b ? c : d extends e ? f : g", "(new () => A) | B", "{}", "[]", "() => () => void", "(a?: number) => void", "(this: A) => void", "({a, b}: A, [c]: B) => void", "(...args: any) => void",
	"A extends B ? (C extends D ? 1 : 2) : 3", "asserts", "is", "keyof typeof a", "A extends new (...args: any) => infer R ? R : any", "Promise<void>", "(typeof a)[number]", "{ a: A }['a']",
	"[...A, B]", "(x: A) => x is B", "(x: A) => asserts x is B", "(x: A) => asserts x", "new <T>() => T", "A<typeof a[0]>", "typeof this", "typeof this.x", "abstract", "declare", "type", "namespace", "module", "accessor",
}

var c06ReturnTypes = []string{"x is A", "asserts x is A", "asserts x", "this is A", "asserts this is A", "asserts this"}

// holes: a type form with %U replaced by another form (pairs nested once)
var c06Holes = []string{"%U[]", "A<%U>", "%U | B", "B & %U", "(x: %U) => %U", "{ a: %U }", "[%U, %U?]", "A extends (%U) ? %U : never", "{ [K in keyof %U]: %U }", "`${%U}`", "keyof %U", "readonly %U[]", "(%U)", "A<B, %U>", "%U extends A ? 1 : 2", "new () => %U", "Map<%U, %U>", "A<%U>[]", "(%U)[]", "[a: %U, ...b: %U[]]"}

func c06ArrowSafe(t string) string {
	// an arrow function's return type must not itself look like the start of an arrow function / function type
	if strings.Contains(t, "(") || strings.HasPrefix(t, "<") || strings.HasPrefix(t, "new") || strings.HasPrefix(t, "abstract") || strings.Contains(t, "=>") || strings.HasPrefix(t, "{") {
		return "A"
	}
	return t
}

func c06Expand(tpl, t, r string) (typed, untyped string) {
	if strings.Contains(tpl, "⟦<%T>⟧") && strings.HasPrefix(t, "<") {
		t = "A" // `<<T>(x) => T>expr`: the two `<` would be lexed as a shift operator
	}
	s := strings.ReplaceAll(strings.ReplaceAll(strings.ReplaceAll(tpl, "%A", c06ArrowSafe(t)), "%T", t), "%R", r)
	var ty, un strings.Builder
	depth := 0
	for _, ch := range s {
		switch ch {
		case '⟦':
			depth++
		case '⟧':
			depth--
		default:
			ty.WriteRune(ch)
			if depth == 0 {
				un.WriteRune(ch)
			}
		}
	}
	return ty.String(), un.String()
}

type c06Loader struct {
	name string
	l    api.Loader
	file string
}

var c06Loaders = []c06Loader{{"ts", api.LoaderTS, "in.ts"}, {"tsx", api.LoaderTSX, "in.tsx"}, {"mts", api.LoaderTS, "in.mts"}}

func c06Erase(c *Check) {
	forms := c06Types
	var nested []string
	holes := c06Holes
	if c.Tier == "quick" {
		holes = c06Holes[:4]
	}
	for _, h := range holes {
		for _, f := range forms {
			nested = append(nested, strings.ReplaceAll(h, "%U", f))
		}
	}
	allForms := append(append([]string{}, forms...), nested...)
	np := uint64(len(c06Positions))
	nf := uint64(len(allForms))
	c.Set("type_positions", np)
	c.Set("type_forms", len(forms))
	c.Set("nested_type_forms", len(nested))
	c.ForEach(np*nf, func(w int, i uint64) {
		pos := c06Positions[i%np]
		if pos.only == "never" {
			return
		}
		t := allForms[i/np]
		r := t
		if strings.Contains(pos.tpl, "%R") && (i/np)%4 == 1 {
			r = c06ReturnTypes[int(i/np/4)%len(c06ReturnTypes)]
		}
		typed, untyped := c06Expand(pos.tpl, t, r)
		for li, ld := range c06Loaders {
			if pos.only == "ts" && ld.name == "tsx" {
				continue
			}
			if c.Tier == "quick" && i/np >= uint64(len(forms)) && (int(i)+li)%3 != 0 {
				continue
			}
			opts := api.TransformOptions{Loader: ld.l, Sourcefile: ld.file}
			if ld.name == "tsx" {
				opts.JSX = api.JSXPreserve
			}
			o1, ok1, e1 := transformJS(typed, opts)
			o2, ok2, _ := transformJS(untyped, opts)
			c.Eval(1)
			if !ok2 {
				c.Sub("untyped_twin_rejected(generator)", 1)
				continue
			}
			if !ok1 {
				c.Violation("typed-rejected:"+ld.name+":"+typed, map[string]interface{}{"kind": "typed program rejected but its untyped twin is accepted", "loader": ld.name, "typed": typed, "untyped": untyped, "errors": jsonStr(e1)})
				continue
			}
			c.Distinct(o2)
			if o1 != o2 {
				c.Violation("erase:"+ld.name+":"+typed, map[string]interface{}{"kind": "typed and untyped programs compile differently", "loader": ld.name, "typed": typed, "untyped": untyped, "out_typed": o1, "out_untyped": o2})
			}
			// minified too (types must not influence minification decisions)
			if i%5 == 0 {
				opts.MinifySyntax = true
				m1, k1, _ := transformJS(typed, opts)
				m2, k2, _ := transformJS(untyped, opts)
				if k1 != k2 || m1 != m2 {
					c.Violation("erase-min:"+ld.name+":"+typed, map[string]interface{}{"kind": "typed and untyped programs minify differently", "loader": ld.name, "typed": typed, "untyped": untyped, "out_typed": m1, "out_untyped": m2})
				}
			}
		}
	})
	c.Sample(map[string]string{"typed": func() string { a, _ := c06Expand(c06Positions[4].tpl, c06Types[28], c06ReturnTypes[1]); return a }()})
}

// Relation 2: every JavaScript program compiles identically under the ts and js loaders.
var c06Contextual = []string{"type", "declare", "namespace", "module", "abstract", "as", "satisfies", "is", "asserts", "infer", "keyof", "readonly", "unique", "out", "accessor", "override", "global", "require", "interface", "enum_", "public", "private", "protected", "any", "unknown", "never", "object", "string", "number", "symbol", "constructor", "async", "await_", "of", "get", "set", "static_", "implements_", "from", "assert", "using", "defer", "source"}

var c06Followers = []string{";", "\nx;", " \nx = 1;", "\n{ }", " = 1;", "(x);", ".x;", "\nclass A {}", "\nfunction f() {}", " + 1;", "[0];", "`t`;", " in x;", " instanceof x;", "++;", "\n++\nx;", " ? 1 : 2;", ", x;", " => 1;", ": for (;;) break;", "\n`t`;", "\n(x);", "\n[0];", " < x;", "?.x;", "!;", " as x;"}

func c06SameAsJS(c *Check) {
	all := concatOps(xAllOps, xAsyncGen, xGen)
	red := pickOps(all, xReducedNames...)
	sp := &xspace{}
	sp.segs = append(sp.segs, segCtxOp(usableCtxs(), all))
	sp.segs = append(sp.segs, segLeaves(pickCtx("return", "stmt"), all, xLeafLit))
	if c.Tier == "quick" {
		sp.segs = append(sp.segs, segPairs("return*reduced*slot*reduced", pickCtx("return", "stmt"), red, red))
		sp.segs = append(sp.segs, asiSpace())
	} else {
		sp.segs = append(sp.segs, segPairs("return*all*slot*reduced", pickCtx("return", "stmt"), all, red))
		sp.segs = append(sp.segs, asiSpace(), stmtSpace("quick"))
	}
	// contextual keywords as plain JavaScript identifiers at statement start
	var kw []xcase
	for _, k := range c06Contextual {
		for _, f := range c06Followers {
			kw = append(kw, xcase{code: "var " + k + ", x, y;\n" + k + f})
			kw = append(kw, xcase{code: "function fn(" + k + ", x, y) {\n" + k + f + "\n}"})
			kw = append(kw, xcase{code: "x = " + k + f})
		}
		kw = append(kw, xcase{code: "class A { " + k + " = 1; static " + k + "() {} get " + k + "() { return 1 } " + k + "\n x() {} }"})
		kw = append(kw, xcase{code: "var o = { " + k + ", " + k + ": 1, " + k + "() {}, get " + k + "() { return 1 }, async " + k + "() {} }; o." + k + "; o?." + k + ";"})
		kw = append(kw, xcase{code: "import { " + k + " as z1 } from 'm'; import * as " + k + "2 from 'm'; export { z1 as " + k + " }; z1; " + k + "2;"})
		kw = append(kw, xcase{code: k + ": for (;;) { break " + k + " }"})
		kw = append(kw, xcase{code: "function " + k + "() {} class " + k + "2 {} " + k + "(); new " + k + "2;"})
		kw = append(kw, xcase{code: "var [" + k + "] = x, {" + k + ": y, z = " + k + "} = x; (" + k + ") => " + k + "; " + k + " => " + k + "; async " + k + " => " + k + ";"})
	}
	sp.segs = append(sp.segs, xseg{"contextual-keywords-as-identifiers", uint64(len(kw)), func(i uint64) xcase { return kw[i] }})
	for _, g := range sp.segs {
		g := g
		c.ForEach(g.size, func(w int, i uint64) {
			cs := g.at(i)
			c.Eval(1)
			pairs := [][2]api.Loader{{api.LoaderJS, api.LoaderTS}, {api.LoaderJSX, api.LoaderTSX}}
			for pi, pr := range pairs {
				o1, ok1, _ := transformJS(cs.code, api.TransformOptions{Loader: pr[0], JSX: api.JSXPreserve})
				o2, ok2, e2 := transformJS(cs.code, api.TransformOptions{Loader: pr[1], JSX: api.JSXPreserve})
				if !ok1 {
					c.Sub("js_loader_rejects(generator)", 1)
					continue
				}
				if c06TSReadsDifferently(cs.code, pi == 1) {
					c.Sub("excluded_ts_rereads_js", 1)
					continue
				}
				c.Distinct(o1)
				if !ok2 {
					c.Violation("ts-rejects-js:"+cs.code, map[string]interface{}{"kind": "valid JavaScript rejected by the ts/tsx loader", "tsx": pi == 1, "input": cs.code, "errors": jsonStr(e2)})
				} else if o1 != o2 {
					c.Violation("ts-vs-js:"+cs.code, map[string]interface{}{"kind": "JavaScript compiles differently under ts and js loaders", "tsx": pi == 1, "input": cs.code, "out_js": o1, "out_ts": o2})
				}
			}
		})
		c.Set("relation2:"+g.name, g.size)
	}
}

// Documented places where TypeScript itself re-reads JavaScript text (excluded by construction in
// DESIGN §C06 relation 2): `a < b > (c)` shaped token runs / `<T>x` casts, and unused imports.
var c06GenericLike = regexp.MustCompile("<[^<>;]*>\\s*[(`]")

func c06TSReadsDifferently(code string, tsx bool) bool {
	if strings.Contains(code, "import {") || strings.Contains(code, "import *") {
		return true
	}
	if c06GenericLike.MatchString(code) {
		return true // `a < b > (c)` / `a<b>`t`` token runs are type arguments for TypeScript
	}
	return false
}

func runC06(c *Check) {
	c.Rule = "relation 1: 80 type positions x (115 type forms + hole-forms x forms nested once) x {ts,tsx,mts}: Transform(typed) == Transform(untyped twin produced by deleting the bracketed type syntax), also with minify-syntax; relation 2: the C01 expression/statement space and every TypeScript contextual keyword used as a JavaScript identifier in 29 follower contexts compile byte-identically under js vs ts and jsx vs tsx; relation 3: enums/namespaces/parameter properties/class-field semantics executed against generator-side reference values; distinct = distinct outputs; 16 import/export statement forms x 10 tsconfig import-elision settings x ts/tsx x minify (differential and documented expectations); assignments to exports of sibling namespace blocks"
	c.Assump = []string{"the typed programs are valid TypeScript by construction (vetted once against esbuild on the unchanged tree; no independent TypeScript parser is installed)", "experimentalDecorators is not covered"}
	t0 := time.Now()
	c06Erase(c)
	c.Set("phase_s_erase", time.Since(t0).Seconds())
	t0 = time.Now()
	c06SameAsJS(c)
	c.Set("phase_s_same_as_js", time.Since(t0).Seconds())
	t0 = time.Now()
	c06Runtime(c)
	c.Set("phase_s_runtime", time.Since(t0).Seconds())
}

func init() { register("C06", "exploration", runC06) }

var _ = fmt.Sprint
