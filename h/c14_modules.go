package main

// C14 module-level syntax: features that live in import/export statements or module records cannot be lowered, so a
// target without them must get an error. Each feature is placed in the entry point, in a statically imported module
// and in a dynamically imported module (its own chunk under code splitting), x output formats x splitting x targets:
// either the build reports an error, or every emitted file parses on the target's engine and contains no string
// export name where the target lacks them.

import (
	"fmt"
	"os"
	"path/filepath"
	"regexp"
	"strings"

	"github.com/evanw/esbuild/pkg/api"
)

var c14ModuleFeatures = []struct{ name, dep string }{
	{"string-export-name", "const v = 1; export { v as 'a b', v as plain };"},
	{"string-import-name", "import { 'c d' as w } from './leaf.mjs'; export const got = w;"},
	{"string-reexport-name", "export { 'c d' as 'e f' } from './leaf.mjs'; export const k = 1;"},
	{"export-star-as", "export * as ns from './leaf.mjs'; export const k = 1;"},
	{"import-meta", "export const u = typeof import.meta;"},
	{"top-level-await", "export const v = await Promise.resolve(1);"},
	{"nested-dynamic-import", "export const lazy2 = () => import('./leaf.mjs');"},
	{"import-attributes", "import j from './data.json' with { type: 'json' }; export { j };"},
	{"hashbang", "#!/usr/bin/env node\nexport const h = 1;"},
}

// `export { x as "a b" }`, `import { "a b" as x }`
var c14StringName = regexp.MustCompile(`(?s)\b(export|import)\s*\{[^}]*["'][^}]*\}`)

func c14ModuleLevel(c *Check, ns *nodeSet) {
	root := scratchRoot("c14m")
	defer os.RemoveAll(root)
	type job struct {
		t         c14Target
		fi, pos   int
		format    api.Format
		splitting bool
	}
	var jobs []job
	for _, t := range c14Targets {
		for fi := range c14ModuleFeatures {
			for pos := 0; pos < 3; pos++ {
				for _, f := range []api.Format{api.FormatESModule, api.FormatCommonJS, api.FormatIIFE} {
					jobs = append(jobs, job{t, fi, pos, f, false})
					if f == api.FormatESModule {
						jobs = append(jobs, job{t, fi, pos, f, true})
					}
				}
			}
		}
	}
	posName := []string{"entry", "static-dependency", "dynamic-dependency"}
	for fi, ft := range c14ModuleFeatures {
		dir := filepath.Join(root, fmt.Sprintf("f%d", fi))
		writeTree(dir, map[string]string{
			"dep.mjs":           ft.dep,
			"leaf.mjs":          "const z = 2; export { z as 'c d', z };",
			"data.json":         `{"a": 1}`,
			"entry-static.mjs":  "import * as d from './dep.mjs'; export default d; export const keys = Object.keys(d);",
			"entry-dynamic.mjs": "export const lazy = () => import('./dep.mjs'); export const other = () => import('./other.mjs');",
			"other.mjs":         "export const o = 1;",
		})
	}
	c.ForEach(uint64(len(jobs)), func(w int, i uint64) {
		j := jobs[i]
		dir := filepath.Join(root, fmt.Sprintf("f%d", j.fi))
		entry := []string{"dep.mjs", "entry-static.mjs", "entry-dynamic.mjs"}[j.pos]
		r := api.Build(api.BuildOptions{EntryPoints: []string{filepath.Join(dir, entry)}, Bundle: true, Write: false, Format: j.format, Target: j.t.target, Engines: j.t.engines,
			Outdir: filepath.Join(dir, "out"), Splitting: j.splitting, LogLevel: api.LogLevelSilent, Platform: api.PlatformNode, GlobalName: "G"})
		c.Eval(1)
		if len(r.Errors) > 0 {
			c.Sub("module_feature_error_reported", 1)
			return
		}
		key := fmt.Sprintf("module-feature:%s:%s:%s:format=%d:splitting=%v", c14ModuleFeatures[j.fi].name, posName[j.pos], j.t.name, j.format, j.splitting)
		for _, f := range r.OutputFiles {
			if !strings.HasSuffix(f.Path, ".js") {
				continue
			}
			out := string(f.Contents)
			c.Distinct(out)
			if strings.HasPrefix(out, "#!") {
				// the hashbang line is consumed by the program loader, not by the engine's parser (the cjs oracle wraps
				// the text in a function, where it could not stand either)
				out = "//" + out[2:]
			}
			goal := map[api.Format]string{api.FormatESModule: "module", api.FormatCommonJS: "cjs", api.FormatIIFE: "script"}[j.format]
			// string names arrived with ES2022 / Node 16: older targets must not see them (the witness engine of es2021 is Node 16)
			old := j.t.node == "10" || j.t.node == "12" || j.t.node == "14" || j.t.name == "es2021"
			if old && goal == "module" && c14StringName.MatchString(out) {
				c.Violation(key+":string-name", map[string]interface{}{"kind": "output for a target without arbitrary module namespace names contains a string import/export name", "target": j.t.name, "file": filepath.Base(f.Path), "output": trunc(out, 3000)})
				continue
			}
			if j.t.node == "10" && goal == "module" {
				c.Sub("module_feature_esm_node10_skipped", 1) // vm.SourceTextModule of Node 10 cannot parse import()
				continue
			}
			if !ns.syntax(j.t.node, w, []synCase{{out, goal}})[0] {
				if oracleCrashed(out) {
					c.Sub("oracle_crash_skipped", 1)
					continue
				}
				c.Violation(key, map[string]interface{}{"kind": "target engine rejects an emitted file although the build reported no error", "target": j.t.name, "file": filepath.Base(f.Path), "output": trunc(out, 3000)})
			}
			c.Sub("module_feature_outputs_checked", 1)
		}
	})
}
