package main

// C04: tree shaking removes only code whose removal is unobservable.

import (
	"fmt"
	"os"
	"path/filepath"
	"regexp"
	"strings"

	"github.com/evanw/esbuild/pkg/api"
)

// Unused top-level statements for module b. %P = a hidden probe expression (a call that logs), %N = unique suffix.
// Helper objects available in b: o1 (logging toString/valueOf), F (logging constructor/function), tag (logging tag fn).
var c04Unused = []string{
	"const u%N = %P;",
	"let u%N = %P;",
	"var u%N = %P;",
	"const u%N = [%P];",
	"const u%N = [...[%P]];",
	"const u%N = [...it];",
	"const u%N = {y: %P};",
	"const u%N = {[%P]: 1};",
	"const u%N = {...{get g() { return %P }}};",
	"const u%N = {...spreadme};",
	"const u%N = {get g() { return %P }};",
	"const u%N = `x${%P}`;",
	"const u%N = `x${o1}`;",
	"const u%N = `x${1}${'s'}`;",
	"const u%N = o1 + '';",
	"const u%N = '' + o1;",
	"const u%N = o1 == 1;",
	"const u%N = o1 != null;",
	"const u%N = o1 === 1;",
	"const u%N = o1 < 1;",
	"const u%N = -o1;",
	"const u%N = +o1;",
	"const u%N = ~o1;",
	"const u%N = o1 | 0;",
	"const u%N = o1 * 2;",
	"const u%N = !o1;",
	"const u%N = typeof o1;",
	"const u%N = void o1;",
	"const u%N = o1 ? 1 : 2;",
	"const u%N = o1 && %P;",
	"const u%N = null ?? %P;",
	"const u%N = 1 || %P;",
	"const u%N = [o1] + '';",
	"const u%N = o1 in {};",
	"const u%N = 'x' in plain;",
	"const u%N = 'x' in proxyHas;",
	"const u%N = plain instanceof hasInst;",
	"const u%N = plain instanceof Object;",
	"const u%N = unknownGlobal%N;",
	"const u%N = typeof unknownGlobal%N;",
	"const u%N = typeof unknownGlobal%N !== 'undefined' && unknownGlobal%N;",
	"const u%N = typeof unknownGlobal%N === 'undefined' ? 0 : unknownGlobal%N;",
	"const u%N = unknownGlobal%N.prop;",
	"const u%N = plain.x;",
	"const u%N = plain.x.y.z;",
	"const u%N = getter.g;",
	"const u%N = plain?.x;",
	"const u%N = nul?.x.y;",
	"const u%N = tag`x`;",
	"const u%N = tag`x${1}`;",
	"const u%N = String.raw`x`;",
	"const u%N = new F();",
	"const u%N = new F;",
	"const u%N = F();",
	"const u%N = (() => %P)();",
	"const u%N = (() => 1)();",
	"const u%N = (function() { return 1 })();",
	"const u%N = ((x = %P) => 1)();",
	"const u%N = (x = %P) => 1;",
	"const u%N = function(x = %P) { %P };",
	"const {d%N = %P} = {};",
	"const {d%N = %P} = {d%N: 1};",
	"const [d%N = %P] = [];",
	"const [d%N = %P] = [undefined];",
	"const [d%N = %P] = [,];",
	"const [d%N = %P] = [void 0];",
	"const [d%N = %P] = [1];",
	"const [d%N = %P] = [null];",
	"const [e%N, d%N = %P] = [1, undefined];",
	"const [e%N = 1, d%N = %P] = [1];",
	"const [d%N = %P, ...r%N] = [undefined, 1];",
	"const [[d%N = %P]] = [[undefined]];",
	"const [d%N = %P] = [...[]];",
	"const [d%N = %P] = 'ab';",
	"var [d%N = %P] = [undefined];",
	"let [d%N = %P] = [undefined, 2];",
	"const {d%N = %P} = {d%N: undefined};",
	"const {d%N = %P} = {d%N: void 0};",
	"const {a%N: [d%N = %P]} = {a%N: [undefined]};",
	"const {a%N: {d%N = %P}} = {a%N: {}};",
	"const [d%N] = it;",
	"const {d%N} = getter;",
	"const {[%P]: d%N} = {};",
	"const {...d%N} = getter;",
	"const {a: {b: d%N}} = {a: %P};",
	"class C%N { static x = %P }",
	"class C%N { static { %P } }",
	"class C%N { static {} }",
	"class C%N { [%P]() {} }",
	"class C%N { static [%P] = 1 }",
	"class C%N { x = %P }",
	"class C%N { static get x() { return %P } }",
	"class C%N extends (%P, Object) {}",
	"class C%N extends Object {}",
	"class C%N extends F {}",
	"class C%N extends nul {}",
	"class C%N extends plain {}",
	"class C%N { static x = C%N.y; static y = %P }",
	"class C%N { static #p = %P; m() { return #p in this } }",
	"class C%N { static accessor a = %P }",
	"const u%N = class { static x = %P };",
	"const u%N = class { static { %P } };",
	"const u%N = {[Symbol.iterator]: 1};",
	"const u%N = {[Symbol.for(%P)]: 1};",
	"const u%N = Symbol('x');",
	"const u%N = Symbol(o1);",
	"const u%N = Object.keys(plain);",
	"const u%N = Object.keys(getter);",
	"const u%N = Object.freeze(plain);",
	"const u%N = Math.max(o1, 1);",
	"const u%N = Math.PI;",
	"const u%N = JSON.stringify(getter);",
	"const u%N = new Map();",
	"const u%N = new Map([[%P, 1]]);",
	"const u%N = new Set(it);",
	"const u%N = new WeakMap();",
	"const u%N = new Date();",
	"const u%N = new Uint8Array(o1);",
	"const u%N = new RegExp(o1);",
	"const u%N = /x/g;",
	"const u%N = new Error(o1);",
	"const u%N = Array.from(it);",
	"const u%N = Number(o1);",
	"const u%N = String(o1);",
	"const u%N = Boolean(o1);",
	"const u%N = BigInt(o1);",
	"const u%N = Object(o1);",
	"const u%N = 1n + 2n;",
	"const u%N = 1n + o1;",
	"const u%N = (%P, 1);",
	"const u%N = [1, 2].map(x => %P);",
	"const u%N = 'abc'.length;",
	"const u%N = 'abc'.toUpperCase();",
	"const u%N = o1.length;",
	"const u%N = import.meta.url;",
	"const u%N = delete plain.q;",
	"const u%N = delete proxyDel.q;",
	"const u%N = await_ => %P;",
	"function f%N() { %P }",
	"function* g%N(x = %P) { yield %P }",
	"async function af%N() { await %P }",
	"export const e%N = %P;",
	"export function ef%N() { %P }",
	"export class EC%N { static x = %P }",
	"if (false) { %P }",
	"if (typeof unknownGlobal%N !== 'undefined') { %P }",
	"for (const k%N in getterEnum) {}",
	"for (const v%N of it) {}",
	"label%N: { %P }",
	"try { %P } finally {}",
	"{ %P }",
	"%P;",
	";",
	"var u%N; u%N = %P;",
	"let u%N = 1; u%N = %P;",
	"let u%N = 1; u%N++;",
	"let u%N = o1; u%N++;",
	"const u%N = {}; u%N.x = %P;",
	"const u%N = {}; u%N[%P] = 1;",
	"const u%N = []; u%N.push(%P);",
	"plain.assigned%N = 1;",
	"setter.s = 1;",
	// functions whose calls the minifier may inline (empty / identity) but that are reassigned from code that is itself
	// unused: the call is live, the only other reference is not
	"function noop%N() {} function setNoop%N(f) { noop%N = f } noop%N(log('noop%N arg'));",
	"function ident%N(x) { return x } function setIdent%N(f) { ident%N = f } log('ident', ident%N(%N));",
	"function noop%N() {} const unusedSetter%N = () => { noop%N = null }; noop%N();",
	"function bump%N() {} function reset%N() { bump%N = function() { log('bumped') } } export function later%N() { bump%N() }",
	"var fnv%N = function() {}; function setFnv%N() { fnv%N = () => log('v2') } fnv%N();",
}

const c04Helpers = `
const o1 = {toString() { log('o1.toString'); return 's' }, valueOf() { log('o1.valueOf'); return 1 }};
function F() { log('F called', new.target !== undefined) }
function tag(s) { log('tag called'); return s }
const plain = {x: {y: {z: 1}}};
const nul = null;
const getter = {get g() { log('getter.g read'); return 1 }};
const getterEnum = new Proxy({}, {ownKeys() { log('ownKeys trap'); return [] }});
const setter = {set s(v) { log('setter.s written') }};
const spreadme = {get sp() { log('spread getter'); return 1 }};
const proxyHas = new Proxy({}, {has() { log('has trap'); return true }});
const proxyDel = new Proxy({}, {deleteProperty() { log('delete trap'); return true }});
const hasInst = {[Symbol.hasInstance]() { log('hasInstance'); return true }};
const it = {[Symbol.iterator]() { log('iterated'); return [][Symbol.iterator]() }};
`

func c04Module(stmts []string) string {
	var b strings.Builder
	b.WriteString("log('b:start');\n")
	b.WriteString(c04Helpers)
	b.WriteString("export const used = 'U';\nexport function useFn() { return helper() }\nfunction helper() { return 'H' }\n")
	p := 0
	for i, st := range stmts {
		s := strings.ReplaceAll(st, "%N", fmt.Sprint(i+1))
		for strings.Contains(s, "%P") {
			p++
			s = strings.Replace(s, "%P", fmt.Sprintf("log('probe %d')", p), 1)
		}
		b.WriteString(s + "\n")
	}
	b.WriteString("log('b:end');\n")
	return b.String()
}

type c04Cfg struct {
	name   string
	format api.Format
	minify bool
	shake  api.TreeShaking
}

var c04Cfgs = []c04Cfg{
	{"esm", api.FormatESModule, false, api.TreeShakingDefault},
	{"esm-noshake", api.FormatESModule, false, api.TreeShakingFalse},
	{"esm-min", api.FormatESModule, true, api.TreeShakingTrue},
	{"cjs", api.FormatCommonJS, false, api.TreeShakingDefault},
	{"iife-min", api.FormatIIFE, true, api.TreeShakingDefault},
}

func c04StripOpt(l []string) (req []string, opt []string) {
	for _, x := range l {
		if strings.Contains(x, "opt:") {
			opt = append(opt, x)
		} else {
			req = append(req, x)
		}
	}
	return
}

func c04Run(c *Check, pool *NodePool, w int, dir string, files map[string]string, label string, extra func(o *api.BuildOptions)) {
	writeTree(dir, files)
	defer os.RemoveAll(dir)
	g := &ggraph{mods: []gmod{{"a", true, "exports", false}}}
	cases := []graphCase{{Files: files, Entry: "a.mjs", How: "import"}}
	var names []string
	for _, cfg := range c04Cfgs {
		cfg := cfg
		gc, errText := c02BundleCase(dir, g, c02Cfg{cfg.name, cfg.format, api.PlatformNode, cfg.minify}, func(o *api.BuildOptions) {
			o.TreeShaking = cfg.shake
			if cfg.format != api.FormatESModule {
				// the sources are ES modules (strict); esbuild documents that converting to cjs/iife does not add
				// "use strict", so the harness supplies it to keep statements whose effect depends on strictness
				// (assignment to a frozen object) comparable with native execution
				o.Banner = map[string]string{"js": `"use strict";`}
			}
			if extra != nil {
				extra(o)
			}
		})
		if gc == nil {
			c.Sub("bundle_error:"+trunc(errText, 50), 1)
			continue
		}
		cases = append(cases, *gc)
		names = append(names, cfg.name)
	}
	c.Eval(1)
	res := nodeGraph(pool.Get(w), cases)
	native := res[0]
	if native.Err != nil && strings.HasPrefix(*native.Err, "SyntaxError") {
		// syntax that no installed engine runs natively (auto-accessors, decorators): the statement's second reference,
		// "the same bundle built with tree shaking disabled", takes the place of native execution
		ref := -1
		for k, nm := range names {
			if nm == "esm-noshake" {
				ref = k + 1
			}
		}
		if !strings.HasPrefix(label, "lowered:") || ref < 0 || (res[ref].Err != nil && strings.HasPrefix(*res[ref].Err, "SyntaxError")) {
			c.Sub("generator_invalid", 1)
			return
		}
		native = res[ref]
		c.Sub("compared_with_unshaken_bundle", 1)
	}
	c.Distinct(strings.Join(native.Log, "\n"))
	cmp := func(native, b graphRes) string {
		nreq, nopt := c04StripOpt(native.Log)
		breq, bopt := c04StripOpt(b.Log)
		if strings.Join(nreq, "\n") != strings.Join(breq, "\n") {
			return "log"
		} else if (native.Err == nil) != (b.Err == nil) || (native.Err != nil && *native.Err != *b.Err) {
			return "error"
		} else if normSurface(native.Surface) != normSurface(b.Surface) {
			return "surface"
		}
		// optional (annotated) lines may vanish but never appear out of nothing
		have := map[string]int{}
		for _, x := range nopt {
			have[x]++
		}
		for _, x := range bopt {
			have[x]--
			if have[x] < 0 {
				return "extra-optional-line"
			}
		}
		return ""
	}
	// known finding (differential): the bundle behaves exactly like the source without the unused
	// `class C extends plain {}` statement, whose native evaluation throws TypeError
	var withoutClass *graphRes
	classRe := regexp.MustCompile(`(?m)^class C\d+ extends plain \{\}\n`)
	for k := 1; k < len(res); k++ {
		b := res[k]
		bad := cmp(native, b)
		key := "shake:" + names[k-1] + ":" + label
		if bad != "" && strings.Contains(label, "extends plain {}") && native.Err != nil && *native.Err == "TypeError" && classRe.MatchString(files["b.mjs"]) {
			if withoutClass == nil {
				f2 := map[string]string{}
				for n, t := range files {
					f2[n] = t
				}
				f2["b.mjs"] = classRe.ReplaceAllString(f2["b.mjs"], "")
				r2 := nodeGraph(pool.Get(w), []graphCase{{Files: f2, Entry: "a.mjs", How: "import"}})
				withoutClass = &r2[0]
			}
			if cmp(*withoutClass, b) == "" {
				key = "unused-class-extending-a-non-constructor-is-removed"
			}
		}
		if bad != "" {
			c.Violation(key, map[string]interface{}{"kind": "tree-shaken bundle differs from native execution (" + bad + ")", "case": label, "config": names[k-1], "files": files, "native": native.String(), "bundle": b.String(), "bundle_code": trunc(cases[k].Files[cases[k].Entry], 6000)})
		}
	}
}

func runC04(c *Check) {
	c.Rule = "a used-export module extended by every unused top-level statement of a ~150 statement alphabet (hidden probes in getters, computed keys, spreads, template holes, valueOf/toString coercions, in/instanceof, unbound globals, tagged templates, new, default values, destructuring, class static blocks/fields/computed members/heritage, proxies, builtin constructors), singly and in pairs, bundled with tree shaking default/true/false x esm/cjs/iife x minify and compared with native execution (log, thrown error, export surface); annotation cases (@__PURE__, @__NO_SIDE_EFFECTS__, pure:, package.json sideEffects) where only annotated lines may disappear; distinct = distinct native logs; empty/identity functions called from live code and reassigned only from unused code; cjs/iife bundles run under a \"use strict\" banner"
	c.Assump = []string{"Node 20 executes the unbundled files natively as reference", "with annotations the only permitted difference is the disappearance of log lines lexically inside annotated calls/modules (marked opt: by the generator)"}
	pool := NewNodePool("")
	defer pool.Close()
	root := scratchRoot("c04")
	defer os.RemoveAll(root)
	entry := "import {used, useFn} from './b.mjs';\nlog('a:start');\nlog(used, useFn());\nlog('a:end');\n"
	n := len(c04Unused)
	type job struct {
		stmts []string
		label string
	}
	var jobs []job
	for i := 0; i < n; i++ {
		jobs = append(jobs, job{[]string{c04Unused[i]}, c04Unused[i]})
	}
	step := 7
	if c.Tier != "quick" {
		step = 1
	}
	for i := 0; i < n; i++ {
		for j := (i * 3) % step; j < n; j += step {
			jobs = append(jobs, job{[]string{c04Unused[i], c04Unused[j]}, c04Unused[i] + " ## " + c04Unused[j]})
		}
	}
	c.Set("unused_statement_alphabet", n)
	c.ForEach(uint64(len(jobs)), func(w int, i uint64) {
		j := jobs[i]
		files := map[string]string{"a.mjs": entry, "b.mjs": c04Module(j.stmts)}
		c04Run(c, pool, w, filepath.Join(root, fmt.Sprintf("u%d", i)), files, j.label, nil)
	})
	// statements in syntax newer than the installed engines, lowered for es2021: reference = the unshaken bundle
	lowered := []string{
		"class C%N { static accessor x = %P }", "class C%N { static accessor [%P] = 1 }", "class C%N { static accessor #x = %P; static y = 1 }", "class C%N { accessor x = %P }",
		"const c%N = class { static accessor x = %P };", "class C%N { static accessor x = 1; static accessor y = %P; accessor z = 2 }",
		"function dec%N(v, ctx) { log('decorated', ctx.kind) } class D%N { @dec%N static m() {} }", "function dec%N(v, ctx) { log('decorated', ctx.kind) } @dec%N class D%N {}",
		"function dec%N(v, ctx) { log('decorated', ctx.kind) } class D%N { @dec%N accessor a = 1 }", "class D%N { @(%P, (v, c) => v) static f = 1 }",
	}
	for i, st := range lowered {
		files := map[string]string{"a.mjs": entry, "b.mjs": c04Module([]string{st})}
		c04Run(c, pool, 0, filepath.Join(root, fmt.Sprintf("low%d", i)), files, "lowered:"+st, func(o *api.BuildOptions) { o.Target = api.ES2021 })
		for j, st2 := range []string{c04Unused[0], c04Unused[12]} {
			files := map[string]string{"a.mjs": entry, "b.mjs": c04Module([]string{st, st2})}
			c04Run(c, pool, 0, filepath.Join(root, fmt.Sprintf("low%d-%d", i, j)), files, "lowered:"+st+" ## "+st2, func(o *api.BuildOptions) { o.Target = api.ES2021 })
		}
	}
	// annotations
	type ann struct {
		name  string
		files map[string]string
		extra func(o *api.BuildOptions)
	}
	anns := []ann{
		{"pure-annotation-call", map[string]string{"a.mjs": entry, "b.mjs": c04Module([]string{"function noisy(x) { log('opt:noisy body'); return x } const u1 = /* @__PURE__ */ noisy(log('probe arg'));", "/* @__PURE__ */ noisy(1);", "const u2 = /* @__PURE__ */ new F(log('probe arg2'));"})}, nil},
		{"no-side-effects-function", map[string]string{"a.mjs": entry, "b.mjs": c04Module([]string{"/* @__NO_SIDE_EFFECTS__ */ function quiet(x) { log('opt:quiet body'); return x } const u1 = quiet(log('probe arg')); quiet(2); const keep = noisy2(3); function noisy2() { log('noisy2 body') }"})}, nil},
		{"pure-option", map[string]string{"a.mjs": entry, "b.mjs": c04Module([]string{"function markedPure(x) { log('opt:markedPure body'); return x } const u1 = markedPure(log('probe arg')); markedPure(); const u2 = other(); function other() { log('other body') }"})}, func(o *api.BuildOptions) { o.Pure = []string{"markedPure"} }},
		{"sideEffects-false-package", map[string]string{"a.mjs": "import 'pkg'; import {v} from 'pkg2'; import 'pkg3';\n" + entry, "b.mjs": c04Module(nil),
			"node_modules/pkg/package.json": `{"name":"pkg","main":"index.js","sideEffects":false}`, "node_modules/pkg/index.js": "log('opt:pkg body');",
			"node_modules/pkg2/package.json": `{"name":"pkg2","main":"index.js","sideEffects":false,"type":"module"}`, "node_modules/pkg2/index.js": "log('opt:pkg2 body'); export const v = 1; log('opt:', v);",
			"node_modules/pkg3/package.json": `{"name":"pkg3","main":"index.js","sideEffects":["./index.js"]}`, "node_modules/pkg3/index.js": "log('pkg3 body');"}, nil},
		{"sideEffects-false-used-import", map[string]string{"a.mjs": "import {v} from 'pkg2'; log('a sees', v);\n" + entry, "b.mjs": c04Module(nil),
			"node_modules/pkg2/package.json": `{"name":"pkg2","main":"index.js","sideEffects":false,"type":"module"}`, "node_modules/pkg2/index.js": "import './dep.js'; log('pkg2 body'); export const v = 1;", "node_modules/pkg2/dep.js": "log('opt:pkg2 dep body');"}, nil},
		{"ignore-annotations", map[string]string{"a.mjs": entry, "b.mjs": c04Module([]string{"function noisy(x) { log('noisy body'); return x } const u1 = /* @__PURE__ */ noisy(log('probe arg'));"})}, func(o *api.BuildOptions) { o.IgnoreAnnotations = true }},
	}
	// package.json "sideEffects" arrays: glob patterns x files at several depths. Files that match a pattern must keep
	// running when imported for their side effects only; files that match none may be dropped (their lines are "opt:").
	// The expected sets are written out by hand (no second glob implementation).
	pkgFiles := []string{"dist/a.js", "dist/sub/b.js", "dist/sub/deep/c.js", "other/d.js", "keep.js", "other/keep.js"}
	globCases := []struct {
		patterns string
		kept     []string
	}{
		{`["./dist/**"]`, []string{"dist/a.js", "dist/sub/b.js", "dist/sub/deep/c.js"}},
		{`["dist/**"]`, []string{"dist/a.js", "dist/sub/b.js", "dist/sub/deep/c.js"}},
		{`["./dist/*.js"]`, []string{"dist/a.js"}},
		{`["**/keep.js"]`, []string{"keep.js", "other/keep.js"}},
		{`["keep.js"]`, []string{"keep.js", "other/keep.js"}},
		{`["./dist/**/*.js"]`, []string{"dist/a.js", "dist/sub/b.js", "dist/sub/deep/c.js"}},
		{`["./dist/sub/**"]`, []string{"dist/sub/b.js", "dist/sub/deep/c.js"}},
		{`["./other/d.js"]`, []string{"other/d.js"}},
		{`["*.js"]`, pkgFiles},
		{`["./dist/s?b/b.js"]`, []string{"dist/sub/b.js"}},
		{`["./dist/*/b.js", "./keep.js"]`, []string{"dist/sub/b.js", "keep.js"}},
		{`["./dist/**/c.js"]`, []string{"dist/sub/deep/c.js"}},
		{`[]`, nil},
	}
	for gi, gc := range globCases {
		files := map[string]string{"b.mjs": c04Module(nil), "node_modules/gp/package.json": `{"name":"gp","sideEffects":` + gc.patterns + `}`}
		imports := ""
		for _, f := range pkgFiles {
			imports += "import 'gp/" + f + "';\n"
			tag := "opt:"
			for _, k := range gc.kept {
				if k == f {
					tag = ""
				}
			}
			files["node_modules/gp/"+f] = "log('" + tag + "gp/" + f + " body');"
		}
		files["a.mjs"] = imports + entry
		anns = append(anns, ann{fmt.Sprintf("sideEffects-glob-%d:%s", gi, gc.patterns), files, nil})
	}
	for i, a := range anns {
		c04Run(c, pool, 0, filepath.Join(root, fmt.Sprintf("ann%d", i)), a.files, a.name, a.extra)
	}
	c.Sample(map[string]string{"b.mjs": c04Module([]string{c04Unused[12], c04Unused[69]})})
}

func init() { register("C04", "exploration", runC04) }
