package main

// C05: syntax lowering preserves behaviour for every target.

import (
	"regexp"
	"sort"
	"strings"

	"github.com/evanw/esbuild/pkg/api"
)

// Lowering-specific constructs; $0/$1 are trees with probes. Each is a function body.
var c05Templates = []string{
	// object rest / spread
	"return (({a, ...r}) => [a, r])($0);",
	"return (function({x: {y, ...r}, ...q}) { return [y, r, q] })({x: $0, z: 1});",
	"for (var {a, ...r} of [$0]) return [a, r];",
	"var {[$0]: x, ...r} = b; return [x, r];",
	"var {a: {...r1}, ...r2} = {a: $0, b: 2}; return [r1, r2];",
	"var r; ({a: c, ...r} = $0); return [c, r];",
	"var r; [{...r}] = [$0]; return r;",
	"try { throw $0 } catch ({a, ...r}) { return [a, r] }",
	"return {...$0, x: $1, ...c};",
	"return {x: 1, ...$0, get y() { return 2 }, ...null, [$1]: 3};",
	"return H.f(90, 0)(...$0, $1, ...[1, 2]);",
	"return new (H.f(90, 0))(...$0);",
	"return [...$0, $1];",
	"var o = {x: {y: 1, z: 2}}; var {x: {y, ...rest}} = o; return [y, rest, $0];",
	"return (({a = $0, ...r}, {b, ...s} = $1) => [a, r, b, s])({q: 1});",
	"var k = 0; var {[k++]: a2, [k++]: b2, ...r} = [$0, 1, 2, 3]; return [a2, b2, r, k];",
	// optional chaining / nullish
	"return $0?.x.y.z;",
	"return $0?.x?.[$1]?.(1);",
	"return ($0?.x).y;",
	"return $0?.x($1).y?.z;",
	"return $0.x?.y.call($1);",
	"return delete $0?.x.y;",
	"return delete $0?.[$1];",
	"return $0?.x`t${$1}`;",
	"return (a?.b)?.($0);",
	"return a?.[$0]($1);",
	"return a?.b.c($0)?.d;",
	"return new a.b?.c($0);",
	"return typeof a?.b.c;",
	"return a?.b.c ?? $0;",
	"return (a ?? $0)?.b;",
	"return a?.b ?? a?.c ?? $0;",
	"return a?.[$0] ? 1 : 2;",
	"return [a?.b.c, b?.x, c?.()];",
	"return a?.b in {x: 1};",
	"return a?.b = 1;",
	"a?.b.c = $0; return a;",
	"return a?.b.c++;",
	"return a?.[b?.c];",
	"return (0, a?.b)($0);",
	"return a?.b?.();",
	"return a?.()?.();",
	"return $0 ?? $1 ?? c;",
	"return ($0 ?? $1) || c;",
	"return $0 ?? ($1 && c);",
	"return ($0, $1) ?? c;",
	// logical / exponent assignment
	"return [a ??= $0, b ||= $1, c &&= 3];",
	"return a.b ??= $0;",
	"return a[$0] ||= $1;",
	"return H.p(90, a).b &&= $0;",
	"return H.p(90, a)[H.p(91, 'k')] ??= $0;",
	"return a.b.c ??= $0;",
	"return a?.b.c;",
	"return a **= $0;",
	"return a.b **= $0;",
	"return H.p(90, a)[H.p(91, 'k')] **= $0;",
	"return $0 ** $1 ** 2;",
	"return (-2) ** $0;",
	"return (a ** b) ** c;",
	"return 2 ** -a;",
	"var x = 2; x **= x **= 2; return x;",
	// classes: fields, private, static, accessors
	"class K { x = $0; static y = $1; [H.p(90, 'k')] = 3; static [H.p(91, 's')] = 4 } return [new K, K.y, K.s];",
	"class K { static x = H.p(90, 1); static { H.p(91, 2) } static y = H.p(92, 3); static { H.p(93, $0) } } return K;",
	"class K { #x = $0; getX() { return this.#x } setX(v) { this.#x = v; return this } } return new K().setX($1).getX();",
	"class K { #x = 1; inc() { return [this.#x++, ++this.#x, this.#x += 2, this.#x **= 2, this.#x ??= 3, this.#x ||= 4, this.#x &&= $0] } } return new K().inc();",
	"class K { static #x = $0; static get() { return K.#x } static has(o) { return #x in o } } return [K.get(), K.has(K), K.has({})];",
	"class K { #m(v) { return [this, v] } call() { return this.#m($0) } opt() { return this.#m?.($1) } tag() { return this.#m`t` } } var k = new K; return [k.call()[1], k.opt()[1], k.tag()[1]];",
	"class K { get #g() { return $0 } set #g(v) { H.p(90, v) } t() { this.#g = $1; return [this.#g, this.#g++] } } return new K().t();",
	"class K { static #sm() { return this === K } static t() { return [K.#sm(), this.#sm()] } } return K.t();",
	"class K { #x = 1; static t(o) { return [o?.#x, o?.#x.y, o.#x?.y] } } return K.t(new K);",
	"class K { #x = 1; static t(o) { return o.#x } } try { return K.t($0) } catch (e) { return e instanceof TypeError }",
	"class K { #x; constructor() { [this.#x] = [$0]; ({a: this.#x} = {a: $1}); for (this.#x of [7]) ; } get() { return this.#x } } return new K().get();",
	"class A { constructor() { this.a = H.p(90, 1) } } class B extends A { x = H.p(91, this.a); #y = $0; constructor() { H.p(92, 0); super(); H.p(93, this.x) } } return new B;",
	"class A { constructor() { return {tag: 1} } } class B extends A { x = 2; #p = 3; static has(o) { return #p in o } } var o = new B; return [o, B.has(o)];",
	"class A { m() { return 'A' } static s() { return 'SA' } } class B extends A { x = super.m(); static y = super.s(); z = () => super.m(); } var b = new B; return [b.x, B.y, b.z()];",
	"class K { x = this; y = () => this; static s = this; static t = () => this } var k = new K; return [k.x === k, k.y() === k, K.s === K, K.t() === K];",
	"class K { 'quoted key' = $0; 123 = 1; static 'a b' = 2; static 0.5 = 3 } return [new K, K['a b'], K[0.5]];",
	"var i = 0; class K { [i++] = i++; static [i++] = i++; [i++]() {} } return [new K, K[1], i];",
	"class K { static x = 1; static y = K.x + 1; static z = this.y + 1 } return [K.x, K.y, K.z];",
	"var K = class Named { static self = Named; me() { return Named } }; return [K.self === K, new K().me() === K];",
	"class K { accessor a = $0; static accessor b = $1; accessor #c = 3; getC() { return this.#c } } var k = new K; k.a = 5; return [k.a, K.b, k.getC(), Object.getOwnPropertyNames(K.prototype)];",
	"class K { static { this.x = $0; var y = 1; K.y = y } static { K.z = K.x } } return [K.x, K.y, K.z];",
	"class K { x = arguments_ => 1; static f(a1) { return class { y = a1 } } } return new (K.f($0));",
	"class K { constructor(x) { this.c = x } f = this.c; g = $0 } return new K(1);",
	"class A {} class B extends A { x = 1; constructor() { var f = () => super(); f(); H.p(90, this.x) } } return new B;",
	"class A { static #p = 1; static B = class { static get(o) { return o.#p } } } return A.B.get(A);",
	"class K { #a = 1; #b = this.#a + 1; #c = this.#b + 1; get() { return [this.#a, this.#b, this.#c] } } return new K().get();",
	"class K { static m() { return new.target } x = new.target; } return [K.m(), new K().x === undefined];",
	"return class { static x = $0; static [$1] = 2 };",
	"return new class { x = $0; y = this.x; [$1] = 2 };",
	"return (class { static #p = $0; static g() { return delete this.#p?.x } }).g();",
	"class K { #x = 1; m() { [this.#x = $0] = []; return this.#x } } return new K().m();",
	"class K { #x = 1; m() { [this.#x = $0] = [$1]; return this.#x } } return new K().m();",
	"class K { #x = 1; m() { ({a: this.#x = $0} = {}); return this.#x } } return new K().m();",
	"class K { #x = 1; m() { [this.#x] = [$0]; return this.#x } } return new K().m();",
	"class K { #x = 1; m() { ({a: this.#x} = {a: $0}); return this.#x } } return new K().m();",
	"class K { #x = 1; m() { ({...this.#x} = {a: $0}); return this.#x } } return new K().m();",
	"class K { #x = 1; m() { [...this.#x] = [$0]; return this.#x } } return new K().m();",
	"class K { #x = 1; m() { [[this.#x = $0]] = [[]]; return this.#x } } return new K().m();",
	"class K { static #x = 1; static m() { [K.#x = $0] = []; return K.#x } } return K.m();",
	"class A { set y(v) { this.yy = v } } class B extends A { m() { [super.y = $0] = []; return this.yy } } return new B().m();",
	"class A { set y(v) { this.yy = v } } class B extends A { m() { ({a: super.y = $0} = {}); return this.yy } } return new B().m();",
	"class A { set x(v) { this.v = v } get x() { return this.v === undefined ? 2 : this.v } } class B extends A { m() { super.x **= $0; return this.v } } return new B().m();",
	"class A { set x(v) { this.v = v } get x() { return this.v } } class B extends A { m() { super.x ??= $0; super.x ||= $1; super.x &&= 5; return this.v } } return new B().m();",
	"class A { set x(v) { this.v = v } get x() { return this.v === undefined ? 2 : this.v } } class B extends A { async m() { super.x **= 3; super[$0] **= 2; return this.v } } return new B().m();",
	"class A { set x(v) { this.v = v } get x() { return this.v } } class B extends A { async m() { super.x ??= $0; super.x ||= 4; super.x &&= $1; return this.v } } return new B().m();",
	"class A { static set x(v) { this.v = v } static get x() { return this.v } } class B extends A { static m() { super.x ??= $0; super.x **= 2; return this.v } } return B.m();",
	"var o = {__proto__: {set x(v) { this.v = v }, get x() { return this.v }}, m() { super.x ||= $0; super.x **= 2; return this.v }}; return o.m();",
	// async / generators
	"return (async () => [this === undefined, await $0])();",
	"return (async function() { return [this, arguments[0], await $0] }).call(a, $1);",
	"var f = async (x = $0) => await x; return f();",
	"return (async () => { try { await Promise.reject($0) } catch (e) { return ['caught', e] } finally { H.p(90, 1) } })();",
	"return (async () => { for (var i = 0; i < 2; i++) { await H.p(90, i); if (i) return $0 } })();",
	"return (async () => { var r = []; for await (var x of [$0, Promise.resolve(1)]) r.push(x); return r })();",
	"return (async () => { var r = []; for await (var x of (async function*() { yield $0; yield* [1, 2]; return 3 })()) r.push(x); return r })();",
	"var g = (async function*() { var x = yield $0; try { yield x } finally { H.p(90, 'fin') } })(); return (async () => [await g.next(), await g.next(5), await g.return(7), await g.next()])();",
	"var g = (async function*() { try { yield 1 } catch (e) { yield ['c', e] } })(); return (async () => [await g.next(), await g.throw($0), await g.next()])();",
	"class A { async m(x) { return ['A', x] } } class B extends A { async m() { return super.m(await $0) } async n() { var f = async () => super.m(1); return f() } } return (async () => [await new B().m(), await new B().n()])();",
	"var o = {async m() { return [this === o, await $0] }, async *g() { yield this === o }}; return (async () => [await o.m(), await o.g().next()])();",
	"return (async () => { var f = async () => arguments; return (await f()) === arguments })();",
	"return (async (a1, {b1}, [c1], ...d1) => [a1, b1, c1, d1, await $0])(1, {b1: 2}, [3], 4, 5);",
	"return (async () => { var x = await $0, y = await $1; return [x, y] })();",
	"return (async () => (await $0) ?? (await $1))();",
	"return (async () => (await a)?.b)();",
	"return (async () => { label: { await $0; break label } return 1 })();",
	"return (async () => { switch (await $0) { case await $1: return 1; default: return 2 } })();",
	"return (async () => { do { var x = await $0 } while (false); return x })();",
	"return (async () => { throw await $0 })().catch(e => ['rejected', e]);",
	"return (async function f() { return typeof f })();",
	"return Promise.all([(async () => 1)(), (async () => { await null; return 2 })()]);",
	"function* g() { var x = yield $0; return [x, yield* [1]] } var it = g(); return [it.next(), it.next(5), it.next(6)];",
	// misc lowerable syntax
	"try { throw $0 } catch { return 1 }",
	"try { $0 } catch { return 1 } finally { H.p(90, 0) }",
	"return [1_000, 0b1_1, 0x1_F, 1e1_0, .1_1];",
	"return [/a.b/s.test('a\\nb'), /(?<n>x)/.exec('x').groups.n, /\\p{L}/u.test('é'), /(?<=a)b/.test('ab'), /a/y.sticky, /a/d.hasIndices];",
	"return ['\\u{1F600}', `\\u{1F600}`, '\\u{61}'];",
	"var \\u{61}bc = $0; return abc;",
	"return (s => s.raw)`\\u{`;",
	"var f = (s => s); var t = () => f`x${1}`; return [t() === t(), Object.isFrozen(t()), t().raw];",
	"var x = 1; { let x = 2; { const x = 3; H.p(90, x) } H.p(91, x) } return x;",
	"var fs = []; for (let i = 0; i < 2; i++) fs.push(() => i); return fs.map(f => f());",
	"return [1n + 2n, typeof 1n, 2n * 3n];",
	"return ((a1, b1 = a1, [c1, d1 = c1] = [$0], {e1 = d1} = {}) => [a1, b1, c1, d1, e1])(1);",
	"var {a: {b: [x = $0, ...y]} = {b: []}} = {}; return [x, y];",
	"return `a${$0}b${$1}c`;",
	"return (() => new.target)();",
	"return {__proto__: {x: 1}, ['__proto__']: 2, m() { return super.x }}.m();",
	"return {a, b, [c]: 1, get g() { return 1 }, set g(v) {}, async am() {}, *gm() {}, async *agm() {}};",
	"label: for (var x of [1, 2]) { for (var y of [1, 2]) { if (y == 2) continue label; H.p(90, x * 10 + y) } } return 1;",
	// default parameter values of async functions: an exception thrown while they are evaluated rejects the returned
	// promise, it must never escape the call synchronously (the lowered form keeps "harmless" defaults on the outer function)
	"return (() => { try { return (async function(x = $0) { return x })().then(v => ['resolved', v], e => ['rejected', e && e.name]) } catch (e) { return ['threw synchronously', e && e.name] } })();",
	"return (() => { try { return (async function(x = {[$0]: 1}) { return x })().then(v => ['resolved', v], e => ['rejected', e && e.name]) } catch (e) { return ['threw synchronously', e && e.name] } })();",
	"return (() => { try { return (async function(x = [$0]) { return x })().then(v => ['resolved', v], e => ['rejected', e && e.name]) } catch (e) { return ['threw synchronously', e && e.name] } })();",
	"return (() => { try { return (async function(x = {a: $0}) { return x })().then(v => ['resolved', v], e => ['rejected', e && e.name]) } catch (e) { return ['threw synchronously', e && e.name] } })();",
	"return (() => { try { return (async function(x = {a: {[$0]: 2}}) { return x })().then(v => ['resolved', v], e => ['rejected', e && e.name]) } catch (e) { return ['threw synchronously', e && e.name] } })();",
	"return (() => { try { return (async function(x = {a: 1, [$0]: $1}) { return x })().then(v => ['resolved', v], e => ['rejected', e && e.name]) } catch (e) { return ['threw synchronously', e && e.name] } })();",
	"return (() => { try { return (async function(x = [[1], {b: [$0]}]) { return x })().then(v => ['resolved', v], e => ['rejected', e && e.name]) } catch (e) { return ['threw synchronously', e && e.name] } })();",
	"return (() => { try { return (async function(x = {a() {}, [$0]: () => 1}) { return x })().then(v => ['resolved', v], e => ['rejected', e && e.name]) } catch (e) { return ['threw synchronously', e && e.name] } })();",
	"return (() => { try { return (async (x = {[$0]: 1}) => x)().then(v => ['resolved', v], e => ['rejected', e && e.name]) } catch (e) { return ['threw synchronously', e && e.name] } })();",
	"return (() => { try { return ({async m(x = {[$0]: 1}) { return x }}).m().then(v => ['resolved', v], e => ['rejected', e && e.name]) } catch (e) { return ['threw synchronously', e && e.name] } })();",
	"return (() => { try { return (async function(x = {[$0]: 1}, y = 2) { return [x, y, arguments.length] })().then(v => ['resolved', v], e => ['rejected', e && e.name]) } catch (e) { return ['threw synchronously', e && e.name] } })();",
	"return (() => { try { return (async function*(x = {[$0]: 1}) { yield x })().next().then(v => ['resolved', v], e => ['rejected', e && e.name]) } catch (e) { return ['threw synchronously', e && e.name] } })();",
	"return (() => { try { return (async (x = $0) => x)().then(v => ['resolved', v], e => ['rejected', e && e.name]) } catch (e) { return ['threw synchronously', e && e.name] } })();",
	"return (() => { try { return ({async m(x = $0) { return x }}).m().then(v => ['resolved', v], e => ['rejected', e && e.name]) } catch (e) { return ['threw synchronously', e && e.name] } })();",
	"return (() => { try { return (async function(x = $0, y = 2) { return [x, y, arguments.length] })().then(v => ['resolved', v], e => ['rejected', e && e.name]) } catch (e) { return ['threw synchronously', e && e.name] } })();",
	"return (() => { try { return (async function*(x = $0) { yield x })().next().then(v => ['resolved', v], e => ['rejected', e && e.name]) } catch (e) { return ['threw synchronously', e && e.name] } })();",
}

var c05Targets = []xcfg{
	{"es2015", api.TransformOptions{Target: api.ES2015}},
	{"es2016", api.TransformOptions{Target: api.ES2016}},
	{"es2017", api.TransformOptions{Target: api.ES2017}},
	{"es2018", api.TransformOptions{Target: api.ES2018}},
	{"es2019", api.TransformOptions{Target: api.ES2019}},
	{"es2020", api.TransformOptions{Target: api.ES2020}},
	{"es2021", api.TransformOptions{Target: api.ES2021}},
	{"es2022", api.TransformOptions{Target: api.ES2022}},
	{"esnext", api.TransformOptions{Target: api.ESNext}},
	{"es2015+minify-syntax", api.TransformOptions{Target: api.ES2015, MinifySyntax: true}},
	{"es2019+minify-syntax", api.TransformOptions{Target: api.ES2019, MinifySyntax: true}},
	{"es2017+minify-all", api.TransformOptions{Target: api.ES2017, MinifySyntax: true, MinifyWhitespace: true, MinifyIdentifiers: true}},
}

var c05Features = []string{"class-field", "class-private-field", "class-static-field", "class-private-static-field", "class-static-blocks", "class-private-method", "class-private-static-method",
	"class-private-accessor", "class-private-static-accessor", "class-private-brand-check", "optional-chain", "nullish-coalescing", "logical-assignment", "exponent-operator", "object-rest-spread",
	"async-await", "async-generator", "for-await", "optional-catch-binding", "object-accessors", "new-target", "regexp-named-capture-groups", "regexp-dot-all-flag", "regexp-lookbehind-assertions",
	"regexp-unicode-property-escapes", "regexp-sticky-and-unicode-flags", "regexp-match-indices", "unicode-escapes", "bigint", "node-colon-prefix-import", "top-level-await", "decorators", "using"}

func c05Cfgs() []xcfg {
	cfgs := append([]xcfg{}, c05Targets...)
	for _, f := range c05Features {
		cfgs = append(cfgs, xcfg{"esnext-no-" + f, api.TransformOptions{Target: api.ESNext, Supported: map[string]bool{f: false}}})
	}
	return cfgs
}

func c05TemplateSpace(trees []*xnode) xseg {
	np, nt := uint64(len(c05Templates)), uint64(len(trees))
	return xseg{"lowering-templates*tree", np * nt, func(i uint64) xcase {
		pat := c05Templates[i%np]
		n := trees[i/np]
		r := &xrender{}
		var out strings.Builder
		for k := 0; k < len(pat); k++ {
			if pat[k] == '$' && k+1 < len(pat) && (pat[k+1] == '0' || pat[k+1] == '1') {
				t := r.render(n)
				if n.op == nil && isSimpleLeaf(t) {
					out.WriteString(t)
				} else {
					out.WriteString("(" + t + ")")
				}
				k++
				continue
			}
			out.WriteByte(pat[k])
		}
		kind := ""
		if strings.Contains(pat, "async") || strings.Contains(pat, "Promise") {
			kind = "async-result"
		}
		return xcase{code: xProgram(out.String(), ""), kind: kind, label: "lower"}
	}}
}

func c05Trees(tier string) []*xnode {
	t := []*xnode{leafNode("H.p(%d, a)"), leafNode("H.p(%d, b)"), leafNode("a"), leafNode("null"), leafNode("undefined"), leafNode("1")}
	names := []string{"$0?.x", "$0 ?? $1", "$0($1)", "$0.x", "#0 ??= $0", "{...$0}", "[...$0]", "$0 ** $1", "`t${$0}u${$1}`", "() => $0", "class { static x = $0 }.x", "$0?.x($1)", "#0 **= $0", "{x: #0} = $0", "$0, $1", "$0 ? $1 : $2", "async () => $0"}
	if tier == "quick" {
		names = names[:6]
	}
	for _, o := range pickOps(xAllOps, names...) {
		o := o
		t = append(t, opNode(&o))
	}
	return t
}

func runC05(c *Check) {
	c.Rule = "lowerable constructs (operator table incl. optional chain/nullish/logical+exponent assignment/spread/destructuring/classes/async/generators; ~130 lowering templates x operand trees) in every statement context, with probes and universal logging proxies as operands; each program is run natively in Node 22 and compared with esbuild's output for targets es2015..es2022, esnext, minified variants and esnext with each single feature marked unsupported; esbuild errors end a case; distinct = distinct outputs; all tagged/untagged templates of <= 3 chunks over 15 chunk texts under 6 lowering/folding configurations; static/computed constructor methods next to lowered fields"
	c.Assump = []string{"Node 22 (V8) executes the original natively", "microtask-turn counts are not observed (each async case is awaited to completion, log compared per case)", "ES5 targets, decorators and `using` are outside this check (no native reference available for using in Node 22)", "function/class .name of lowered anonymous classes is not observed"}
	pool := NewNodePool("22")
	defer pool.Close()
	x := &xrunner{c: c, cfgs: c05Cfgs(), pool: pool, calls: xCallsStd, noNames: true, fresh: true, quiet: true, classify2: c05Classify,
		// a program that returns a copy of the sloppy-mode global object (`{...this}` in a nested plain function) would
		// observe esbuild's top-level helper variables, which scripts legitimately add to the global object
		skipObs: func(ref string) bool { return strings.Contains(ref, `"globalThis":inst{"Object"`) }}
	all := concatOps(xAllOps, xAsyncGen, xGen)
	red := pickOps(all, xReducedNames...)
	lowerOps := pickOps(all, "$0?.x", "$0?.[$1]", "$0?.($1)", "$0?.x($1)", "$0?.x.y", "($0?.x).y", "($0?.x)($1)", "$0.x?.($1)", "$0?.x[$1]?.y", "delete $0?.x", "$0 ?? $1", "$0 ** $1", "#0 **= $0", "#0 &&= $0", "#0 ||= $0", "#0 ??= $0",
		"{...$0}", "[...$0]", "$0(...$1)", "{x: #0} = $0", "{...#0} = $0", "[#0 = $1] = $0", "{x: #0 = $1} = $0", "{[$1]: #0} = $0", "class { static x = $0 }.x", "new (class { x = $0 })().x", "class { static [$0] = $1 }",
		"class { static #p = $0; static g() { return this.#p } }.g()", "class { static { H.log($0) } }", "class { static #p = 1; static g() { return $0.#p } }.g()", "class { static #p = 1; static g() { return #p in $0 } }.g()",
		"async () => $0", "async function() { return $0 }", "await $0", "(await $0).x", "`t${$0}u${$1}`", "$0`t${$1}u`", "new (class extends $0 {})", "$0?.x.y($1)", "new ($0?.x)", "class { static x = $0; static y = this.x }.y", "new (class { static constructor() { return 5 } x = $0 })().x", "class { static constructor() { return $0 } static y = this.constructor() }.y")
	sp := &xspace{}
	sp.segs = append(sp.segs, segCtxOp(usableCtxs(), all))
	sp.segs = append(sp.segs, segLvals(pickCtx("return", "stmt", "for-of"), all, xLvals))
	sp.segs = append(sp.segs, c05TemplateSpace(c05Trees(c.Tier)))
	sp.segs = append(sp.segs, c05CaptureSpace(c.Tier))
	if c.Tier == "quick" {
		sp.segs = append(sp.segs, segPairs("return*lower-op*slot*reduced", pickCtx("return"), lowerOps, red))
		sp.segs = append(sp.segs, segPairs("return*reduced*slot*lower-op", pickCtx("return", "stmt"), red, lowerOps))
	} else {
		sp.segs = append(sp.segs, segPairs("ctx*lower-op*slot*all", pickCtx("return", "stmt", "arrow-body", "class-static", "default-arg"), lowerOps, all))
		sp.segs = append(sp.segs, segPairs("ctx*all*slot*lower-op", pickCtx("return", "stmt", "arrow-body", "class-static", "default-arg"), all, lowerOps))
		sp.segs = append(sp.segs, segDepth3(pickCtx("return")[0], pickOps(all, "$0?.x", "$0?.($1)", "$0 ?? $1", "#0 ??= $0", "{...$0}", "$0(...$1)", "class { static x = $0 }.x", "async () => $0", "await $0", "$0.x", "$0($1)", "#0 = $0", "$0 ? $1 : $2", "() => $0", "$0, $1", "{x: #0} = $0", "#0 **= $0", "delete $0?.x")))
	}
	x.runSpace(sp)
	c05TemplateLiterals(c, pool)
}

// c05Classify recognises, line by line, the deviations recorded in known_findings.json (each one a
// specific lowering helper behaviour); every differing call line must be explained, otherwise the
// mismatch stays an ordinary violation.
var c05RestTargetProbe = regexp.MustCompile(`\{\.\.\.\(?[a-zA-Z]+[.\[?]`)

var c05SpreadOfPatternAssign = regexp.MustCompile(`\.\.\.\(\s*[\[{][^=]*[\]}] = `)

func c05Classify(exp, got, input string) []string {
	if strings.HasPrefix(got, "eval-throw:SyntaxError") && !strings.HasPrefix(exp, "eval-throw") && c05SpreadOfPatternAssign.MatchString(input) {
		// `{x: 1, ...({x: a} = b)}` lowered to `__spreadValues({ x: 1 }, { x: a } = b)`: valid ECMAScript, but every V8
		// rejects a destructuring assignment argument that follows an object literal argument
		return []string{"lowered-object-spread-passes-destructuring-assignment-argument-that-v8-rejects"}
	}
	el, gl := strings.Split(exp, "\n"), strings.Split(got, "\n")
	if len(el) != len(gl) {
		return nil
	}
	keys := map[string]bool{}
	for i := range el {
		if el[i] == gl[i] {
			continue
		}
		ei, gi := strings.LastIndex(el[i], "|"), strings.LastIndex(gl[i], "|")
		if ei < 0 || gi < 0 {
			return nil
		}
		elog, eres, glog, gres := el[i][:ei], el[i][ei+1:], gl[i][:gi], gl[i][gi+1:]
		switch {
		case c05RestTargetProbe.MatchString(input):
			keys["lowered-rest-assignment-target-evaluated-before-right-hand-side"] = true
		case strings.Contains(input, "(x = ") && strings.Contains(input, "?.") && gres == "throw=ReferenceError":
			keys["lowered-optional-chain-in-default-parameter-references-out-of-scope-temporary"] = true
		case strings.Contains(input, "async (") && strings.Contains(input, "new.target") && strings.HasSuffix(eres, "ret=true") && strings.HasSuffix(gres, "ret=false"):
			keys["lowered-async-arrow-loses-new-target"] = true
		case strings.Contains(input, "async (") && strings.Contains(input, "super") && eres != gres && strings.Replace(eres, ",true]", ",false]", 1) == gres:
			keys["lowered-async-arrow-super-access-receives-no-this"] = true
		case strings.Contains(input, "new.target") && strings.Contains(input, "class"):
			keys["lowered-class-field-initializer-sees-constructor-new-target"] = true
		case strings.Contains(input, "class") && strings.Contains(input, "static") && strings.Contains(input, "[this,") && c05OnlyThisDiffers(el[i], gl[i]):
			// (any static initializer or static block: the call `.call(3)` of a sloppy function boxes its this value)
			keys["lowered-static-field-initializer-loses-strict-mode"] = true
		case strings.Contains(input, "class { static x = ") && strings.Contains(input, "delete ") && elog == glog && eres == "throw=TypeError" && gres == "ret=false":
			// (`delete` of a non-configurable property throws only in strict code)
			keys["lowered-static-field-initializer-loses-strict-mode"] = true
		case strings.Contains(input, "class { static x = ") && strings.Contains(input, "[this,"):
			keys["lowered-static-field-initializer-loses-strict-mode"] = true
		case strings.Contains(input, "for (this.#x of"):
			keys["lowered-private-field-as-for-of-target-assigns-public-property"] = true
		case strings.Contains(input, "class") && strings.Contains(input, "[") && eres == gres && sortedTokens(normHints(elog)) == sortedTokens(normHints(glog)):
			keys["lowered-class-computed-field-key-converted-after-initializer"] = true
		case strings.Contains(input, "class") && strings.Contains(input, "[") && strings.HasPrefix(eres, "throw=") && eres == gres && strings.HasPrefix(normHints(elog), normHints(glog)):
			keys["lowered-class-computed-field-key-converted-after-initializer"] = true
		case strings.Contains(input, "async") && eres == "throw=TypeError" && !strings.HasPrefix(gres, "throw="):
			keys["lowered-async-function-is-constructible"] = true
		case strings.Contains(input, "new (async function") && eres == "throw=TypeError" && strings.HasPrefix(glog, elog) && len(glog) > len(elog):
			// the construction succeeded (the body ran), a later step threw
			keys["lowered-async-function-is-constructible"] = true
		case strings.Contains(input, "async") && elog == glog && strings.ReplaceAll(eres, "inst[object AsyncFunction]", "inst") == gres:
			// the same ordinary function observed through its [[Prototype]] chain (Symbol.toStringTag of AsyncFunction.prototype)
			keys["lowered-async-function-is-constructible"] = true
		case strings.Contains(input, "...") && eres == "throw=TypeError" && strings.HasPrefix(gres, "throw=") && strings.HasPrefix(glog, elog):
			keys["lowered-object-rest-of-null-or-undefined-does-not-throw"] = true
		case eres == gres && normHints(elog) == normHints(glog):
			keys["unused-computed-key-toprimitive-hint"] = true
		case strings.Contains(input, "?.") && strings.HasPrefix(eres, "throw=") && gres == "throw=TypeError" && strings.HasPrefix(elog, glog):
			keys["lowered-optional-chain-callee-throws-before-arguments-are-evaluated"] = true
		case strings.Contains(input, "...") && eres == "throw=TypeError" && strings.HasPrefix(gres, "ret=") && strings.HasPrefix(glog, elog):
			keys["lowered-object-rest-of-null-or-undefined-does-not-throw"] = true
		case strings.Contains(input, "...") && strings.Contains(input, "[") && eres == gres && (removeOnePrimDefault(glog) == elog || removeOneTok(glog, "valueOf") == elog):
			keys["lowered-object-rest-converts-computed-key-twice"] = true
		case c05RestTargetProbe.MatchString(input):
			keys["lowered-rest-assignment-target-evaluated-before-right-hand-side"] = true
		default:
			ks := c05Explain(elog, eres, glog, gres, input)
			if ks == nil {
				return nil
			}
			for _, k := range ks {
				keys[k] = true
			}
		}
	}
	var out []string
	for k := range keys {
		out = append(out, k)
	}
	sort.Strings(out)
	return out
}

// c05Explain handles lines in which several recorded deviations overlap (thorough-tier trees): the log is split into
// ToPrimitive conversion tokens and all other tokens; each part must be explained by a recorded finding whose
// syntactic precondition holds for the input, otherwise the mismatch stays an ordinary violation.
func c05Explain(elog, eres, glog, gres, input string) []string {
	split := func(log string) (rest, conv, all []string) {
		for _, t := range strings.Split(log, ",") {
			if t == "" {
				continue
			}
			if strings.Contains(t, ":prim:") {
				t = normHints(t)
				conv = append(conv, t)
			} else {
				rest = append(rest, t)
			}
			all = append(all, t)
		}
		return
	}
	isPrefix := func(a, b []string) bool { // a is a prefix of b
		if len(a) > len(b) {
			return false
		}
		for i := range a {
			if a[i] != b[i] {
				return false
			}
		}
		return true
	}
	E, CE, AE := split(elog)
	G, CG, AG := split(glog)
	classKey := strings.Contains(input, "class") && strings.Contains(input, "[")
	restKey := strings.Contains(input, "...") && strings.Contains(input, "[")
	var keys []string
	truncated := false
	switch {
	case len(E) == len(G) && isPrefix(E, G) && eres == gres:
		// only the conversions differ
	case strings.Contains(input, "?.") && strings.HasPrefix(eres, "throw=") && gres == "throw=TypeError" && isPrefix(G, E) && len(G) < len(E):
		keys = append(keys, "lowered-optional-chain-callee-throws-before-arguments-are-evaluated")
		truncated = true
	case classKey && eres == gres && strings.HasPrefix(eres, "throw=") && isPrefix(E, G) && len(E) < len(G) && len(CG) <= len(CE):
		// the key conversion that throws natively at class definition time happens after the initializers when lowered
		return []string{"lowered-class-computed-field-key-converted-after-initializer"}
	default:
		return nil
	}
	count := func(l []string) map[string]int {
		m := map[string]int{}
		for _, t := range l {
			m[t]++
		}
		return m
	}
	ce, cg := count(CE), count(CG)
	missing, extra, extraIsDuplicate := 0, 0, true
	for t, n := range ce {
		if cg[t] < n {
			missing += n - cg[t]
		}
	}
	for t, n := range cg {
		if n > ce[t] {
			extra += n - ce[t]
			if ce[t] == 0 {
				extraIsDuplicate = false
			}
		}
	}
	switch {
	case missing == 0 && extra == 0:
		sameOrder := isPrefix(AG, AE) && (truncated || len(AG) == len(AE))
		rawConv := func(log string) (r []string) {
			for _, t := range strings.Split(log, ",") {
				if strings.Contains(t, ":prim:") {
					r = append(r, t)
				}
			}
			sort.Strings(r)
			return
		}
		hintsDiffer := strings.Join(rawConv(elog), ",") != strings.Join(rawConv(glog), ",")
		if !sameOrder || hintsDiffer {
			if !sameOrder && !classKey {
				return nil
			}
			if classKey {
				keys = append(keys, "lowered-class-computed-field-key-converted-after-initializer")
			} else if eres == gres && sameOrder {
				keys = append(keys, "unused-computed-key-toprimitive-hint")
			} else {
				return nil
			}
		}
	case extra == 0 && missing > 0 && classKey && strings.HasPrefix(gres, "throw="):
		// the conversion of the class member key comes after the initializer, which threw first
		keys = append(keys, "lowered-class-computed-field-key-converted-after-initializer")
	case missing == 0 && extra > 0 && extraIsDuplicate && restKey:
		keys = append(keys, "lowered-object-rest-converts-computed-key-twice")
	default:
		return nil
	}
	if len(keys) == 0 {
		return nil
	}
	return keys
}

// c05OnlyThisDiffers: the two observation lines are identical except for the first element of one array, which is a
// primitive (strict `this`) in the expected line and an object (boxed primitive or the global object) in the other
func c05OnlyThisDiffers(e, g string) bool {
	p := 0
	for p < len(e) && p < len(g) && e[p] == g[p] {
		p++
	}
	q := 0
	for q < len(e)-p && q < len(g)-p && e[len(e)-1-q] == g[len(g)-1-q] {
		q++
	}
	if p == 0 || e[p-1] != '[' {
		return false
	}
	te, tg := e[p:len(e)-q], g[p:len(g)-q]
	// the common suffix may have swallowed the separator
	if !strings.HasPrefix(e[len(e)-q:], ",") && !strings.HasSuffix(te, ",") {
		if i := strings.Index(e[len(e)-q:], ","); i < 0 {
			return false
		}
	}
	prim := regexp.MustCompile(`^(n:-?[0-9.]+|undefined|null|true|false|"[^"]*")`)
	return prim.MatchString(te) && strings.HasPrefix(tg, "inst")
}

func normHints(s string) string {
	return strings.ReplaceAll(strings.ReplaceAll(s, ":prim:string", ":prim:default"), "toString", "valueOf")
}

func removeOnePrimDefault(log string) string {
	parts := strings.Split(log, ",")
	for i := len(parts) - 1; i >= 0; i-- {
		if strings.HasSuffix(parts[i], ":prim:default") {
			return strings.Join(append(append([]string{}, parts[:i]...), parts[i+1:]...), ",")
		}
	}
	return log
}

func removeOneTok(log, pfx string) string {
	parts := strings.Split(log, ",")
	for i := len(parts) - 1; i >= 0; i-- {
		if strings.HasPrefix(parts[i], pfx) {
			return strings.Join(append(append([]string{}, parts[:i]...), parts[i+1:]...), ",")
		}
	}
	return log
}

func sortedTokens(log string) string {
	parts := strings.Split(log, ",")
	sort.Strings(parts)
	return strings.Join(parts, ",")
}

func init() { register("C05", "exploration", runC05) }
