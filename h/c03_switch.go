package main

import "fmt"

// Switch space: every switch of <= 3 clauses over {case 1, case 2, case <probe>, default} (at most one default, in any
// position) x 6 clause bodies (empty, effect, effect+break, return, effect+continue, block with break), executed for
// the discriminants 1, 2 and 3 both inside a loop and as a function. The minifier rewrites small switches into
// if/else chains and drops trailing breaks; fall-through, default position and case-expression evaluation order are
// what can go wrong.
func c03SwitchSpace(tier string) xseg {
	heads := []string{"case 1:", "case 2:", "case H.p(%d, 1):", "default:"}
	bodies := []string{"", "H.log('b%d');", "H.log('b%d'); break;", "return 'r%d';", "H.log('b%d'); continue;", "{ H.log('b%d'); break }"}
	type clause struct{ h, b int }
	var clauses []clause
	for h := range heads {
		for b := range bodies {
			clauses = append(clauses, clause{h, b})
		}
	}
	var progs []string
	render := func(cs []clause, loop bool) string {
		s := ""
		for i, c := range cs {
			h := heads[c.h]
			if c.h == 2 {
				h = fmt.Sprintf(h, 90+i)
			}
			b := bodies[c.b]
			if c.b != 0 {
				b = fmt.Sprintf(b, i)
			}
			if !loop && c.b == 4 {
				b = fmt.Sprintf("H.log('b%d'); return 'c%d';", i, i)
			}
			s += h + " " + b + " "
		}
		if loop {
			return "for (var v of [1, 2, 3]) { switch (v) { " + s + "} H.log('after', v); } return 'end';"
		}
		return "function f(v) { switch (v) { " + s + "} H.log('after', v); return 'end' } return [f(1), f(2), f(3)];"
	}
	var rec func(cur []clause, hasDefault bool, maxLen int)
	rec = func(cur []clause, hasDefault bool, maxLen int) {
		if len(cur) > 0 {
			progs = append(progs, render(cur, true), render(cur, false))
		}
		if len(cur) == maxLen {
			return
		}
		for ci, c := range clauses {
			if c.h == 3 && hasDefault {
				continue
			}
			if tier == "quick" && len(cur) == 2 && (ci+len(progs))%4 != 0 {
				continue
			}
			rec(append(append([]clause{}, cur...), c), hasDefault || c.h == 3, maxLen)
		}
	}
	rec(nil, false, 3)
	return xseg{"switch-space: clauses<=3 x bodies x default position", uint64(len(progs)), func(i uint64) xcase {
		return xcase{code: xProgram(progs[i], ""), label: "switch"}
	}}
}
