package main

// C01: Transform (no minify-syntax/identifiers, no lowering) preserves behaviour and literal values.

import (
	"fmt"
	"os"
	"strings"
	"time"

	"github.com/evanw/esbuild/pkg/api"
)

type xcase struct {
	code  string
	kind  string // "", "async", "gen"
	label string
	ref   string                        // optional reference program (default: the input itself)
	mod   func(o *api.TransformOptions) // optional per-case option modifier (define/pure/drop ...)
}

type xcfg struct {
	name string
	opts api.TransformOptions
}

type runCase struct {
	Codes   []string      `json:"codes"`
	Calls   []interface{} `json:"calls"`
	Async   bool          `json:"async,omitempty"`
	Fresh   bool          `json:"fresh,omitempty"`
	Mode    string        `json:"mode,omitempty"`
	NoNames bool          `json:"noNames,omitempty"`
	Quiet   bool          `json:"quiet,omitempty"`
	Prelude string        `json:"prelude,omitempty"`
}
type runResp struct {
	R          [][]string `json:"r"`
	InfraError string     `json:"infraError"`
}

func nodeRun(n *Node, cases []runCase) [][]string {
	var resp runResp
	if !n.CallT(map[string]interface{}{"op": "run", "cases": cases}, &resp, 30*time.Second) {
		// a case hangs: isolate it by running the cases one by one; a hanging case is answered with
		// TIMEOUT observations (the caller skips such cases; they are counted, never verdicts)
		out := make([][]string, len(cases))
		for i, cs := range cases {
			var r1 runResp
			if len(cases) > 1 && n.CallT(map[string]interface{}{"op": "run", "cases": []runCase{cs}}, &r1, 20*time.Second) && len(r1.R) == 1 {
				out[i] = r1.R[0]
			} else {
				out[i] = make([]string, len(cs.Codes))
				for k := range out[i] {
					out[i][k] = "TIMEOUT"
				}
			}
		}
		return out
	}
	if resp.InfraError != "" || len(resp.R) != len(cases) {
		fatalf("run op failed: %s", resp.InfraError)
	}
	return resp.R
}

// xspace is a list of segments, each an indexable finite space of cases.
type xseg struct {
	name string
	size uint64
	at   func(i uint64) xcase
}

type xspace struct {
	segs []xseg
}

func (s *xspace) Size() uint64 {
	var n uint64
	for _, g := range s.segs {
		n += g.size
	}
	return n
}
func (s *xspace) At(i uint64) (xcase, string) {
	for _, g := range s.segs {
		if i < g.size {
			return g.at(i), g.name
		}
		i -= g.size
	}
	panic("index out of range")
}

func kindOf(o *xop) string {
	if strings.Contains(o.tags, "async") {
		return "async"
	}
	if strings.Contains(o.tags, "gen") {
		return "gen"
	}
	return ""
}

func mergeKind(a, b string) (string, bool) {
	if a == "" {
		return b, true
	}
	if b == "" || a == b {
		return a, true
	}
	return "", false
}

func fnBoundary(s string) bool {
	return strings.Contains(s, "=>") || strings.Contains(s, "function") || strings.Contains(s, "() {") || strings.Contains(s, " = $0") && strings.Contains(s, "class")
}

func mkCase(ctx xctx, n *xnode, kind string) xcase {
	if kind != "" && (fnBoundary(ctx.tpl) || (strings.HasPrefix(ctx.name, "class-") && ctx.name != "class-extends" && ctx.name != "class-key")) {
		// await expressions are not part of the grammar of class field initialisers: use a plain function
		// (the tree's "await" then is not generated in this context; see known finding probe)
		ctx = xContexts[0]
	}
	r := &xrender{parens: ctx.parensMode()}
	body := xCtxRender(ctx, r, n)
	return xcase{code: xProgram(body, kind), kind: kind, label: ctx.name}
}

// mkCaseParens: like mkCase with a parenthesisation mode (see xrender.parens)
func mkCaseParens(ctx xctx, n *xnode, kind string, parens int) xcase {
	r := &xrender{parens: parens}
	body := xCtxRender(ctx, r, n)
	return xcase{code: xProgram(body, kind), kind: kind, label: ctx.name}
}

// segDepth3Parens: segDepth3 under a parenthesisation mode
func segDepth3Parens(ctx xctx, opl []xop, parens int) xseg {
	base := segDepth3(ctx, opl)
	type ps struct {
		p    *xop
		slot int
	}
	var pss []ps
	for i := range opl {
		for s := 0; s < opl[i].nE; s++ {
			pss = append(pss, ps{&opl[i], s})
		}
	}
	np, nk := uint64(len(pss)), uint64(len(opl))
	return xseg{fmt.Sprintf("depth3-parens%d", parens), base.size, func(i uint64) xcase {
		ch := &opl[i%nk]
		i /= nk
		p := pss[i%np]
		g := pss[i/np]
		kids := make([]*xnode, p.p.nE)
		kids[p.slot] = opNode(ch)
		mid := opNode(p.p, kids...)
		gk := make([]*xnode, g.p.nE)
		gk[g.slot] = mid
		return mkCaseParens(ctx, opNode(g.p, gk...), "", parens)
	}}
}

// segCtxOp: every context x every op (default leaves).
func segCtxOp(ctxs []xctx, opl []xop) xseg {
	return xseg{"ctx*op", uint64(len(ctxs) * len(opl)), func(i uint64) xcase {
		ctx := ctxs[i%uint64(len(ctxs))]
		o := &opl[i/uint64(len(ctxs))]
		return mkCase(ctx, opNode(o), kindOf(o))
	}}
}

// segPairs: ctx x parent x slot x child-op.
func segPairs(name string, ctxs []xctx, parents, children []xop) xseg {
	type ps struct {
		p    *xop
		slot int
	}
	var pss []ps
	for i := range parents {
		for s := 0; s < parents[i].nE; s++ {
			pss = append(pss, ps{&parents[i], s})
		}
	}
	nc, np, nk := uint64(len(ctxs)), uint64(len(pss)), uint64(len(children))
	return xseg{name, nc * np * nk, func(i uint64) xcase {
		ctx := ctxs[i%nc]
		i /= nc
		ch := &children[i%nk]
		p := pss[i/nk]
		kids := make([]*xnode, p.p.nE)
		kids[p.slot] = opNode(ch)
		k, ok := mergeKind(kindOf(p.p), kindOf(ch))
		if kindOf(ch) != "" && fnBoundary(p.p.tpl) {
			ok = false // await/yield inside a nested non-async function is not an await/yield expression
			k = ""
			if kindOf(p.p) != "" {
				k = kindOf(p.p)
			}
			kids[p.slot] = nil
		} else if !ok {
			k = kindOf(p.p)
			kids[p.slot] = nil
		}
		_ = ok
		return mkCase(ctx, opNode(p.p, kids...), k)
	}}
}

// segLeaves: ctx x parent x slot x leaf literal.
func segLeaves(ctxs []xctx, parents []xop, leaves []string) xseg {
	type ps struct {
		p    *xop
		slot int
	}
	var pss []ps
	for i := range parents {
		for s := 0; s < parents[i].nE; s++ {
			pss = append(pss, ps{&parents[i], s})
		}
	}
	nc, np, nk := uint64(len(ctxs)), uint64(len(pss)), uint64(len(leaves))
	return xseg{"ctx*parent*slot*leaf", nc * np * nk, func(i uint64) xcase {
		ctx := ctxs[i%nc]
		i /= nc
		lf := leaves[i%nk]
		p := pss[i/nk]
		kids := make([]*xnode, p.p.nE)
		kids[p.slot] = leafNode(lf)
		return mkCase(ctx, opNode(p.p, kids...), kindOf(p.p))
	}}
}

// segPairsLeaf: ctx x parent x slot x child-op x child-slot x literal leaf (the other operands stay probes): the
// shapes "operator applied to an operator whose operand is a constant", e.g. (f(), 0) || x, !(f(), ""), (a ? 1 : 1) + x.
func segPairsLeaf(name string, ctxs []xctx, parents, children []xop, leaves []string) xseg {
	type ps struct {
		p    *xop
		slot int
	}
	var pss, css []ps
	for i := range parents {
		for s := 0; s < parents[i].nE; s++ {
			pss = append(pss, ps{&parents[i], s})
		}
	}
	for i := range children {
		for s := 0; s < children[i].nE; s++ {
			css = append(css, ps{&children[i], s})
		}
	}
	nc, np, nk, nl := uint64(len(ctxs)), uint64(len(pss)), uint64(len(css)), uint64(len(leaves))
	return xseg{name, nc * np * nk * nl, func(i uint64) xcase {
		ctx := ctxs[i%nc]
		i /= nc
		lf := leaves[i%nl]
		i /= nl
		ch := css[i%nk]
		p := pss[i/nk]
		if kindOf(ch.p) != "" || kindOf(p.p) != "" {
			// await/yield operators are covered by segPairs; keep this segment to plain expressions
			return mkCase(ctx, opNode(p.p), kindOf(p.p))
		}
		ck := make([]*xnode, ch.p.nE)
		ck[ch.slot] = leafNode(lf)
		kids := make([]*xnode, p.p.nE)
		kids[p.slot] = opNode(ch.p, ck...)
		return mkCase(ctx, opNode(p.p, kids...), "")
	}}
}

// segLvals: parent-with-lvalue x every lvalue form.
func segLvals(ctxs []xctx, parents []xop, lvals []string) xseg {
	var ps []*xop
	for i := range parents {
		if parents[i].nL > 0 {
			ps = append(ps, &parents[i])
		}
	}
	nc, np, nk := uint64(len(ctxs)), uint64(len(ps)), uint64(len(lvals))
	return xseg{"ctx*lvalue-op*lvalue", nc * np * nk, func(i uint64) xcase {
		ctx := ctxs[i%nc]
		i /= nc
		lv := lvals[i%nk]
		p := ps[i/nk]
		n := opNode(p)
		n.lv[0] = lv
		// patterns are only valid for plain "=" and destructuring; others yield invalid input which is
		// detected by V8 and skipped (counted) by the runner.
		return mkCase(ctx, n, kindOf(p))
	}}
}

// segDepth3: return-ctx x grand x slot x parent x slot x child over reduced op lists.
func segDepth3(ctx xctx, opl []xop) xseg {
	type ps struct {
		p    *xop
		slot int
	}
	var pss []ps
	for i := range opl {
		for s := 0; s < opl[i].nE; s++ {
			pss = append(pss, ps{&opl[i], s})
		}
	}
	np, nk := uint64(len(pss)), uint64(len(opl))
	return xseg{"depth3-reduced", np * np * nk, func(i uint64) xcase {
		ch := &opl[i%nk]
		i /= nk
		p := pss[i%np]
		g := pss[i/np]
		kids := make([]*xnode, p.p.nE)
		kids[p.slot] = opNode(ch)
		mid := opNode(p.p, kids...)
		gk := make([]*xnode, g.p.nE)
		gk[g.slot] = mid
		return mkCase(ctx, opNode(g.p, gk...), "")
	}}
}

func pickOps(all []xop, names ...string) []xop {
	var r []xop
	for _, n := range names {
		found := false
		for _, o := range all {
			if o.name == n {
				r = append(r, o)
				found = true
			}
		}
		if !found {
			panic("pickOps: " + n)
		}
	}
	return r
}

func pickCtx(names ...string) []xctx {
	var r []xctx
	for _, n := range names {
		for _, c := range xContexts {
			if c.name == n {
				r = append(r, c)
			}
		}
	}
	return r
}

func usableCtxs() []xctx {
	var r []xctx
	for _, c := range xContexts {
		if c.tags != "skip" {
			r = append(r, c)
		}
	}
	return r
}

// One representative per precedence level/associativity + the printer's special cases.
var xReducedNames = []string{"$0, $1", "#0 = $0", "#0 **= $0", "$0 ? $1 : $2", "$0 ?? $1", "$0 || $1", "$0 && $1", "$0 | $1", "$0 == $1", "$0 < $1", "$0 in $1", "$0 << $1",
	"$0 + $1", "$0 - $1", "$0 * $1", "$0 ** $1", "-$0", "typeof $0", "void $0", "++#0", "#0--", "$0($1)", "new $0", "new $0($1)", "$0.x", "$0?.x", "$0?.($1)", "$0`t`", "() => $0",
	"function() { return $0 }", "{x: $0}", "[$0, $1]", "class {}", "async () => $0", "{x: #0} = $0", "new.target", "$0[$1]", "(async)($0)"}

var c01Cfgs = []xcfg{
	{"default", api.TransformOptions{}},
	{"ws", api.TransformOptions{MinifyWhitespace: true}},
	{"ascii-ws-ll1", api.TransformOptions{MinifyWhitespace: true, Charset: api.CharsetASCII, LineLimit: 1}},
	{"esm-ll40", api.TransformOptions{Format: api.FormatESModule, LineLimit: 40}},
	{"cjs-node", api.TransformOptions{Format: api.FormatCommonJS, Platform: api.PlatformNode}},
	{"iife-browser-ws", api.TransformOptions{Format: api.FormatIIFE, Platform: api.PlatformBrowser, MinifyWhitespace: true, Charset: api.CharsetUTF8}},
	{"neutral-ll1", api.TransformOptions{Platform: api.PlatformNeutral, LineLimit: 1}},
}

type xrunner struct {
	c         *Check
	cfgs      []xcfg
	pool      *NodePool
	calls     []interface{}
	baseline  func(code string, kind string) (string, bool) // nil: the input itself is the reference
	onOutput  func(cs xcase, cfg string, out string)        // optional extra oracle per output
	keyPrefix string
	fresh     bool                                                     // evaluate every code in a fresh V8 context (outputs with top-level helper variables)
	skipCfg   func(cs xcase, cfg string) bool                          // optional: configurations that do not apply to a case
	prelude   string                                                   // script evaluated in the context before every code (not seen by esbuild)
	quiet     bool                                                     // universal proxies do not log ownKeys / .call lookups
	noNames   bool                                                     // do not observe constructor/function names (minify-identifiers without keep-names)
	classify  func(exp, got string) string                             // maps a mismatch to a known-finding key ("" = ordinary violation)
	classify2 func(exp, got, input string) []string                    // same, several keys, sees the input (nil/empty = ordinary violation)
	transform func(code string, o api.TransformOptions) (string, bool) // nil: api.Transform; else e.g. a bundle of code + imported modules
	skipObs   func(refObs string) bool                                 // optional: reference observations the generator must not produce (counted, skipped)
}

// runBatch evaluates a batch of cases: reference (input) vs every configuration's output in V8.
func (x *xrunner) runBatch(w int, cases []xcase, seg string) {
	c := x.c
	type pending struct {
		cs    xcase
		cfgs  []string
		codes []string
	}
	var rcs []runCase
	var pend []pending
	for _, cs := range cases {
		c.Eval(1)
		ref := cs.code
		if cs.ref != "" {
			ref = cs.ref
		}
		if x.baseline != nil {
			var ok bool
			ref, ok = x.baseline(cs.code, cs.kind)
			if !ok {
				c.Sub("baseline_rejected", 1)
				continue
			}
		}
		p := pending{cs: cs, codes: []string{ref}, cfgs: []string{"ref"}}
		seen := map[string]bool{ref: true}
		for _, cfg := range x.cfgs {
			if x.skipCfg != nil && x.skipCfg(cs, cfg.name) {
				continue
			}
			o := cfg.opts
			if cs.mod != nil {
				cs.mod(&o)
			}
			var out string
			var ok bool
			if x.transform != nil {
				out, ok = x.transform(cs.code, o)
			} else {
				out, ok, _ = transformJS(cs.code, o)
			}
			if !ok {
				c.Sub("rejected:"+cfg.name, 1)
				if cfg.name == "default" && os.Getenv("VERIF_DEBUG") != "" {
					fmt.Println("REJECTED", strings.ReplaceAll(cs.code, "\n", " "))
				}
				continue
			}
			if x.onOutput != nil {
				x.onOutput(cs, cfg.name, out)
			}
			c.Distinct(out)
			if seen[out] {
				continue
			}
			seen[out] = true
			p.codes = append(p.codes, out)
			p.cfgs = append(p.cfgs, cfg.name)
		}
		if len(p.codes) < 2 {
			continue
		}
		pend = append(pend, p)
		rcs = append(rcs, runCase{Codes: p.codes, Calls: x.calls, Async: strings.HasPrefix(cs.kind, "async"), NoNames: x.noNames, Fresh: x.fresh, Quiet: x.quiet, Prelude: x.prelude})
	}
	if len(rcs) == 0 {
		return
	}
	res := nodeRun(x.pool.Get(w), rcs)
	for i, p := range pend {
		obs := res[i]
		if strings.HasPrefix(obs[0], "eval-throw:SyntaxError") {
			c.Sub("generator_invalid_input", 1)
			if os.Getenv("VERIF_DEBUG") != "" {
				fmt.Println("INVALID", strings.ReplaceAll(p.cs.code, "\n", " "))
			}
			continue
		}
		timeout := false
		for _, o := range obs {
			if strings.Contains(o, "TIMEOUT") {
				timeout = true
			}
		}
		if timeout {
			c.Sub("timeout_skipped", 1)
			if os.Getenv("VERIF_DEBUG") != "" {
				fmt.Println("TIMEOUT", strings.ReplaceAll(p.cs.code, "\n", " "))
			}
			continue
		}
		if x.skipObs != nil && x.skipObs(obs[0]) {
			c.Sub("generator_observes_excluded_state", 1)
			continue
		}
		c.Sub("executed", 1)
		for k := 1; k < len(obs); k++ {
			if obs[k] != obs[0] {
				key := x.keyPrefix + p.cfgs[k] + ":" + p.cs.code
				if seg == "known-probes" {
					key = "probe:" + p.cs.code
				}
				if x.classify != nil {
					if k := x.classify(obs[0], obs[k]); k != "" {
						key = k
					}
				}
				if x.classify2 != nil {
					if ks := x.classify2(obs[0], obs[k], p.cs.code); len(ks) > 0 {
						for _, kk := range ks[1:] {
							c.Violation(kk, map[string]interface{}{"kind": "behaviour-differs", "segment": seg, "config": p.cfgs[k], "input": p.cs.code, "output": p.codes[k], "expected_obs": obs[0], "observed_obs": obs[k]})
						}
						key = ks[0]
					}
				}
				c.Violation(key, map[string]interface{}{"kind": "behaviour-differs", "segment": seg, "config": p.cfgs[k], "input": p.cs.code, "reference": p.codes[0], "output": p.codes[k], "expected_obs": obs[0], "observed_obs": obs[k]})
			}
		}
	}
}

func (x *xrunner) runSpace(sp *xspace) {
	const B = 32
	for _, g := range sp.segs {
		g := g
		nb := (g.size + B - 1) / B
		done := x.c.ForEach(nb, func(w int, bi uint64) {
			var cs []xcase
			for i := bi * B; i < (bi+1)*B && i < g.size; i++ {
				cs = append(cs, g.at(i))
			}
			x.runBatch(w, cs, g.name)
		})
		x.c.Set("segment:"+g.name, map[string]interface{}{"size": g.size, "batches_done": done, "batches": nb})
		if g.size > 0 {
			x.c.Sample(map[string]string{"segment": g.name, "program": g.at(g.size / 2).code})
		}
	}
}

func runC01(c *Check) {
	c.Rule = "expression trees over the full operator table placed in every statement context (ctx x op; ctx x parent x slot x child; leaves; lvalues; depth 3 over reduced table), literal round-trips and JSX trees; every output of 7 formatting configurations executed in V8 against the input with universal logging proxies and value grids; distinct = distinct esbuild outputs"
	c.Assump = []string{"V8 (Node 20) executes input and output; Function.prototype.toString and stack text are never observed", "inputs are fully parenthesised by the generator so their meaning is unambiguous"}
	pool := NewNodePool("")
	defer pool.Close()
	if os.Getenv("VERIF_C01_ONLY") == "jsx" { // debugging aid
		c01JSX(c, pool)
		return
	}
	x := &xrunner{c: c, cfgs: c01Cfgs, pool: pool, calls: xCallsStd}
	all := xAllOps
	ctxs := usableCtxs()
	red := pickOps(concatOps(all, xAsyncGen, xGen), xReducedNames...)
	sp := &xspace{}
	sp.segs = append(sp.segs, segCtxOp(ctxs, concatOps(all, xAsyncGen, xGen)))
	sp.segs = append(sp.segs, segLeaves(pickCtx("return", "stmt", "for-init"), all, xLeafLit))
	sp.segs = append(sp.segs, segLvals(pickCtx("return", "stmt", "for-init", "for-of"), all, xLvals))
	constLeaves := []string{"0", "1", "\"\"", "null", "undefined", "true", "NaN", "\"s\""}
	if c.Tier == "quick" {
		sp.segs = append(sp.segs, segPairsLeaf("return*reduced*slot*reduced*slot*constant", pickCtx("return"), red, red, constLeaves[:5]))
		sp.segs = append(sp.segs, segPairs("return*parent*slot*child(reduced)", pickCtx("return"), concatOps(all, xAsyncGen, xGen), red))
		sp.segs = append(sp.segs, segPairs("spine-ctx*reduced*slot*reduced", pickCtx("stmt", "for-init", "arrow-body-noparen", "new-callee", "class-extends", "for-of", "label", "stmt-after-expr"), red, red))
		// the same pairs without generated parentheses (esbuild remembers some source parentheses, so fully
		// parenthesised inputs never exercise the printer's own decisions); programs V8 rejects are skipped
		sp.segs = append(sp.segs, segPairs("bare-ctx*reduced*slot*reduced", withParens(pickCtx("return", "stmt", "for-var-init", "arrow-body-noparen"), 2), red, red))
	} else {
		sp.segs = append(sp.segs, segPairs("return*parent*slot*child", pickCtx("return"), concatOps(all, xAsyncGen, xGen), concatOps(all, xAsyncGen, xGen)))
		sp.segs = append(sp.segs, segPairs("spine-ctx*parent*slot*reduced", pickCtx("stmt", "for-init", "for-var-init", "arrow-body-noparen", "new-callee", "class-extends", "for-of", "label", "stmt-after-expr", "tag", "exponent-left", "call-callee"), all, red))
		sp.segs = append(sp.segs, segDepth3(pickCtx("return")[0], red))
		sp.segs = append(sp.segs, segPairsLeaf("ctx*reduced*slot*reduced*slot*constant", pickCtx("return", "stmt", "if"), red, red, constLeaves))
		sp.segs = append(sp.segs, segPairs("bare-ctx*parent*slot*reduced", withParens(pickCtx("return", "stmt", "for-init", "for-var-init", "arrow-body-noparen", "new-callee", "class-extends", "for-of", "exponent-left", "call-callee"), 2), all, red))
		sp.segs = append(sp.segs, segPairs("bare-top-ctx*parent*slot*reduced", withParens(pickCtx("return", "stmt", "for-init", "for-var-init", "arrow-body-noparen"), 1), all, red))
		sp.segs = append(sp.segs, segDepth3Parens(pickCtx("return")[0], red, 2))
	}
	x.runSpace(sp)
	x.runBatch(0, []xcase{{code: "globalThis.__f = async function(H, a, b, c) { return new (class { x = (await (H.p(1, a))) })().x; };", kind: "async"},
		{code: "globalThis.__f = function(H, a, b, c) { { function fd() { return 1 } function fd() { return 2 } } return fd(); };"},
		{code: "globalThis.__f = function(H, a, b, c) { 'use\\x20strict'; return (function() { return typeof this })(); };"},
		{code: "globalThis.__f = function(H, a, b, c) { ('use strict'); return (function() { return typeof this })(); };"},
		{code: "globalThis.__f = function(H, a, b, c) { return [\"\" + /a/ig, `${/b/yg}`, \"x\" + /c/gi]; };"},
	}, "known-probes")
	c01Literals(c, pool)
	c01Statements(c, x)
	c01JSX(c, pool)
}

func init() { register("C01", "exploration", runC01) }

var _ = fmt.Sprint
