package main

// E1: the JavaScript expression/statement space shared by C01, C03, C05, C06, C14.
// A case is a tree over an operator table; children are always written fully parenthesised in the
// *input*, so the input's meaning is unambiguous and the printer has to decide which parentheses are
// needed in the output.

import (
	"fmt"
	"strings"
)

type xop struct {
	name  string
	tpl   string // $0..$2 expression slots (auto-parenthesised), #0 lvalue slot
	nE    int    // number of expression slots
	nL    int    // number of lvalue slots
	tags  string // space separated: "async" "gen" "es2020" ...
	level int    // coarse precedence class, used to pick representatives
}

func ops(level int, tags string, tpls ...string) []xop {
	var r []xop
	for _, t := range tpls {
		o := xop{name: t, tpl: t, tags: tags, level: level}
		for i := 0; i < 3; i++ {
			if strings.Contains(t, fmt.Sprintf("$%d", i)) {
				o.nE = i + 1
			}
			if strings.Contains(t, fmt.Sprintf("#%d", i)) {
				o.nL = i + 1
			}
		}
		r = append(r, o)
	}
	return r
}

var xBinary = ops(10, "", "$0 + $1", "$0 - $1", "$0 * $1", "$0 / $1", "$0 % $1", "$0 ** $1", "$0 << $1", "$0 >> $1", "$0 >>> $1",
	"$0 & $1", "$0 | $1", "$0 ^ $1", "$0 == $1", "$0 != $1", "$0 === $1", "$0 !== $1", "$0 < $1", "$0 <= $1", "$0 > $1", "$0 >= $1",
	"$0 in $1", "$0 instanceof $1", "$0 && $1", "$0 || $1", "$0 ?? $1", "$0, $1")

var xUnary = ops(20, "", "-$0", "+$0", "!$0", "~$0", "typeof $0", "void $0", "delete $0.x", "delete $0[$1]", "delete $0?.x")

var xUpdate = ops(21, "", "++#0", "--#0", "#0++", "#0--")

var xAssign = ops(2, "", "#0 = $0", "#0 += $0", "#0 -= $0", "#0 *= $0", "#0 /= $0", "#0 %= $0", "#0 **= $0", "#0 <<= $0", "#0 >>= $0",
	"#0 >>>= $0", "#0 &= $0", "#0 |= $0", "#0 ^= $0", "#0 &&= $0", "#0 ||= $0", "#0 ??= $0")

var xCond = ops(3, "", "$0 ? $1 : $2")

var xCall = ops(30, "", "$0()", "$0($1)", "$0($1, $2)", "$0(...$1)", "new $0", "new $0($1)", "$0.x", "$0[$1]", "$0.x($1)", "$0[$1]($2)",
	"$0?.x", "$0?.[$1]", "$0?.($1)", "$0?.x($1)", "$0?.x.y", "($0?.x).y", "($0?.x)($1)", "$0.x?.($1)", "$0?.x[$1]?.y",
	"new $0.x($1)", "new ($0.x($1))", "new ($0($1))($2)", "new (new $0($1))", "new $0($1).x", "(new $0).x", "new ($0?.x)",
	"$0`t`", "$0`t${$1}u`", "`t${$0}u${$1}`", "$0.x`t`", "$0?.x.y($1)", "$0.x.y($1)", "(0, $0.x)($1)", "new.target", "class { static #p = 1; static g() { return $0.#p } }.g()", "class { static #p = 1; static g() { return #p in $0 } }.g()")

var xFn = ops(1, "", "() => $0", "(x) => [x, $0]", "() => { return $0 }", "function() { return $0 }", "(() => $0)()",
	"(function() { return [this, $0] }).call($1)", "(function*() { yield $0 })().next().value",
	"(function*() { var r = yield $0; return r })().next().value", "((x = $0) => x)()", "((...x) => x)($0, $1)",
	"(({x}) => x)($0)", "(function f() { return typeof f })($0)", "(() => arguments[0])($0)", "(() => this)($0)",
	"async () => $0", "async function() { return $0 }", "async x => $0", "(async)($0)", "async($0, $1)")

var xLit = ops(40, "", "[$0, $1]", "[...$0]", "[, $0, ]", "[$0, , ]", "{x: $0}", "{[$0]: $1}", "{...$0}", "{x: $0, get y() { return $1 }}", "{x: $0}.x",
	"{x() { return $0 }}.x()", "{__proto__: $0}", "{\"__proto__\": $0, x: $1}", "{['__proto__']: $0}", "{1: $0, 1.5: $1}", "{a, b: $0}",
	"class { static x = $0 }.x", "new (class extends $0 {})", "class { static [$0]() {} }", "class { static [$0] = $1 }", "new (class { x = $0 })().x",
	"class { static #p = $0; static g() { return this.#p } }.g()", "class { static { H.log($0) } }", "function() {}", "class {}", "{}",
	"class { static x = $0; static y = this.x }.y", "class { static async *[$0]() {} }", "class { static get [$0]() { return $1 } }",
	"new (class { static constructor() { return 5 } x = $0 })().x", "class { static constructor() { return $0 } static y = this.constructor() }.y")

var xDestr = ops(2, "", "[#0] = $0", "{x: #0} = $0", "[#0 = $1] = $0", "{x: #0 = $1} = $0", "[...#0] = $0", "{...#0} = $0", "{x: [#0]} = $0", "[{x: #0}] = $0",
	"{[$1]: #0} = $0", "[, #0] = $0")

var xAsyncGen = ops(20, "async", "await $0", "(await $0).x", "await $0 ** 2", "(await $0) ** 2", "-await $0", "await ($0, $1)")
var xGen = ops(1, "gen", "yield $0", "yield* $0", "yield", "[yield $0, yield $1]", "(yield $0) + 1")

var xAllOps = concatOps(xBinary, xUnary, xUpdate, xAssign, xCond, xCall, xFn, xLit, xDestr)

func concatOps(l ...[]xop) []xop {
	var r []xop
	for _, x := range l {
		r = append(r, x...)
	}
	return r
}

// Leaves.
var xLeafIdent = []string{"a", "b", "c"}
var xLeafProbe = []string{"H.p(%d, a)", "H.p(%d, b)", "H.p(%d, c)"}
var xLeafLit = []string{"1", "-1", "1.5", "1e21", "0", "\"s\"", "/x/g", "{}", "[]", "function() {}", "class {}", "this", "null", "undefined", "1n", "`t${a}`", "true",
	"async", "arguments", "-0", "0.1", "1e-7", "0xFFFFFFFF", "\"\\u2028\"", "'\\0' + 1", "let", "yield", "await", "of", "void 0", "1 .x", "Infinity", "NaN", "-Infinity", "- -1", "+ +a", "- --a", "a-- - --b"}

var xLvals = []string{"a", "b.x", "c[H.p(%d, 'k')]", "H.p(%d, b).x", "a.x.y", "b?.x.y", "[a]", "{x: a}", "(a)", "(b.x)"}

type xnode struct {
	op   *xop
	kids []*xnode
	lv   []string
	leaf string
}

type xrender struct {
	probe      int
	sloppyOnly bool
	// parens: 0 = every operand that is not a simple leaf is parenthesised (tree shape is exactly the generated
	// one); 1 = additionally the top-level expression of the context and the bodies of arrow functions are left
	// bare; 2 = no generated parentheses at all (the program is whatever the text parses as: esbuild keeps track
	// of source parentheses in a few places, so fully parenthesised inputs never exercise its own decisions)
	parens int
}

func (r *xrender) leafText(l string) string {
	if strings.Contains(l, "%d") {
		r.probe++
		return fmt.Sprintf(l, r.probe)
	}
	return l
}

func isSimpleLeaf(s string) bool {
	if len(s) == 0 || (s[0] >= '0' && s[0] <= '9') {
		return false
	}
	for i := 0; i < len(s); i++ {
		ch := s[i]
		if !(ch >= 'a' && ch <= 'z' || ch >= 'A' && ch <= 'Z' || ch >= '0' && ch <= '9' || ch == '_' || ch == '$') {
			return false
		}
	}
	return true
}

// render returns the fully parenthesised source of a node.
func (r *xrender) render(n *xnode) string {
	if n.op == nil {
		return r.leafText(n.leaf)
	}
	s := n.op.tpl
	// lvalues first in textual order? Keep template order: render slots in order of appearance so probe
	// ids are assigned left to right.
	var out strings.Builder
	for i := 0; i < len(s); i++ {
		if (s[i] == '$' || s[i] == '#') && i+1 < len(s) && s[i+1] >= '0' && s[i+1] <= '2' {
			k := int(s[i+1] - '0')
			if s[i] == '$' {
				kid := n.kids[k]
				t := r.render(kid)
				bare := kid.op == nil && isSimpleLeaf(t)
				if r.parens == 2 {
					bare = true
				} else if r.parens == 1 && strings.HasSuffix(s[:i], "=> ") && !strings.HasPrefix(t, "{") {
					bare = true
				}
				if bare {
					// never fuse "-" "-x" into "--x" (a different token)
					if o := out.String(); len(o) > 0 && len(t) > 0 && (o[len(o)-1] == '-' || o[len(o)-1] == '+') && o[len(o)-1] == t[0] {
						out.WriteByte(' ')
					}
					out.WriteString(t)
				} else {
					out.WriteString("(" + t + ")")
				}
			} else {
				out.WriteString(r.leafText(n.lv[k]))
			}
			i++
			continue
		}
		out.WriteByte(s[i])
	}
	return out.String()
}

// Statement-level contexts: one main slot $0 (the tree) and optional $1 (a leaf).
type xctx struct {
	name string
	tpl  string
	tags string // "skip", or "parens1"/"parens2": parenthesisation mode used when rendering into this context
}

func (c xctx) parensMode() int {
	switch c.tags {
	case "parens1":
		return 1
	case "parens2":
		return 2
	}
	return 0
}

// withParens returns copies of the contexts that render with the given parenthesisation mode
func withParens(ctxs []xctx, mode int) []xctx {
	var r []xctx
	for _, c := range ctxs {
		c.tags = fmt.Sprintf("parens%d", mode)
		c.name = fmt.Sprintf("%s/parens%d", c.name, mode)
		r = append(r, c)
	}
	return r
}

var xContexts = []xctx{
	{"return", "return $0;", ""},
	{"stmt", "$0;", ""},
	{"stmt-after-expr", "a\n$0;", ""},
	{"for-init", "for ($0;;) break;", ""},
	{"for-var-init", "for (var x = $0;;) { return x }", ""},
	{"for-var-init2", "for (var x = $0, y = $0;;) { return [x, y] }", ""},
	{"for-of", "for (var x of $0) H.log(x);", ""},
	{"for-in", "for (var x in $0) H.log(x);", ""},
	{"for-of-lhs", "for ((b.x) of [$0]) H.log(b.x);", ""},
	{"if", "if ($0) H.log(1); else H.log(2);", ""},
	{"while", "while ($0) break;", ""},
	{"do-while", "do H.log(1); while (($0) && false)", ""},
	{"switch", "switch ($0) { case $0: H.log(1) }", ""},
	{"throw", "throw $0;", ""},
	{"var", "var x = $0; return x;", ""},
	{"let-destr", "let [x = $0] = []; return x;", ""},
	{"var-destr-obj", "var {x = $0, [$0]: y} = {}; return [x, y];", ""},
	{"arrow-body", "return (() => $0)();", ""},
	{"arrow-body-noparen", "return () => $0;", ""},
	{"default-arg", "return (function(x = $0) { return x })();", ""},
	{"class-static", "return (class { static x = $0 }).x;", ""},
	{"class-field", "return new (class { x = $0 })().x;", ""},
	{"class-extends", "return class extends $0 {};", ""},
	{"class-key", "return class { [$0]() {} };", ""},
	{"array", "return [$0, $0];", ""},
	{"call-args", "return H.f(1, 0)($0, $0);", ""},
	{"spread", "return [...$0];", ""},
	{"object", "return {x: $0, y: 1};", ""},
	{"object-spread", "return {...$0};", ""},
	{"object-key", "return {[$0]: 1, x: 2};", ""},
	{"template", "return `${$0}`;", ""},
	{"new-callee", "return new $0(a);", ""},
	{"call-callee", "return $0(a);", ""},
	{"member-object", "return $0.x;", ""},
	{"tag", "return $0`t`;", ""},
	{"label", "x: $0;", ""},
	{"new-noargs", "return new $0;", ""},
	{"index", "return a[$0];", ""},
	{"opt-chain-base", "return $0?.x;", ""},
	{"exponent-left", "return $0 ** 2;", ""},
	{"unary-operand", "return -$0;", ""},
	{"typeof-operand", "return typeof $0;", ""},
	{"comma-left", "return ($0, 1);", ""},
	{"cond-test", "return $0 ? 1 : 2;", ""},
	{"assign-right", "return a = $0;", ""},
	{"in-right", "for (var x = 1 in $0;;) break;", "skip"},
}

// wrap places body statements into the harness function.
func xProgram(body string, kind string) string {
	switch kind {
	case "async":
		return "globalThis.__f = async function(H, a, b, c) {\n" + body + "\n};"
	case "gen":
		return "globalThis.__f = function(H, a, b, c) { var g = (function*() {\n" + body + "\n}).call(this); var r = [], s; do { s = g.next(H.p(99, r.length)); r.push(s.value) } while (!s.done && r.length < 8); return r; };"
	}
	return "globalThis.__f = function(H, a, b, c) {\n" + body + "\n};"
}

func xCtxRender(ctx xctx, r *xrender, n *xnode) string {
	s := ctx.tpl
	var out strings.Builder
	for i := 0; i < len(s); i++ {
		if s[i] == '$' && i+1 < len(s) && s[i+1] == '0' {
			t := r.render(n)
			if (n.op == nil && isSimpleLeaf(t)) || (r.parens >= 1 && !strings.HasPrefix(t, "{") && !strings.HasPrefix(t, "function") && !strings.HasPrefix(t, "class") && !strings.HasPrefix(t, "async function")) {
				out.WriteString(t)
			} else {
				out.WriteString("(" + t + ")")
			}
			i++
			continue
		}
		out.WriteByte(s[i])
	}
	return out.String()
}

func leafNode(s string) *xnode { return &xnode{leaf: s} }

// default leaves for slot k
func defLeaf(k int) *xnode { return leafNode(xLeafProbe[k%3]) }
func defLval(k int) string { return xLvals[k%2] }

func opNode(o *xop, kids ...*xnode) *xnode {
	n := &xnode{op: o}
	for i := 0; i < o.nE; i++ {
		if i < len(kids) && kids[i] != nil {
			n.kids = append(n.kids, kids[i])
		} else {
			n.kids = append(n.kids, defLeaf(i))
		}
	}
	for i := 0; i < o.nL; i++ {
		n.lv = append(n.lv, defLval(i))
	}
	return n
}

// Standard call grid: (a,b,c) tuples. {"t":"U"} = universal logging proxy (see js/worker.js).
var xCallsStd = []interface{}{
	[]interface{}{map[string]interface{}{"t": "U", "n": "a"}, map[string]interface{}{"t": "U", "n": "b"}, map[string]interface{}{"t": "U", "n": "c"}},
	[]interface{}{2, 3, 5},
	[]interface{}{nil, map[string]interface{}{"t": "undef"}, "x"},
	[]interface{}{map[string]interface{}{"t": "undef"}, nil, 0},
	[]interface{}{"", 0, false},
	[]interface{}{map[string]interface{}{"t": "num", "v": "-0"}, map[string]interface{}{"t": "obj", "v": 4, "props": map[string]interface{}{"x": 1}}, map[string]interface{}{"t": "num", "v": "NaN"}},
	[]interface{}{map[string]interface{}{"t": "U", "n": "a", "nullish": "x"}, map[string]interface{}{"t": "plain", "v": map[string]interface{}{"x": nil}}, map[string]interface{}{"t": "fn", "v": 7}},
}
