package main

// C18: hashed file names identify content; references between outputs resolve; no placeholder survives.

import (
	"crypto/sha256"
	"fmt"
	"os"
	"path/filepath"
	"regexp"
	"sort"
	"strings"
	"sync"

	"github.com/evanw/esbuild/pkg/api"
)

type c18Edit struct {
	name  string
	apply func(files map[string]string) bool
}

func c18Edits(f family) []c18Edit {
	edits := []c18Edit{{"none", func(m map[string]string) bool { return true }}}
	var names []string
	for n := range f.files {
		names = append(names, n)
	}
	sort.Strings(names)
	for _, n := range names {
		n := n
		ext := filepath.Ext(n)
		switch ext {
		case ".js", ".cjs", ".css":
			edits = append(edits,
				c18Edit{"code:" + n, func(m map[string]string) bool {
					if !strings.Contains(m[n], "MARK_") {
						return false
					}
					m[n] = strings.Replace(m[n], "MARK_", "MARX_", 1)
					return true
				}},
				c18Edit{"comment:" + n, func(m map[string]string) bool {
					if ext == ".css" {
						m[n] = m[n] + "\n/* trailing comment */\n"
					} else {
						m[n] = m[n] + "\n// trailing comment\n"
					}
					return true
				}},
				c18Edit{"whitespace:" + n, func(m map[string]string) bool { m[n] = "\n\n" + m[n]; return true }},
				c18Edit{"legal:" + n, func(m map[string]string) bool {
					if strings.Contains(m[n], "license A") {
						m[n] = strings.Replace(m[n], "license A", "license B", 1)
						return true
					}
					if strings.Contains(m[n], "@license") {
						m[n] = strings.Replace(m[n], "@license", "@license changed", 1)
						return true
					}
					if ext == ".css" {
						m[n] = "/*! added legal comment */\n" + m[n]
					} else {
						m[n] = "//! added legal comment\n" + m[n]
					}
					return true
				}},
			)
		case ".json":
			edits = append(edits, c18Edit{"json:" + n, func(m map[string]string) bool {
				m[n] = strings.Replace(m[n], "MARK_data_2", "MARK_data_3", 1)
				return true
			}})
		case ".png", ".svg", ".bin", ".txt":
			edits = append(edits, c18Edit{"asset:" + n, func(m map[string]string) bool { m[n] = m[n] + "X"; return true }})
		}
	}
	return edits
}

func c18Variants() []famVariant {
	hashed := func(o *api.BuildOptions) {
		o.EntryNames = "[dir]/[name]-[hash]"
		o.ChunkNames = "chunks/[name]-[hash]"
		o.AssetNames = "assets/[name]-[hash]"
	}
	mk := func(name string, f func(o *api.BuildOptions)) famVariant {
		return famVariant{name, func(o *api.BuildOptions) { hashed(o); f(o) }}
	}
	return []famVariant{
		mk("plain", func(o *api.BuildOptions) {}),
		mk("minify", func(o *api.BuildOptions) { o.MinifyWhitespace, o.MinifySyntax, o.MinifyIdentifiers = true, true, true }),
		mk("sourcemap-linked", func(o *api.BuildOptions) { o.Sourcemap = api.SourceMapLinked }),
		mk("sourcemap-external", func(o *api.BuildOptions) { o.Sourcemap = api.SourceMapExternal }),
		mk("sourcemap-inline", func(o *api.BuildOptions) { o.Sourcemap = api.SourceMapInline }),
		mk("sourcemap-both", func(o *api.BuildOptions) { o.Sourcemap = api.SourceMapInlineAndExternal }),
		mk("sourcemap-inline-minify-source-root", func(o *api.BuildOptions) {
			o.Sourcemap = api.SourceMapInline
			o.MinifyWhitespace, o.MinifyIdentifiers = true, true
			o.SourceRoot = "https://example.com/src"
		}),
		mk("sourcemap-linked-nocontent", func(o *api.BuildOptions) {
			o.Sourcemap = api.SourceMapLinked
			o.SourcesContent = api.SourcesContentExclude
		}),
		mk("legal-linked", func(o *api.BuildOptions) { o.LegalComments = api.LegalCommentsLinked }),
		mk("legal-external", func(o *api.BuildOptions) { o.LegalComments = api.LegalCommentsExternal }),
		mk("legal-eof", func(o *api.BuildOptions) { o.LegalComments = api.LegalCommentsEndOfFile }),
		mk("public-path-a", func(o *api.BuildOptions) { o.PublicPath = "https://a.example.com/" }),
		mk("public-path-b", func(o *api.BuildOptions) { o.PublicPath = "https://b.example.com/assets/" }),
		mk("legal-linked+map", func(o *api.BuildOptions) {
			o.LegalComments = api.LegalCommentsLinked
			o.Sourcemap = api.SourceMapLinked
		}),
		mk("names-short", func(o *api.BuildOptions) { o.ChunkNames = "[hash]"; o.AssetNames = "[hash]" }),
		// only some of the three templates carry [hash] (the placeholder of one template must not be decided by another)
		mk("asset-names-unhashed", func(o *api.BuildOptions) { o.AssetNames = "assets/[name]" }),
		mk("entry-names-unhashed", func(o *api.BuildOptions) { o.EntryNames = "[dir]/[name]" }),
		mk("chunk-names-unhashed", func(o *api.BuildOptions) { o.ChunkNames = "chunks/[name]" }),
	}
}

var c18HasHash = regexp.MustCompile(`(^|-)[A-Z0-9]{8}(\.|$)`)
var c18Placeholder = regexp.MustCompile(`[A-Za-z0-9_-]{16}[ACMS][0-9]{8}`)
var c18SourceMapURL = regexp.MustCompile(`(?m)^(?://|/\*)# sourceMappingURL=([^\s*]+)`)
var c18LegalLink = regexp.MustCompile(`For license information please see (\S+)`)

type c18Out struct {
	build    string
	variant  string
	hash     [32]byte
	stripped [32]byte // hash with trailing sourceMappingURL / legal-link comment lines removed
	size     int
}

var c18LinkLine = regexp.MustCompile(`(?m)^(//# sourceMappingURL=.*|/\*# sourceMappingURL=.*\*/|/\*! For license information please see .* \*/)\n?`)

func runC18(c *Check) {
	c.Rule = "8 build families x 15 option variants (hashed name templates; minify, source-map modes, legal-comment modes, two public paths, short templates) x every single-point edit of every input file (code, comment-only, whitespace-only, legal-comment-only, JSON value, asset byte): all builds of a family are compared pairwise: a file emitted under the same path by two builds must have identical bytes (incl. .map and .LEGAL.txt siblings); every import specifier, url(), sourceMappingURL and legal-comment link in every output resolves to a file of the same build; no output contains a placeholder (16-char key + kind letter + 8 digits); distinct = distinct (path, content) pairs; variants where only some name templates carry [hash] and the oracle that every [hash] placeholder is filled in"
	c.Assump = []string{"'name changes whenever content changes' is decided through its contrapositive over all pairs of builds: equal path => equal bytes, which also covers transitive referrers because a referrer embeds the referenced name"}
	root := scratchRoot("c18")
	defer os.RemoveAll(root)
	fams := famFiles()
	vars := c18Variants()
	for _, f := range fams {
		f := f
		edits := c18Edits(f)
		type job struct {
			v famVariant
			e c18Edit
		}
		var jobs []job
		for _, v := range vars {
			for _, e := range edits {
				jobs = append(jobs, job{v, e})
			}
		}
		var mu sync.Mutex
		byPath := map[string][]c18Out{}
		c.ForEach(uint64(len(jobs)), func(w int, i uint64) {
			j := jobs[i]
			files := map[string]string{}
			for k, v := range f.files {
				files[k] = v
			}
			if !j.e.apply(files) {
				return
			}
			dir := filepath.Join(root, fmt.Sprintf("%s-%d", f.name, i))
			writeTree(dir, files)
			defer os.RemoveAll(dir)
			ff := f
			ff.files = files
			r, o := famBuild(dir, ff, j.v, nil)
			c.Eval(1)
			label := f.name + "/" + j.v.name + "/" + j.e.name
			if len(r.Errors) > 0 {
				c.Violation("c18-build:"+label, map[string]interface{}{"kind": "family build failed (generator)", "case": label, "errors": jsonStr(r.Errors)})
				return
			}
			outs := map[string][]byte{}
			for _, of := range r.OutputFiles {
				rel, _ := filepath.Rel(dir, of.Path)
				outs[rel] = of.Contents
			}
			for rel, data := range outs {
				text := string(data)
				// (iv) placeholders
				if m := c18Placeholder.FindString(text); m != "" && !strings.HasSuffix(rel, ".map") {
					c.Violation("c18-placeholder:"+label+":"+rel, map[string]interface{}{"kind": "internal placeholder survives in an output", "case": label, "file": rel, "match": m})
				}
				// (iii) references resolve
				if strings.HasSuffix(rel, ".js") || strings.HasSuffix(rel, ".css") {
					for _, s := range scanOutput(rel, text) {
						spec := s.spec
						var p string
						switch {
						case o.PublicPath != "" && strings.HasPrefix(spec, o.PublicPath):
							p = filepath.Join("out", strings.TrimPrefix(spec, o.PublicPath))
						case strings.HasPrefix(spec, "./") || strings.HasPrefix(spec, "../"):
							p = filepath.Clean(filepath.Join(filepath.Dir(rel), spec))
						default:
							continue
						}
						if _, ok := outs[p]; !ok {
							c.Violation("c18-dangling:"+label+":"+rel+":"+spec, map[string]interface{}{"kind": "reference in an output does not resolve to an emitted file", "case": label, "file": rel, "reference": spec, "outputs": keysOfBytes(outs)})
						}
					}
					for _, m := range c18SourceMapURL.FindAllStringSubmatch(text, -1) {
						if strings.HasPrefix(m[1], "data:") {
							continue
						}
						p := filepath.Clean(filepath.Join(filepath.Dir(rel), m[1]))
						if o.PublicPath != "" && strings.HasPrefix(m[1], o.PublicPath) {
							p = filepath.Join("out", strings.TrimPrefix(m[1], o.PublicPath))
						}
						if _, ok := outs[p]; !ok {
							c.Violation("c18-map-link:"+label+":"+rel, map[string]interface{}{"kind": "sourceMappingURL does not resolve to an emitted file", "case": label, "file": rel, "reference": m[1], "outputs": keysOfBytes(outs)})
						}
					}
					for _, m := range c18LegalLink.FindAllStringSubmatch(text, -1) {
						p := filepath.Clean(filepath.Join(filepath.Dir(rel), m[1]))
						if o.PublicPath != "" && strings.HasPrefix(m[1], o.PublicPath) {
							p = filepath.Join("out", strings.TrimPrefix(m[1], o.PublicPath))
						}
						if _, ok := outs[p]; !ok {
							c.Violation("c18-legal-link:"+label+":"+rel, map[string]interface{}{"kind": "legal comment link does not resolve to an emitted file", "case": label, "file": rel, "reference": m[1], "outputs": keysOfBytes(outs)})
						}
					}
				}
			}
			// which template governs an output: out/assets/* asset names, out/chunks/* chunk names, everything else entry names
			hashedName := func(rel string) bool {
				kind := "entry-names"
				if strings.HasPrefix(rel, "out/assets/") {
					kind = "asset-names"
				} else if strings.HasPrefix(rel, "out/chunks/") {
					kind = "chunk-names"
				}
				return j.v.name != kind+"-unhashed"
			}
			for rel := range outs {
				// (v) a template with [hash] yields a name with eight hash characters
				if hashedName(rel) && !c18HasHash.MatchString(filepath.Base(rel)) {
					c.Violation("c18-empty-hash:"+label+":"+rel, map[string]interface{}{"kind": "the [hash] placeholder of the governing name template was not filled in", "case": label, "file": rel, "outputs": keysOfBytes(outs)})
				}
			}
			mu.Lock()
			for rel, data := range outs {
				if !hashedName(rel) {
					continue // unhashed by request: the same path may carry different bytes
				}
				byPath[rel] = append(byPath[rel], c18Out{label, j.v.name, sha256.Sum256(data), sha256.Sum256(c18LinkLine.ReplaceAll(data, nil)), len(data)})
			}
			mu.Unlock()
		})
		// (i) same path => same bytes, over all pairs of builds of this family
		var paths []string
		for p := range byPath {
			paths = append(paths, p)
		}
		sort.Strings(paths)
		for _, p := range paths {
			if !strings.Contains(p, "-") && !regexp.MustCompile(`[A-Z0-9]{8}`).MatchString(p) {
				continue // not a hashed name
			}
			outs := byPath[p]
			sort.Slice(outs, func(a, b int) bool { return outs[a].build < outs[b].build })
			c.Sub("hashed_paths_compared", 1)
			c.Distinct(p, fmt.Sprintf("%x", outs[0].hash[:8]))
			reported := map[string]bool{}
			for a := 0; a < len(outs); a++ {
				for b := a + 1; b < len(outs); b++ {
					if outs[a].hash == outs[b].hash {
						continue
					}
					key := "c18-samepath:" + f.name + ":" + c18NormPathKey(p, outs[a].build, outs[b].build)
					if outs[a].variant != outs[b].variant && outs[a].stripped == outs[b].stripped {
						key = "hash-does-not-cover-trailing-link-comments"
					}
					if reported[key] {
						continue
					}
					reported[key] = true
					c.Violation(key, map[string]interface{}{"kind": "two builds emit different bytes under the same hashed path", "family": f.name, "path": p, "build_a": outs[a].build, "build_b": outs[b].build, "size_a": outs[a].size, "size_b": outs[b].size})
				}
			}
		}
	}
	c.Sample(map[string]string{"family": "legal-comments", "variant": "legal-linked", "edit": "legal:src/b.js"})
}

// key for known findings: path extension + the two edit classes involved (hash text itself varies with the tree)
func c18NormPathKey(p, a, b string) string {
	ext := p
	if i := strings.Index(p, "."); i >= 0 {
		ext = p[i:]
	}
	cls := func(s string) string {
		parts := strings.Split(s, "/")
		e := parts[len(parts)-1]
		if i := strings.Index(e, ":"); i >= 0 {
			e = e[:i]
		}
		return parts[1] + "/" + e
	}
	x, y := cls(a), cls(b)
	if x > y {
		x, y = y, x
	}
	return ext + ":" + x + "~" + y
}

func keysOfBytes(m map[string][]byte) []string {
	var k []string
	for x := range m {
		k = append(k, x)
	}
	sort.Strings(k)
	return k
}

func init() { register("C18", "exploration", runC18) }
