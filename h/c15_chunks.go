package main

// C15 across chunks: with code splitting a shared chunk exports its symbols to the other chunks under generated
// aliases, and the importing chunks bind them to local names. Symbols of different files may have the same original
// name, or a name that equals an alias generated for another symbol (foo -> foo2). All assignments of four colliding
// names to four shared modules, with local declarations of the same names in both entry points, vs native loading.

import (
	"fmt"
	"os"
	"path/filepath"
	"strings"

	"github.com/evanw/esbuild/pkg/api"
)

func c15CrossChunkNames(c *Check, pool *NodePool) {
	root := scratchRoot("c15x")
	defer os.RemoveAll(root)
	names := []string{"foo", "foo2", "foo3", "foo22"}
	const M = 4
	total := 1
	for i := 0; i < M; i++ {
		total *= len(names)
	}
	c.ForEach(uint64(total), func(w int, idx uint64) {
		pick := make([]string, M)
		k := int(idx)
		for i := 0; i < M; i++ {
			pick[i] = names[k%len(names)]
			k /= len(names)
		}
		files := map[string]string{"driver.mjs": "import './e1.mjs';\nimport './e2.mjs';\n"}
		var imp1, imp2, use []string
		for i, nm := range pick {
			files[fmt.Sprintf("m%d.mjs", i)] = fmt.Sprintf("export const %[2]s = 'm%[1]d.%[2]s';\nexport function read%[1]d() { return %[2]s }\nlog('m%[1]d', %[2]s);\n", i, nm)
			imp1 = append(imp1, fmt.Sprintf("import {%s as v%d, read%d} from './m%d.mjs';", nm, i, i, i))
			// the second entry point keeps the original names where that is possible (first occurrence of each name)
			first := true
			for _, p := range pick[:i] {
				if p == nm {
					first = false
				}
			}
			if first {
				imp2 = append(imp2, fmt.Sprintf("import {%s, read%d} from './m%d.mjs';", nm, i, i))
				use = append(use, nm)
			} else {
				imp2 = append(imp2, fmt.Sprintf("import {%s as w%d, read%d} from './m%d.mjs';", nm, i, i, i))
				use = append(use, fmt.Sprintf("w%d", i))
			}
		}
		files["e1.mjs"] = strings.Join(imp1, "\n") + "\nfunction locals() { const foo = 'e1.foo', foo2 = 'e1.foo2', foo3 = 'e1.foo3', foo22 = 'e1.foo22'; return [foo, foo2, foo3, foo22] }\nlog('e1', v0, v1, v2, v3, read0(), read1(), read2(), read3(), ...locals());\n"
		files["e2.mjs"] = strings.Join(imp2, "\n") + "\nlog('e2', " + strings.Join(use, ", ") + ", read0(), read1(), read2(), read3());\n"
		dir := filepath.Join(root, fmt.Sprintf("x%d", idx))
		writeTree(dir, files)
		defer os.RemoveAll(dir)
		cases := []graphCase{{Files: files, Entry: "driver.mjs", How: "import"}}
		var cfgNames []string
		for _, minify := range []bool{false, true} {
			r := api.Build(api.BuildOptions{EntryPoints: []string{filepath.Join(dir, "e1.mjs"), filepath.Join(dir, "e2.mjs")}, Bundle: true, Splitting: true, Format: api.FormatESModule,
				Write: false, Outdir: filepath.Join(dir, "out"), OutExtension: map[string]string{".js": ".mjs"}, MinifyIdentifiers: minify, LogLevel: api.LogLevelSilent})
			c.Eval(1)
			name := fmt.Sprintf("split-esm minify-identifiers=%v", minify)
			if len(r.Errors) > 0 {
				c.Violation("c15-chunks-build:"+strings.Join(pick, ",")+":"+name, map[string]interface{}{"kind": "splitting build failed", "names": pick, "error": r.Errors[0].Text})
				continue
			}
			out := map[string]string{"driver.mjs": files["driver.mjs"]}
			for _, f := range r.OutputFiles {
				rel, _ := filepath.Rel(filepath.Join(dir, "out"), f.Path)
				out[filepath.ToSlash(rel)] = string(f.Contents)
				c.Distinct(string(f.Contents))
			}
			cases = append(cases, graphCase{Files: out, Entry: "driver.mjs", How: "import"})
			cfgNames = append(cfgNames, name)
		}
		res := nodeGraph(pool.Get(w), cases)
		for k := 1; k < len(res); k++ {
			c.Sub("cross_chunk_name_cases", 1)
			if strings.Join(res[k].Log, "\n") != strings.Join(res[0].Log, "\n") || (res[0].Err == nil) != (res[k].Err == nil) {
				c.Violation("c15-chunks:"+strings.Join(pick, ",")+":"+cfgNames[k-1], map[string]interface{}{"kind": "chunks exporting/importing same-named symbols behave differently from native loading", "names": pick, "config": cfgNames[k-1], "native": res[0].String(), "bundle": res[k].String(), "files": cases[k].Files})
			}
		}
	})
}

// c15WrappedExternalImports: files that are wrapped in a CommonJS closure (they use module.exports) but contain import
// statements of external packages: with ESM output those imports are printed at the top level of the chunk, so the local
// names of all their clauses (default, namespace, named) live in one scope across files. There is no native reference
// (a file cannot use both), so the expected log is written by hand.
func c15WrappedExternalImports(c *Check, pool *NodePool) {
	root := scratchRoot("c15w")
	defer os.RemoveAll(root)
	ext := func(n string) map[string]string {
		return map[string]string{
			"node_modules/ext-" + n + "/package.json": `{"name":"ext-` + n + `","main":"index.js"}`,
			"node_modules/ext-" + n + "/index.js":     "exports.tag = '" + n + "-tag'; exports.other = '" + n + "-other'; exports.id = '" + n + "';",
		}
	}
	files := map[string]string{
		"a.mjs": "import './w1.js'; import './w2.js'; import './w3.js'; import './w4.js'; const tag = 'entry-tag', lib = 'entry-lib', ns = 'entry-ns'; log('entry', tag, lib, ns);\n",
		"w1.js": "import lib, {tag, other as o} from 'ext-a'; log('w1', lib.id, tag, o); module.exports = 1;\n",
		"w2.js": "import lib, {tag, other as o} from 'ext-b'; log('w2', lib.id, tag, o); module.exports = 2;\n",
		"w3.js": "import lib, * as ns from 'ext-c'; import {tag} from 'ext-c'; log('w3', lib.id, ns.tag, tag); module.exports = 3;\n",
		"w4.js": "import {tag as lib, other as ns} from 'ext-d'; import tag from 'ext-d'; log('w4', lib, ns, tag.id); module.exports = 4;\n",
	}
	for _, n := range []string{"a", "b", "c", "d"} {
		for k, v := range ext(n) {
			files[k] = v
		}
	}
	want := "\"w1\" \"a\" \"a-tag\" \"a-other\"\n\"w2\" \"b\" \"b-tag\" \"b-other\"\n\"w3\" \"c\" \"c-tag\" \"c-tag\"\n\"w4\" \"d-tag\" \"d-other\" \"d\"\n\"entry\" \"entry-tag\" \"entry-lib\" \"entry-ns\""
	writeTree(root, files)
	var cases []graphCase
	var names []string
	for _, format := range []api.Format{api.FormatESModule, api.FormatCommonJS} {
		for _, minify := range []bool{false, true} {
			r := api.Build(api.BuildOptions{EntryPoints: []string{filepath.Join(root, "a.mjs")}, Bundle: true, Format: format, Write: false, Outdir: filepath.Join(root, "out"), MinifyIdentifiers: minify,
				External: []string{"ext-a", "ext-b", "ext-c", "ext-d"}, Platform: api.PlatformNode, LogLevel: api.LogLevelSilent})
			c.Eval(1)
			name := fmt.Sprintf("format=%d minify-identifiers=%v", format, minify)
			if len(r.Errors) > 0 || len(r.OutputFiles) != 1 {
				c.Violation("c15-wrapped-external-build:"+name, map[string]interface{}{"kind": "bundle failed", "config": name, "errors": jsonStr(r.Errors)})
				continue
			}
			out := map[string]string{}
			for k, v := range files {
				if strings.HasPrefix(k, "node_modules/") {
					out[k] = v
				}
			}
			entry, how := "bundle.mjs", "import"
			if format == api.FormatCommonJS {
				entry, how = "bundle.cjs", "require"
			}
			out[entry] = string(r.OutputFiles[0].Contents)
			c.Distinct(out[entry])
			cases = append(cases, graphCase{Files: out, Entry: entry, How: how})
			names = append(names, name)
		}
	}
	res := nodeGraph(pool.Get(0), cases)
	for k := range res {
		got := strings.Join(res[k].Log, "\n")
		if got != want || res[k].Err != nil {
			c.Violation("c15-wrapped-external:"+names[k], map[string]interface{}{"kind": "external imports of CommonJS-wrapped files bind to the wrong names", "config": names[k], "expected_log": want, "bundle": res[k].String(), "bundle_code": trunc(cases[k].Files[cases[k].Entry], 5000)})
		}
		c.Sub("wrapped_external_import_cases", 1)
	}
}
