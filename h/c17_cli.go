package main

import (
	"bytes"
	"fmt"
	"os"
	"os/exec"
	"path/filepath"
	"sort"
	"strings"
)

// C17 at the command line: the esbuild binary itself writes more files than the API does (--metafile=, --mangle-cache=).
// Every failing build - whatever stage reports the error - must leave the directory exactly as it was, and a successful
// one may only create files below the output locations it was given. The binary is built from /repo's current tree.
func c17CLI(c *Check, root string) {
	exe, _ := filepath.Abs(os.Args[0])
	bin := filepath.Join(filepath.Dir(exe), "esbuild-real") // built next to the harness by build.sh
	if _, err := os.Stat(bin); err != nil {
		fatalf("esbuild binary not built: %s", bin)
	}
	base := map[string]string{
		"src/entry.js": "import {x} from './lib.js';\nimport './side.js';\nconsole.log(x);\n",
		"src/lib.js":   "export const x = {prop_: 1};\n",
		"src/side.js":  "console.log('side');\n",
		"src/two.js":   "export const two = 2;\n",
	}
	faults := []struct {
		name  string
		files map[string]string
		args  []string
	}{
		{"none", nil, nil},
		{"syntax-error(scan)", map[string]string{"src/lib.js": "export const x = ;\n"}, nil},
		{"unresolved-import(scan)", map[string]string{"src/side.js": "import './missing.js';\n"}, nil},
		{"missing-export(link)", map[string]string{"src/lib.js": "export const y = 1;\n"}, nil},
		{"refuse-overwrite-input(compile)", nil, []string{"--outdir=src", "--out-extension:.js=.js"}},
		{"two-outputs-same-path(compile)", map[string]string{"src2/entry.js": "console.log('other');\n"}, []string{"src2/entry.js", "--entry-names=same"}},
		{"invalid-option", nil, []string{"--no-such-flag"}},
		{"tla-in-cjs(link)", map[string]string{"src/side.js": "await 0;\n"}, []string{"--format=cjs"}},
	}
	outs := [][]string{{"--outdir=out"}, {"--outfile=out/bundle.js"}, {"--outdir=out", "--splitting", "--format=esm"}}
	extras := [][]string{nil, {"--metafile=meta.json"}, {"--metafile=out/meta.json"}, {"--mangle-props=_$", "--mangle-cache=cache.json"}, {"--metafile=meta.json", "--sourcemap", "--mangle-props=_$", "--mangle-cache=cache.json"}, {"--metafile=meta.json", "--analyze"}}
	type job struct {
		fault, out, extra int
		existing        bool
	}
	var jobs []job
	for f := range faults {
		for o := range outs {
			for e := range extras {
				for _, ex := range []bool{false, true} {
					jobs = append(jobs, job{f, o, e, ex})
				}
			}
		}
	}
	c.ForEach(uint64(len(jobs)), func(w int, i uint64) {
		j := jobs[i]
		f := faults[j.fault]
		dir := filepath.Join(root, fmt.Sprintf("cli%d", i))
		files := map[string]string{}
		for k, v := range base {
			files[k] = v
		}
		for k, v := range f.files {
			files[k] = v
		}
		if j.existing {
			// earlier results that a failing build must not touch
			files["meta.json"] = "{\"old\":true}"
			files["cache.json"] = "{\"prop_\":\"z\"}"
			files["out/bundle.js"] = "// old bundle\n"
			files["out/meta.json"] = "{\"old\":true}"
		}
		writeTree(dir, files)
		defer os.RemoveAll(dir)
		args := []string{"src/entry.js", "--bundle", "--log-level=silent"}
		args = append(args, outs[j.out]...)
		args = append(args, extras[j.extra]...)
		args = append(args, f.args...)
		hasFormat := false
		for _, a := range f.args {
			if strings.HasPrefix(a, "--format=") {
				hasFormat = true
			}
		}
		if hasFormat {
			// a later --format would conflict with splitting's esm
			var a2 []string
			for _, a := range args {
				if a == "--splitting" || a == "--format=esm" {
					continue
				}
				a2 = append(a2, a)
			}
			args = a2
		}
		before := snapshot(dir)
		cmd := exec.Command(bin, args...)
		cmd.Dir = dir
		var stderr bytes.Buffer
		cmd.Stderr = &stderr
		cmd.Stdout = &stderr
		err := cmd.Run()
		after := snapshot(dir)
		c.Eval(1)
		cr, mo, de := snapDiff(before, after)
		failed := err != nil
		label := fmt.Sprintf("cli:%s:%s:existing=%v", f.name, strings.Join(args[1:], " "), j.existing)
		c.Distinct(f.name, fmt.Sprint(cr, mo, de, failed))
		if failed {
			if len(cr)+len(mo)+len(de) > 0 {
				c.Violation(label, map[string]interface{}{"kind": "a failing command-line build created, modified or deleted files", "fault": f.name, "args": args, "created": cr, "modified": mo, "deleted": de, "output": trunc(stderr.String(), 400)})
			}
			return
		}
		if f.name != "none" && f.name != "two-outputs-same-path(compile)" {
			// every other fault must be reported as a failure
			c.Violation(label+":no-failure", map[string]interface{}{"kind": "a build with an injected fault exited successfully", "fault": f.name, "args": args})
			return
		}
		// success: inputs untouched, everything created lies at a requested location
		allowed := func(p string) bool {
			return p == "out" || strings.HasPrefix(p, "out/") || p == "meta.json" || p == "cache.json"
		}
		var bad []string
		for _, p := range append(append([]string{}, cr...), mo...) {
			if !allowed(p) {
				bad = append(bad, p)
			}
		}
		for _, p := range de {
			bad = append(bad, "deleted:"+p)
		}
		sort.Strings(bad)
		if len(bad) > 0 {
			c.Violation(label+":footprint", map[string]interface{}{"kind": "a successful command-line build touched files outside its output locations", "args": args, "paths": bad})
		}
	})
	c.Set("cli_builds", len(jobs))
}
