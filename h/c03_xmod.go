package main

// C03 cross-module constants: the printer folds expressions a second time after the linker has inlined constants
// imported from other modules (late constant folding). The segment re-uses the operator x operator x leaf space with
// the leaves being imported constants, bundles every program with a virtual "consts" module and compares with the
// unbundled program (constants defined as globals in the reference context).

import (
	"strings"

	"github.com/evanw/esbuild/pkg/api"
)

var c03XmodConsts = []struct{ name, value string }{
	{"K0", "0"}, {"K1", "1"}, {"KE", "\"\""}, {"KS", "\"s\""}, {"KN", "null"}, {"KT", "true"}, {"KF", "false"}, {"KM", "-1"}, {"KU", "void 0"},
}

func c03XmodNames() []string {
	var n []string
	for _, k := range c03XmodConsts {
		n = append(n, k.name)
	}
	return n
}

// c03XmodPrelude defines the constants in the reference context (assignments, so that a shared context can run it again)
func c03XmodPrelude() string {
	var b strings.Builder
	for _, k := range c03XmodConsts {
		b.WriteString("globalThis." + k.name + " = " + k.value + ";")
	}
	return b.String()
}

func c03XmodBundle(code string, o api.TransformOptions) (string, bool) {
	var lib strings.Builder
	for _, k := range c03XmodConsts {
		lib.WriteString("export const " + k.name + " = " + k.value + ";\n")
	}
	r := api.Build(api.BuildOptions{
		Stdin:             &api.StdinOptions{Contents: "import {" + strings.Join(c03XmodNames(), ", ") + "} from 'consts';\n" + code, ResolveDir: "/", Sourcefile: "entry.js"},
		Bundle:            true,
		Write:             false,
		Format:            api.FormatIIFE,
		MinifySyntax:      o.MinifySyntax,
		MinifyWhitespace:  o.MinifyWhitespace,
		MinifyIdentifiers: o.MinifyIdentifiers,
		LogLevel:          api.LogLevelSilent,
		Plugins: []api.Plugin{{Name: "consts", Setup: func(b api.PluginBuild) {
			b.OnResolve(api.OnResolveOptions{Filter: "^consts$"}, func(api.OnResolveArgs) (api.OnResolveResult, error) {
				return api.OnResolveResult{Path: "consts", Namespace: "virtual"}, nil
			})
			b.OnLoad(api.OnLoadOptions{Filter: ".*", Namespace: "virtual"}, func(api.OnLoadArgs) (api.OnLoadResult, error) {
				s := lib.String()
				return api.OnLoadResult{Contents: &s, Loader: api.LoaderJS}, nil
			})
		}}},
	})
	if len(r.Errors) > 0 || len(r.OutputFiles) != 1 {
		return "", false
	}
	return string(r.OutputFiles[0].Contents), true
}

var c03XmodCfgs = []xcfg{
	{"bundle", api.TransformOptions{}},
	{"bundle+syntax", api.TransformOptions{MinifySyntax: true}},
	{"bundle+all", api.TransformOptions{MinifySyntax: true, MinifyWhitespace: true, MinifyIdentifiers: true}},
}
