package main

import (
	"bytes"
	"fmt"
	"os"
	"path/filepath"
	"regexp"
	"strings"

	"github.com/evanw/esbuild/pkg/api"
)

// C07: every mapping of every emitted source map is true. Marker programs make a token's identity readable from
// its text (identifiers m<k>, numbers 9<k>, strings 'S<k>', templates `T<k>`, CSS names .m<k> / --m<k>), so for each
// mapping the generated token and the original token at the mapped UTF-16 position can be compared directly.

type c07Gen struct {
	k     int
	alias map[string]string
}

var c07Tpl = regexp.MustCompile(`~([inst])(?:<(\w+)>)?|~<(\w+)>`)

func (g *c07Gen) inst(tpl string) string {
	if g.alias == nil {
		g.alias = map[string]string{}
	}
	return c07Tpl.ReplaceAllStringFunc(tpl, func(s string) string {
		m := c07Tpl.FindStringSubmatch(s)
		if m[3] != "" {
			v, ok := g.alias[m[3]]
			if !ok {
				fatalf("c07: alias %s used before definition in %q", m[3], tpl)
			}
			return v
		}
		g.k++
		var v string
		switch m[1] {
		case "i":
			v = fmt.Sprintf("m%d_", g.k)
		case "n":
			v = fmt.Sprintf("9%03d", g.k)
		case "s":
			v = fmt.Sprintf("'S%d'", g.k)
		case "t":
			v = fmt.Sprintf("`T%d`", g.k)
		}
		if m[2] != "" {
			g.alias[m[2]] = v
		}
		return v
	})
}

var c07BaseJS = []string{
	"var ~i = ~n, ~i = ~s;",
	"let ~i = ~t, ~i = /x/.test(~i);",
	"function ~i(~i, ~i) { var ~i = ~i; return ~i + ~i * ~n }",
	"class ~i extends ~i { ~i(~i) { return ~s } static ~i = ~n; get ~i() { return this.~i } }",
	"~i: for (const ~i of [~n, ~i]) { if (~i) continue; else break }",
	"const { ~i: ~i, ~i = ~n, ...~i } = ~i;",
	"~i = ~i ? ~i : ~i; ~i.~i(~n)[~s]; new ~i(~i); ~i?.~i;",
	"try { ~i() } catch (~i) { ~i } finally { ~i }",
	"switch (~i) { case ~n: ~i; default: ~i }",
	"async function ~i() { await ~i; for await (const ~i of ~i) ~i; }",
	"var ~i = { ~i: ~i, ~i() { return ~i }, [~i]: ~n, ...~i }, ~i = (~i, ~i) => ~i, ~i = [~i, ...~i];",
	"if (~i) throw typeof ~i + delete ~i.~i;",
}

var c07BaseMJS = []string{
	"import ~i<a>, { x as ~i<b> } from 'pkg'; import * as ~i<ns> from 'pkg2';",
	"export default class ~i { ~i() { return ~<a> + ~<b> + ~<ns>.~i } }",
	"export function ~i(~i) { return ~n }",
	"export const ~i = ~s, ~i = ~t; export { ~<a> as ~i };",
	"export * from 'pkg3'; export * as ~i from 'pkg4';",
	"export async function* ~i(~i = ~n, [~i, ~i] = ~i) { yield* ~i; yield ~i }",
}

var c07BaseTS = []string{
	"enum ~i { ~i = ~n, ~i = ~n }",
	"namespace ~i { export const ~i = ~n; export function ~i(~i: number): string { return ~s } }",
	"class ~i<T> { constructor(public ~i: T, private ~i = ~n) {} ~i?: number; declare ~i: string }",
	"let ~i = ~i as any, ~i = <number>~i, ~i = ~i!;",
	"function ~i(this: any, ~i?: number, ...~i: string[]): void { ~i(~i) }",
	"interface ~i { ~i: number } type ~i = { ~i: string };",
	"abstract class ~i { abstract ~i(): void; ~i(): number { return ~n } }",
}

var c07BaseJSX = []string{
	"var ~i = <~i<tag> ~i={~i} ~i=~s>{~i}<~i.~i /></~<tag>>;",
	"var ~i = <>{~i}<div ~i>{~s}</div></>;",
	"function ~i(~i) { return <~i {...~i} ~i={~n} /> }",
}

var c07BaseCSS = []string{
	".~i { color: red; --~i: ~npx }",
	"@media (min-width: ~npx) { .~i, #~i > .~i { margin: ~npx; --~i: ~s } }",
	"@keyframes ~i { from { top: ~npx } to { top: ~npx } }",
	"@supports (display: grid) { .~i { display: grid; --~i: 1 } }",
	"@layer ~i { .~i { color: blue } }",
	".~i { & .~i { color: red } --~i: 2 }",
	".~i::before { content: ~s; --~i: ~n }",
}

type c07Dev struct {
	name string
	js   string // text inserted before the statement (JS)
	css  string // same for CSS ("" = not applicable)
}

var c07Devs = []c07Dev{
	{"sp3", "   ", "   "},
	{"tab", "\t\t", "\t\t"},
	{"lf", "\n\n", "\n\n"},
	{"crlf", "\r\n", "\r\n"},
	{"cr", "\r", "\r"},
	{"ls", "\u2028", ""},
	{"ps", "\u2029", ""},
	{"long", strings.Repeat(" ", 300), strings.Repeat(" ", 300)},
	{"astral-comment", "/* \U0001F600 */ ", "/* \U0001F600 */ "},
	{"2byte-str", "'éé';", ".z::after { content: 'éé' } "},
	{"3byte-str", "'€';", ".z::after { content: '€' } "},
	{"astral-str", "'\U0001F600\U0001F600';", ".z::after { content: '\U0001F600' } "},
	{"multiline-comment", "/* a\n   b */ ", "/* a\n   b */ "},
	{"multiline-template", "`x\n yé`; ", ""},
	{"bom-like", "'\ufeff';", ""},
}

// c07Program builds one file: statements joined by sep, with deviations {position -> inserted text}
func c07Program(g *c07Gen, base []string, sep string, devs map[int]string) string {
	var sb strings.Builder
	for i, st := range base {
		if i > 0 {
			sb.WriteString(sep)
		}
		sb.WriteString(devs[i])
		sb.WriteString(g.inst(st))
	}
	sb.WriteString("\n")
	return sb.String()
}

type c07TCfg struct {
	name string
	o    api.TransformOptions
}

func c07TransformCfgs() []c07TCfg {
	cfgs := []c07TCfg{
		{"default", api.TransformOptions{}},
		{"minify-ws", api.TransformOptions{MinifyWhitespace: true}},
		{"minify-ids", api.TransformOptions{MinifyIdentifiers: true}},
		{"minify-all", api.TransformOptions{MinifyWhitespace: true, MinifyIdentifiers: true, MinifySyntax: true}},
		{"minify-all-utf8", api.TransformOptions{MinifyWhitespace: true, MinifyIdentifiers: true, MinifySyntax: true, Charset: api.CharsetUTF8}},
		{"utf8", api.TransformOptions{Charset: api.CharsetUTF8}},
		{"iife", api.TransformOptions{Format: api.FormatIIFE}},
		{"iife-minify-ws-utf8", api.TransformOptions{Format: api.FormatIIFE, MinifyWhitespace: true, Charset: api.CharsetUTF8}},
		{"es2015", api.TransformOptions{Target: api.ES2015}},
		{"es2015-minify", api.TransformOptions{Target: api.ES2015, MinifyWhitespace: true, MinifyIdentifiers: true}},
		{"banner-footer", api.TransformOptions{Banner: "/* b1 é \U0001F600 */\n/* b2 */", Footer: "/* f */"}},
		{"no-content", api.TransformOptions{SourcesContent: api.SourcesContentExclude, MinifyWhitespace: true}},
	}
	// banner/footer is an independent dimension: every configuration also runs with a two-line banner (the offset of
	// the first mapping depends on banner x minify-whitespace x format wrapper x directive handling)
	n := len(cfgs)
	for _, c := range cfgs[:n] {
		if c.o.Banner == "" {
			c.name += "+banner"
			c.o.Banner, c.o.Footer = "/* b1 é \U0001F600 */\n/* b2 */", "/* f */"
			cfgs = append(cfgs, c)
		}
	}
	return cfgs
}

type c07Run struct {
	c  *Check
	st smStats
}

// checkTransform runs one file through Transform under one configuration and verifies the map
func (r *c07Run) checkTransform(key, file, src string, loader api.Loader, cfg c07TCfg, mode api.SourceMap) {
	o := cfg.o
	o.Loader = loader
	o.Sourcefile = file
	o.Sourcemap = mode
	o.LogLevel = api.LogLevelSilent
	if loader == api.LoaderCSS {
		o.Format = api.FormatDefault
		o.Banner, o.Footer = strings.ReplaceAll(o.Banner, "\n", " "), o.Footer
	}
	res := api.Transform(src, o)
	r.c.Eval(1)
	if len(res.Errors) > 0 {
		r.c.Sub("transform_error", 1)
		if os.Getenv("VERIF_DEBUG") != "" {
			fmt.Fprintf(os.Stderr, "c07 transform error %s: %s\n%s\n", key, res.Errors[0].Text, src)
		}
		return
	}
	gen := string(res.Code)
	r.c.Distinct(gen)
	var mapData []byte
	switch mode {
	case api.SourceMapExternal:
		mapData = res.Map
		if smLinkRe.MatchString(gen) {
			r.fail(key, "external source map but the code carries a sourceMappingURL comment", src, gen, nil, cfg.name)
			return
		}
	case api.SourceMapInline:
		b, ok := smInlineMap(gen)
		if !ok {
			r.fail(key, "inline source map requested but no data URL comment found", src, gen, nil, cfg.name)
			return
		}
		mapData = b
	case api.SourceMapInlineAndExternal:
		b, ok := smInlineMap(gen)
		if !ok || !bytes.Equal(bytes.TrimSpace(b), bytes.TrimSpace(res.Map)) {
			r.fail(key, "sourcemap=both: inline and external maps differ or are missing", src, gen, res.Map, cfg.name)
			return
		}
		mapData = res.Map
	}
	m, bad := smDecode(mapData)
	if bad != "" {
		r.fail(key, "malformed source map: "+bad, src, gen, mapData, cfg.name)
		return
	}
	r.c.Sub("maps_checked", 1)
	before := r.st.markerChecked
	bad = smVerify(gen, loader == api.LoaderCSS, m, func(s string) (smSource, bool) {
		if s == file {
			return smSource{src, loader == api.LoaderCSS}, true
		}
		return smSource{}, false
	}, cfg.o.SourcesContent == api.SourcesContentInclude, nil, &r.st, func(p smProblem) bool {
		return r.known(p, src, loader == api.LoaderTS, false, cfg.o.Target != api.DefaultTarget && cfg.o.Target != api.ESNext, src, (cfg.o.Format == api.FormatIIFE || cfg.o.Format == api.FormatCommonJS) && strings.Contains(src, "export"), nil)
	})
	if bad != "" {
		r.fail(key, bad, src, gen, mapData, cfg.name)
		return
	}
	if r.st.markerChecked == before {
		r.c.Sub("vacuous_maps", 1)
	}
}

var c07HelperName = regexp.MustCompile(`^(__\w+|_[a-z]\d*|(init|require|import)_\w+|\w+_default|\w+_exports)$`)

// known maps a false mapping onto a recorded finding (known_findings.json); anything else stays a violation
func (r *c07Run) known(p smProblem, src string, ts bool, renamedInStage1 bool, lowersOrBundle bool, allSources string, formatConv bool, stage1Start map[string][2]int) bool {
	// where line 0 column 0 of the module handed to the bundler lies in the original file: 0:0, or its image
	// under the stage-1 map when the bundler input carries an input source map
	atModuleStart := p.origLine == 0 && p.origCol == 0
	if stage1Start != nil {
		atModuleStart = false
		for suffix, at := range stage1Start {
			if strings.HasSuffix(p.source, "src/"+suffix) && at == [2]int{p.origLine, p.origCol} {
				atModuleStart = true
			}
		}
	}
	key := ""
	switch p.class {
	case "name":
		switch {
		case formatConv && p.origLine == 0 && p.origCol == 0:
			key = "sourcemap-export-table-of-format-conversion-mapped-to-file-start"
		case c07HelperName.MatchString(p.name) || (!renamedInStage1 && !regexp.MustCompile(`\b`+regexp.QuoteMeta(p.name)+`\b`).MatchString(allSources)):
			// a name that occurs nowhere in the original sources belongs to a compiler-generated symbol
			key = "sourcemap-name-of-compiler-generated-symbol-recorded-at-another-token"
		case ts && regexp.MustCompile(`\b(enum|namespace)\s+`+regexp.QuoteMeta(p.name)+`\b`).MatchString(src):
			key = "sourcemap-name-of-ts-enum-or-namespace-closure-parameter-recorded-at-member"
		case lowersOrBundle && src == "" && atModuleStart:
			key = "sourcemap-name-of-hoisted-declaration-of-wrapped-module-recorded-at-file-start"
		case renamedInStage1 && !smIdentMarker.MatchString(p.name):
			key = "sourcemap-names-not-composed-through-input-source-map"
		}
	case "marker":
		if formatConv && p.origLine == 0 && p.origCol == 0 {
			key = "sourcemap-export-table-of-format-conversion-mapped-to-file-start"
		}
	case "orig-space":
		if formatConv && p.origLine == 0 && p.origCol == 0 {
			key = "sourcemap-export-table-of-format-conversion-mapped-to-file-start"
			break
		}
		if p.origLine == 0 && p.origCol == 0 && lowersOrBundle && (p.genTok == "}" || p.genTok == "{") {
			key = "sourcemap-zero-location-for-object-pattern-generated-by-lowering"
		}
	}
	if key == "" {
		return false
	}
	return r.c.Known(key)
}

func (r *c07Run) fail(key, what, src, gen string, mapData []byte, cfg string) {
	r.c.Violation(key, map[string]interface{}{"kind": what, "config": cfg, "input": src, "output": gen, "map": string(mapData)})
}

func runC07(c *Check) {
	c.Rule = "marker programs (every identifier, number, string, template, CSS class/custom property is a unique marker) over 12 JS, 7 TS, 3 JSX and 7 CSS statement forms; layouts: 4 statement separators (LF, CRLF, one line, U+2028) x all single and pairs of 15 layout deviations (blanks, tabs, LF/CRLF/CR/U+2028/U+2029, 300-column prefix, astral / 2-byte / 3-byte characters in comments and strings earlier on the line, multi-line comments and templates) at 3 positions; x 12 transform configurations (minify ws/ids/all, charset, iife, es2015 lowering, banner/footer, sources-content) x sourcemap {external, inline, both}; bundles of an 8-file graph (JS + CSS; several dynamic imports on separate and on shared lines) x splitting with chunk/entry name templates of length 1-40 x sourcemap {linked, external, inline, both} x source-root x banner/footer x minify; two-stage builds whose inputs carry source maps (linked and inline). Every mapping of every emitted map is decoded by an independent VLQ decoder and checked: well-formed, positions in range, not inside a token, marker token == original marker token, recorded name == original identifier, sourcesContent == file text; distinct = distinct generated files; banner/footer is an independent dimension of every transform and bundle configuration"
	c.Assump = []string{"token identity is decided through marker texts: mappings of keywords and punctuators are only checked for being in range and at a token start on both sides", "completeness (that every token has a mapping) is not demanded by the statement and not checked; maps with no marker mapping are counted as vacuous_maps"}
	r := &c07Run{c: c}
	quick := c.Tier == "quick"
	cfgs := c07TransformCfgs()
	modes := []api.SourceMap{api.SourceMapExternal, api.SourceMapInline, api.SourceMapInlineAndExternal}
	type lang struct {
		name   string
		base   []string
		loader api.Loader
		file   string
	}
	langs := []lang{{"js", c07BaseJS, api.LoaderJS, "dir/in.js"}, {"mjs", c07BaseMJS, api.LoaderJS, "dir/in.mjs"}, {"ts", c07BaseTS, api.LoaderTS, "dir/in.ts"}, {"jsx", c07BaseJSX, api.LoaderJSX, "dir/in.jsx"}, {"css", c07BaseCSS, api.LoaderCSS, "dir/in.css"}}
	type tcase struct {
		key, file, src string
		loader         api.Loader
	}
	var cases []tcase
	for _, l := range langs {
		seps := []string{"\n", "\r\n", " ", "\u2028"}
		if l.name == "css" {
			seps = seps[:3]
		}
		positions := []int{0, len(l.base) / 2, len(l.base) - 1}
		type dv struct {
			pos  int
			name string
			text string
		}
		var dvs []dv
		for _, p := range positions {
			for _, d := range c07Devs {
				t := d.js
				if l.name == "css" {
					t = d.css
				}
				if l.name == "jsx" && strings.HasPrefix(d.name, "multiline-template") {
					continue
				}
				if t != "" {
					dvs = append(dvs, dv{p, d.name, t})
				}
			}
		}
		for si, sep := range seps {
			g := &c07Gen{}
			cases = append(cases, tcase{fmt.Sprintf("%s:sep%d", l.name, si), l.file, c07Program(g, l.base, sep, nil), l.loader})
			for i, d1 := range dvs {
				g := &c07Gen{}
				cases = append(cases, tcase{fmt.Sprintf("%s:sep%d:%s@%d", l.name, si, d1.name, d1.pos), l.file, c07Program(g, l.base, sep, map[int]string{d1.pos: d1.text}), l.loader})
				for j := i; j < len(dvs); j++ {
					d2 := dvs[j]
					if quick && (i*7+j*3+si)%9 != 0 {
						continue
					}
					if !quick && l.name != "js" && (i+j)%3 != 0 {
						continue
					}
					text := map[int]string{d1.pos: d1.text}
					if d2.pos == d1.pos {
						text[d1.pos] = d1.text + d2.text
					} else {
						text[d2.pos] = d2.text
					}
					g := &c07Gen{}
					cases = append(cases, tcase{fmt.Sprintf("%s:sep%d:%s@%d+%s@%d", l.name, si, d1.name, d1.pos, d2.name, d2.pos), l.file, c07Program(g, l.base, sep, text), l.loader})
				}
			}
		}
	}
	c.Set("transform_cases", len(cases))
	var stMu = make(chan struct{}, 1)
	c.ForEach(uint64(len(cases)), func(w int, i uint64) {
		tc := cases[i]
		local := &c07Run{c: c}
		for ci, cfg := range cfgs {
			mode := modes[(int(i)+ci)%len(modes)]
			if !quick {
				for _, mode := range modes {
					local.checkTransform("transform:"+cfg.name+":"+tc.key, tc.file, tc.src, tc.loader, cfg, mode)
				}
				continue
			}
			local.checkTransform("transform:"+cfg.name+":"+tc.key, tc.file, tc.src, tc.loader, cfg, mode)
		}
		stMu <- struct{}{}
		r.st.mappings += local.st.mappings
		r.st.markerChecked += local.st.markerChecked
		r.st.nameChecked += local.st.nameChecked
		r.st.contentChecked += local.st.contentChecked
		<-stMu
	})
	c07Bundles(c, r, quick)
	c07ComposeUnmappedRegions(c, r)
	c.Sub("mappings_checked", uint64(r.st.mappings))
	c.Sub("marker_mappings_checked", uint64(r.st.markerChecked))
	c.Sub("names_checked", uint64(r.st.nameChecked))
	c.Sub("sources_content_checked", uint64(r.st.contentChecked))
	if len(cases) > 0 {
		c.Sample(map[string]string{"case": cases[len(cases)/2].key, "source": trunc(cases[len(cases)/2].src, 400)})
	}
}

// ---- bundles

type c07Graph struct {
	files   map[string][]string // file -> statements
	entries []string
}

func c07GraphFiles() map[string][]string {
	return map[string][]string{
		"src/a.js": {
			"import { x1 as ~i<p>, x2 } from './b.js';",
			"import ~i<d>, * as ~i<ns> from './lib/c.js';",
			"import './e.css';",
			"export function ~i<f>(~i<q>) { var ~i<loc> = ~n; return ~<p>(~<q>, x2, ~<d>, ~<ns>.y1, ~<loc>) }",
			"export default ~s;",
			"~i(~<f>, import('./d.js').then(~i<r> => ~<r>.z1));",
			"import('./f.js').then(~i<r4> => ~i(~<r4>.w1, ~s));",
			"import('./g.js').then(~i, ~i); import('./f.js').then(~i, ~i);",
		},
		"src/f.js": {
			"export const w1 = ~n; ~i(~s);",
		},
		"src/g.js": {
			"export const w2 = ~n; ~i(~t);",
		},
		"src/b.js": {
			"export const x1 = (~i<u>, ~i<v>) => ~<u> + ~<v> + ~n + ~s;",
			"export let x2 = ~s;",
			"export var x3 = ~n;",
		},
		"src/lib/c.js": {
			"export default class ~i<dc> { ~i(~i<w>) { return ~<w> + ~n } }",
			"export const y1 = ~s;",
			"~i(~t);",
		},
		"src/d.js": {
			"import { x1 as ~i<p2> } from './b.js';",
			"export const z1 = ~<p2>(~n, ~s);",
			"~i(~s);",
		},
		"src/e.css": {
			".~i { color: red; --~i: ~npx }",
			"@media (min-width: ~npx) { .~i > .~i { margin: ~npx; --~i: ~s } }",
		},
		"src/entry2.js": {
			"import { x1 as ~i<p3>, x3 } from './b.js';",
			"~i(~<p3>(x3, ~n), ~s);",
			"import('./d.js').then(~i<r2> => ~i(~<r2>.z1));",
		},
	}
}

type c07BCfg struct {
	name string
	o    api.BuildOptions
}

func c07Bundles(c *Check, r *c07Run, quick bool) {
	root := scratchRoot("c07")
	defer os.RemoveAll(root)
	// layouts of the graph: separator x one deviation applied to every file at position 0 or 1
	type layout struct {
		name string
		sep  string
		devs map[int]string
	}
	layouts := []layout{{"lf", "\n", nil}, {"crlf", "\r\n", nil}, {"one-line", " ", nil}}
	for _, d := range c07Devs {
		if d.css == "" || d.js == "" {
			continue
		}
		layouts = append(layouts, layout{"lf+" + d.name + "@1", "\n", map[int]string{1: d.name}}, layout{"one-line+" + d.name + "@1", " ", map[int]string{1: d.name}})
	}
	devText := func(name string, css bool) string {
		for _, d := range c07Devs {
			if d.name == name {
				if css {
					return d.css
				}
				return d.js
			}
		}
		return ""
	}
	longDir := strings.Repeat("d", 33)
	cfgs := []c07BCfg{
		{"bundle-esm", api.BuildOptions{Format: api.FormatESModule}},
		{"bundle-iife-minify", api.BuildOptions{Format: api.FormatIIFE, MinifyWhitespace: true, MinifyIdentifiers: true, MinifySyntax: true}},
		{"bundle-cjs-utf8-minify-ws", api.BuildOptions{Format: api.FormatCommonJS, MinifyWhitespace: true, Charset: api.CharsetUTF8}},
		{"split", api.BuildOptions{Format: api.FormatESModule, Splitting: true}},
		{"split-minify", api.BuildOptions{Format: api.FormatESModule, Splitting: true, MinifyWhitespace: true, MinifyIdentifiers: true}},
		{"split-minify-long-names", api.BuildOptions{Format: api.FormatESModule, Splitting: true, MinifyWhitespace: true, ChunkNames: longDir + "/[name]-[hash]", EntryNames: "e/[dir]/[name]-[hash]"}},
		{"split-short-names", api.BuildOptions{Format: api.FormatESModule, Splitting: true, MinifyWhitespace: true, ChunkNames: "c[hash]", EntryNames: "[name]"}},
		{"split-banner-footer", api.BuildOptions{Format: api.FormatESModule, Splitting: true, Banner: map[string]string{"js": "/* banner\n line2 é \U0001F600 */ ", "css": "/* cssbanner\n l2 */"}, Footer: map[string]string{"js": "/* footer */", "css": "/* f */"}}},
		{"bundle-source-root", api.BuildOptions{Format: api.FormatESModule, SourceRoot: "https://example.com/root"}},
		{"bundle-no-content", api.BuildOptions{Format: api.FormatESModule, SourcesContent: api.SourcesContentExclude, MinifyWhitespace: true}},
		{"split-es2015-minify", api.BuildOptions{Format: api.FormatESModule, Splitting: true, Target: api.ES2015, MinifyWhitespace: true, MinifySyntax: true}},
	}
	// banner/footer as an independent dimension (see c07TransformCfgs)
	for _, bc := range cfgs[:len(cfgs)] {
		if bc.o.Banner == nil {
			bc.name += "+banner"
			bc.o.Banner = map[string]string{"js": "/* banner\n line2 é \U0001F600 */", "css": "/* cssbanner\n l2 */"}
			bc.o.Footer = map[string]string{"js": "/* footer */", "css": "/* f */"}
			cfgs = append(cfgs, bc)
		}
	}
	modes := []api.SourceMap{api.SourceMapLinked, api.SourceMapExternal, api.SourceMapInline, api.SourceMapInlineAndExternal}
	modeName := map[api.SourceMap]string{api.SourceMapLinked: "linked", api.SourceMapExternal: "external", api.SourceMapInline: "inline", api.SourceMapInlineAndExternal: "both"}
	for li, lay := range layouts {
		if c.Expired() {
			return
		}
		dir := filepath.Join(root, fmt.Sprintf("L%d", li))
		files := map[string]string{}
		g := &c07Gen{}
		graph := c07GraphFiles()
		aliases := map[string]map[string]string{}
		names := []string{"src/a.js", "src/b.js", "src/lib/c.js", "src/d.js", "src/e.css", "src/entry2.js", "src/f.js", "src/g.js"}
		for _, f := range names {
			css := strings.HasSuffix(f, ".css")
			devs := map[int]string{}
			for p, dn := range lay.devs {
				devs[p] = devText(dn, css)
			}
			g.alias = nil
			files[f] = c07Program(g, graph[f], lay.sep, devs)
			aliases[f] = g.alias
		}
		// an import binding and the declaration it is bound to are the same variable: the bundler prints the
		// declaration's name at the import's use sites
		equiv := map[string]string{aliases["src/a.js"]["d"]: aliases["src/lib/c.js"]["dc"],
			aliases["src/a.js"]["p"]: "x1", aliases["src/d.js"]["p2"]: "x1", aliases["src/entry2.js"]["p3"]: "x1"}
		writeTree(dir, files)
		for ci, cfg := range cfgs {
			for mi, mode := range modes {
				if quick && (li+ci+mi)%2 != 0 && li > 2 {
					continue
				}
				o := cfg.o
				o.EntryPoints = []string{filepath.Join(dir, "src/a.js")}
				if o.Splitting {
					o.EntryPoints = append(o.EntryPoints, filepath.Join(dir, "src/entry2.js"))
				}
				o.Bundle = true
				o.Outdir = filepath.Join(dir, "out")
				o.Write = false
				o.Sourcemap = mode
				o.LogLevel = api.LogLevelSilent
				key := fmt.Sprintf("bundle:%s:%s:%s", cfg.name, modeName[mode], lay.name)
				res := api.Build(o)
				c.Eval(1)
				if len(res.Errors) > 0 {
					c.Violation(key, map[string]interface{}{"kind": "bundle of a valid marker graph fails", "error": res.Errors[0].Text, "files": files})
					continue
				}
				c07CheckOutputsOpt(c, r, key, dir, res.OutputFiles, mode, cfg.o.SourcesContent == api.SourcesContentInclude, cfg.o.SourceRoot, files, false, equiv, false, nil)
			}
		}
		// ---- composition through input source maps: stage 1 transforms src/* into mid/* with maps, stage 2 bundles mid/*
		for si, s1 := range []struct {
			name string
			o    api.BuildOptions
		}{
			{"stage1-linked-minify-ws", api.BuildOptions{Sourcemap: api.SourceMapLinked, MinifyWhitespace: true}},
			{"stage1-inline", api.BuildOptions{Sourcemap: api.SourceMapInline}},
			{"stage1-linked-minify-all-no-content", api.BuildOptions{Sourcemap: api.SourceMapLinked, MinifyWhitespace: true, MinifyIdentifiers: true, MinifySyntax: true, SourcesContent: api.SourcesContentExclude}},
		} {
			if quick && (li+si)%2 != 0 && li > 2 {
				continue
			}
			o1 := s1.o
			for _, f := range names {
				o1.EntryPoints = append(o1.EntryPoints, filepath.Join(dir, f))
			}
			o1.Outdir = filepath.Join(dir, "mid", s1.name)
			o1.Outbase = filepath.Join(dir, "src")
			o1.Format = api.FormatESModule
			o1.Write = true
			o1.LogLevel = api.LogLevelSilent
			r1 := api.Build(o1)
			c.Eval(1)
			if len(r1.Errors) > 0 {
				c.Violation("compose:"+s1.name+":"+lay.name, map[string]interface{}{"kind": "stage 1 build fails", "error": r1.Errors[0].Text})
				continue
			}
			// image of line 0 column 0 of every stage-1 output under its own map (for the known-finding classifier)
			stage1Start := map[string][2]int{}
			for _, f := range names {
				rel := strings.TrimPrefix(filepath.ToSlash(f), "src/")
				gen, err := os.ReadFile(filepath.Join(o1.Outdir, filepath.FromSlash(rel)))
				if err != nil {
					continue
				}
				md, ok := smInlineMap(string(gen))
				if !ok {
					md, _ = os.ReadFile(filepath.Join(o1.Outdir, filepath.FromSlash(rel)) + ".map")
				}
				if m1, bad := smDecode(md); bad == "" {
					for _, sg := range m1.segs {
						if sg.genLine == 0 && sg.genCol == 0 {
							stage1Start[rel] = [2]int{sg.line, sg.col}
						}
					}
				}
			}
			for ci, cfg := range cfgs {
				if ci%2 == 1 && quick {
					continue
				}
				o := cfg.o
				o.EntryPoints = []string{filepath.Join(o1.Outdir, "a.js")}
				if o.Splitting {
					o.EntryPoints = append(o.EntryPoints, filepath.Join(o1.Outdir, "entry2.js"))
				}
				o.Bundle = true
				o.Outdir = filepath.Join(dir, "out2")
				o.Write = false
				o.Sourcemap = api.SourceMapLinked
				o.LogLevel = api.LogLevelSilent
				key := fmt.Sprintf("compose:%s:%s:%s", s1.name, cfg.name, lay.name)
				res := api.Build(o)
				c.Eval(1)
				if len(res.Errors) > 0 {
					c.Violation(key, map[string]interface{}{"kind": "stage 2 bundle fails", "error": res.Errors[0].Text})
					continue
				}
				// sources content: stage 2 can only include content that stage 1 provided
				wantContent := cfg.o.SourcesContent == api.SourcesContentInclude && s1.o.SourcesContent == api.SourcesContentInclude
				c07CheckOutputsOpt(c, r, key, dir, res.OutputFiles, api.SourceMapLinked, wantContent, cfg.o.SourceRoot, files, cfg.o.SourcesContent == api.SourcesContentInclude && !wantContent, equiv, s1.o.MinifyIdentifiers, stage1Start)
				c.Sub("composed_bundles", 1)
			}
			os.RemoveAll(filepath.Join(dir, "mid"))
		}
	}
}

func c07CheckOutputsOpt(c *Check, r *c07Run, key, dir string, outs []api.OutputFile, mode api.SourceMap, wantContent bool, sourceRoot string, files map[string]string, contentUnknown bool, equiv map[string]string, renamedInStage1 bool, stage1Start map[string][2]int) {
	allText := ""
	for _, t := range files {
		allText += t + "\n"
	}
	byPath := map[string][]byte{}
	for _, f := range outs {
		byPath[f.Path] = f.Contents
	}
	fail := func(what string, gen string, mapData []byte) {
		c.Violation(key, map[string]interface{}{"kind": what, "files": files, "output": gen, "map": string(mapData), "dir": dir})
	}
	for _, f := range outs {
		if strings.HasSuffix(f.Path, ".map") {
			continue
		}
		gen := string(f.Contents)
		c.Distinct(gen)
		isCSS := strings.HasSuffix(f.Path, ".css")
		var mapData []byte
		ext, hasExt := byPath[f.Path+".map"]
		switch mode {
		case api.SourceMapLinked:
			lk := smLinkRe.FindAllStringSubmatch(gen, -1)
			if !hasExt || len(lk) == 0 || lk[len(lk)-1][1] != filepath.Base(f.Path)+".map" {
				fail("linked source map: the sourceMappingURL comment does not name the emitted map file", gen, ext)
				return
			}
			mapData = ext
		case api.SourceMapExternal:
			if !hasExt || smLinkRe.MatchString(gen) {
				fail("external source map: map file missing or code carries a sourceMappingURL comment", gen, ext)
				return
			}
			mapData = ext
		case api.SourceMapInline:
			b, ok := smInlineMap(gen)
			if !ok || hasExt {
				fail("inline source map: no data URL comment, or a map file was emitted as well", gen, ext)
				return
			}
			mapData = b
		case api.SourceMapInlineAndExternal:
			b, ok := smInlineMap(gen)
			if !ok || !hasExt || !bytes.Equal(bytes.TrimSpace(b), bytes.TrimSpace(ext)) {
				fail("sourcemap=both: inline and external maps differ or are missing", gen, ext)
				return
			}
			mapData = ext
		}
		m, bad := smDecode(mapData)
		if bad != "" {
			fail("malformed source map: "+bad, gen, mapData)
			return
		}
		if m.SourceRoot != sourceRoot {
			fail(fmt.Sprintf("sourceRoot is %q, expected %q", m.SourceRoot, sourceRoot), gen, mapData)
			return
		}
		c.Sub("maps_checked", 1)
		before := r.st.markerChecked
		mapDir := filepath.Dir(f.Path)
		st := &r.st
		if contentUnknown {
			// sourcesContent may be partially present (null where stage 1 had none): verify positions only
			m.SourcesContent = nil
		}
		bad = smVerify(gen, isCSS, m, func(s string) (smSource, bool) {
			p := filepath.Clean(filepath.Join(mapDir, filepath.FromSlash(s)))
			rel, err := filepath.Rel(dir, p)
			if err != nil {
				return smSource{}, false
			}
			txt, ok := files[filepath.ToSlash(rel)]
			return smSource{txt, strings.HasSuffix(rel, ".css")}, ok
		}, wantContent, equiv, st, func(p smProblem) bool {
			return r.known(p, "", false, renamedInStage1, true, allText, false, stage1Start)
		})
		if bad != "" {
			fail(bad, gen, mapData)
			return
		}
		if r.st.markerChecked == before {
			c.Sub("vacuous_maps", 1)
		}
	}
}

// c07ComposeUnmappedRegions: the input of stage 2 is itself a minified *bundle* whose map contains segments without a
// source (the code of a base64/dataurl/binary/file-loader module between two mapped modules, all on one line). The
// mappings of the modules after the unmapped region must still point at their originals.
func c07ComposeUnmappedRegions(c *Check, r *c07Run) {
	root := scratchRoot("c07u")
	defer os.RemoveAll(root)
	files := map[string]string{
		"src/s.js": "import { m1_ } from './p.js';\nimport m2_ from './q.bin';\nimport { m3_ } from './r.js';\nm4_(m1_, m2_, m3_, 'S5', 9006);\n",
		// (the module before the unmapped region ends in one long token, so the segment without a source lies far from the last mapping)
		"src/p.js":  "export function m1_(m7_) { return m7_ + 9008 + 'S9' }\nm20_.m21_ = 'a rather long string literal, one token of sixty-odd columns, as the last token';\n",
		"src/q.bin": "binary \x00 data",
		"src/r.js":  "export const m3_ = (m10_, m11_) => m10_ * m11_ + 9012 + 'S13';\nm14_(`T15`);\n",
		"src/t.js":  "import m16_ from './q.bin';\nimport { m3_ as m17_ } from './r.js';\nm18_(m16_, m17_, 'S19');\n",
	}
	for li, loader := range []api.Loader{api.LoaderBase64, api.LoaderDataURL, api.LoaderBinary, api.LoaderText, api.LoaderFile} {
		for _, entry := range []string{"src/s.js", "src/t.js"} {
			for _, ws := range []bool{true, false} {
				dir := filepath.Join(root, fmt.Sprintf("u%d%v%s", li, ws, filepath.Base(entry)))
				writeTree(dir, files)
				r1 := api.Build(api.BuildOptions{AbsWorkingDir: dir, EntryPoints: []string{entry}, Bundle: true, Format: api.FormatESModule, MinifyWhitespace: ws, Sourcemap: api.SourceMapLinked,
					Outdir: filepath.Join(dir, "mid"), Outbase: filepath.Join(dir, "src"), Loader: map[string]api.Loader{".bin": loader}, Write: true, LogLevel: api.LogLevelSilent})
				c.Eval(1)
				if len(r1.Errors) > 0 {
					c.Violation(fmt.Sprintf("compose-unmapped:stage1:%d", li), map[string]interface{}{"kind": "stage 1 build fails", "error": r1.Errors[0].Text})
					continue
				}
				for _, minify := range []bool{false, true} {
					o := api.BuildOptions{AbsWorkingDir: dir, EntryPoints: []string{filepath.Join(dir, "mid", strings.TrimPrefix(entry, "src/"))}, Bundle: true, Format: api.FormatESModule, MinifyWhitespace: minify, MinifyIdentifiers: minify,
						Sourcemap: api.SourceMapLinked, Outdir: filepath.Join(dir, "out2"), Write: false, LogLevel: api.LogLevelSilent}
					res := api.Build(o)
					c.Eval(1)
					key := fmt.Sprintf("compose-unmapped:loader=%d:stage1-minify-ws=%v:stage2-minify=%v:%s", loader, ws, minify, entry)
					if len(res.Errors) > 0 {
						c.Violation(key, map[string]interface{}{"kind": "stage 2 bundle fails", "error": res.Errors[0].Text})
						continue
					}
					c07CheckOutputsOpt(c, r, key, dir, res.OutputFiles, api.SourceMapLinked, true, "", files, false, map[string]string{"m17_": "m3_"}, false, map[string][2]int{})
					c.Sub("composed_bundles_with_unmapped_regions", 1)
				}
				os.RemoveAll(dir)
			}
		}
	}
}

func init() { register("C07", "exploration", runC07) }
