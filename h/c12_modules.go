package main

import (
	"fmt"
	"os"
	"path/filepath"
	"regexp"
	"sort"
	"strings"

	"github.com/evanw/esbuild/pkg/api"
)

// CSS modules (local-css / global-css): local names must be renamed consistently between the emitted CSS and the
// names exported to JavaScript, without collisions (between files, and with global names).
//
// Oracle. Two module files f1, f2 are bundled through a JS entry. The exported objects give the map
// (file, local name) -> output name. (1) That map must be injective and must avoid every global name used in either
// sheet. (2) The reference sheet is the input with ":local()/:global()" removed and every local name replaced by a
// file-specific DOM name (f1.a -> .b, f2.a -> .c, global .a stays .a, ...); esbuild's CSS with the output names
// mapped back through the inverse export map must render exactly like the reference in Chrome. (3) "composes" must
// export exactly the output names of the composed classes.

type c12Mod struct {
	css      string
	composes map[string][]string // local name -> list of "f1:a" / "f2:a" / "global:a" composed names
}

var c12ModF1 = []c12Mod{
	{".a { color: red } .b { margin: 1px }", nil},
	{".a { color: red } :global(.a) { margin: 9px } :global(.a) .a { padding: 1px }", nil},
	{":local(.a) { color: red } .a:hover, .a :global(.a) { margin: 3px }", nil},
	{"@keyframes k { from { margin-left: 5px } to { margin-left: 5px } } .a { animation: k 1s }", nil},
	{"@keyframes k { from { margin-left: 5px } to { margin-left: 5px } } .a { animation-name: k; animation-duration: 1s } .k { color: red }", nil},
	{"#i1 { top: 1px; position: relative } :global(#i1) { left: 3px } .a { color: red }", nil},
	{".a { color: red } .b { composes: a; margin: 1px }", map[string][]string{"b": {"f1:a"}}},
	{".a { color: red } .b { composes: a from \"./f2.module.css\"; margin: 1px }", map[string][]string{"b": {"f2:a"}}},
	{".a { color: red } .b { composes: a from global; margin: 1px }", map[string][]string{"b": {"global:a"}}},
	{".a { color: red } .b { composes: a; margin: 1px } .x { composes: b; padding: 2px }", map[string][]string{"b": {"f1:a"}, "x": {"f1:b", "f1:a"}}},
	{".a { & .b { color: red } & :global(.a) { margin: 4px } }", nil},
	{".a { :global(.a) & { color: red } }", nil},
	{"@media (min-width: 500px) { .a { color: red } } @supports (display: grid) { .a { margin: 2px } }", nil},
	{".a.b { color: red } .a > .b, .b + .a { margin: 5px }", nil},
	{":is(.a, :global(.a)) { color: red }", nil},
	{":not(.a) > :global(.a) { margin: 2px }", nil},
	{".\\61 { color: red } .a { margin: 6px }", nil},
	{".a { color: red } .A { margin: 1px }", nil},
	{".a::before { content: '.a #i1'; color: red } [class=a] { margin: 2px }", nil},
}

var c12ModF2 = []c12Mod{
	{".a { color: blue }", nil},
	{".a { color: blue } .c { color: green } :global(.a) { margin: 8px }", nil},
	{"@keyframes k { from { margin-left: 7px } to { margin-left: 7px } } .a { animation: k 1s }", nil},
	{"#i1 { top: 2px; position: relative } .a { padding: 3px }", nil},
	{".a { color: blue } .b { composes: a; padding: 2px }", map[string][]string{"b": {"f2:a"}}},
}

var c12ModRef = map[string]map[string]string{
	"f1": {"a": "b", "b": "zz1", "x": "zz3", "i1": "i2", "k": "k1", "A": "zz5", "c": "zz6"},
	"f2": {"a": "c", "b": "zz4", "c": "zz2", "i1": "i3", "k": "k2"},
}

var (
	c12ReGlobal   = regexp.MustCompile(`:global\(([^)]*)\)`)
	c12ReLocal    = regexp.MustCompile(`:local\(([^)]*)\)`)
	c12ReName     = regexp.MustCompile("([\x01\x02]?)([.#])((?:\\\\61|[A-Za-z_])[\\w-]*)")
	c12ReCompose  = regexp.MustCompile(`composes:[^;}]*;?`)
	c12ReKeyframe = regexp.MustCompile(`(@keyframes |animation: |animation-name: )([A-Za-z_][\w-]*)`)
	c12ReString   = regexp.MustCompile(`'[^']*'|"[^"]*"`)
	c12ReObj      = regexp.MustCompile(`(?s)var (\w+)\s*=\s*\{(.*?)\};`)
	c12ReKV       = regexp.MustCompile(`(\w+):\s*"([^"]*)"`)
)

// c12ModReference rewrites one module sheet into the reference sheet (see above)
func c12ModReference(css, file string, defaultLocal bool) string {
	m := c12ModRef[file]
	css = c12ReCompose.ReplaceAllString(css, "")
	var strs []string
	css = c12ReString.ReplaceAllStringFunc(css, func(s string) string { strs = append(strs, s); return fmt.Sprintf("\x03%d\x03", len(strs)-1) })
	css = c12ReGlobal.ReplaceAllStringFunc(css, func(s string) string {
		in := c12ReGlobal.FindStringSubmatch(s)[1]
		return strings.NewReplacer(".", "\x01.", "#", "\x01#").Replace(in)
	})
	css = c12ReLocal.ReplaceAllStringFunc(css, func(s string) string {
		in := c12ReLocal.FindStringSubmatch(s)[1]
		return strings.NewReplacer(".", "\x02.", "#", "\x02#").Replace(in)
	})
	css = c12ReName.ReplaceAllStringFunc(css, func(s string) string {
		g := c12ReName.FindStringSubmatch(s)
		name := strings.Replace(g[3], "\\61 ", "a", 1)
		name = strings.Replace(name, "\\61", "a", 1)
		local := g[1] == "\x02" || (g[1] == "" && defaultLocal)
		if local {
			if r, ok := m[name]; ok {
				return g[2] + r
			}
			fatalf("c12 modules: no reference name for %s.%s", file, name)
		}
		return g[2] + name
	})
	if defaultLocal {
		css = c12ReKeyframe.ReplaceAllStringFunc(css, func(s string) string {
			g := c12ReKeyframe.FindStringSubmatch(s)
			if r, ok := m[g[2]]; ok {
				return g[1] + r
			}
			return s
		})
	}
	for i, s := range strs {
		css = strings.Replace(css, fmt.Sprintf("\x03%d\x03", i), s, 1)
	}
	return css
}

// local-name kinds in this alphabet: ids are "i1", keyframes are "k" (which one sheet also uses as a class), the rest are classes
func c12ModKinds(name string) string {
	switch name {
	case "i1":
		return "#"
	case "k":
		return "@."
	}
	return "."
}

var c12ReGlobalUse = regexp.MustCompile(`:global\(([^)]*)\)`)
var c12ReSelName = regexp.MustCompile(`([.#])([A-Za-z_][\w-]*)`)

// c12ModGlobals: kind+name of every global name used by a sheet
func c12ModGlobals(css string, globalLoader bool, into map[string]bool) {
	for _, g := range c12ReGlobalUse.FindAllStringSubmatch(css, -1) {
		for _, n := range c12ReSelName.FindAllStringSubmatch(g[1], -1) {
			into[n[1]+n[2]] = true
		}
	}
	if strings.Contains(css, "from global") {
		into[".a"] = true
	}
	if globalLoader {
		plain := c12ReLocal.ReplaceAllString(c12ReString.ReplaceAllString(css, ""), "")
		for _, n := range c12ReSelName.FindAllStringSubmatch(plain, -1) {
			into[n[1]+n[2]] = true
		}
	}
}

// c12ModInverse maps output names back to reference names; inv is keyed by kind ('.', '#', '@') + output name
func c12ModInverse(css string, inv map[string]string) string {
	var strs []string
	css = c12ReString.ReplaceAllStringFunc(css, func(s string) string { strs = append(strs, s); return fmt.Sprintf("\x03%d\x03", len(strs)-1) })
	css = c12ReSelName.ReplaceAllStringFunc(css, func(s string) string {
		g := c12ReSelName.FindStringSubmatch(s)
		if r, ok := inv[g[1]+g[2]]; ok {
			return g[1] + r
		}
		return s
	})
	re2 := regexp.MustCompile(`(@keyframes |animation: ?|animation-name: ?)([A-Za-z_][\w-]*)`)
	css = re2.ReplaceAllStringFunc(css, func(s string) string {
		g := re2.FindStringSubmatch(s)
		if r, ok := inv["@"+g[2]]; ok {
			return g[1] + r
		}
		return s
	})
	for i, s := range strs {
		css = strings.Replace(css, fmt.Sprintf("\x03%d\x03", i), s, 1)
	}
	return css
}

func c12Modules(c *Check, pool *NodePool) {
	root := scratchRoot("c12m")
	defer os.RemoveAll(root)
	type job struct {
		i, j   int
		minify bool
		global bool
	}
	var jobs []job
	for i := range c12ModF1 {
		for j := range c12ModF2 {
			for _, minify := range []bool{false, true} {
				jobs = append(jobs, job{i, j, minify, false})
			}
		}
	}
	// global-css loader: bare names are global, only :local() names are renamed
	for i := range c12ModF1 {
		if c12ModF1[i].composes == nil && !strings.Contains(c12ModF1[i].css, "@keyframes") {
			jobs = append(jobs, job{i, 1, false, true}, job{i, 1, true, true})
		}
	}
	var cases [][]string
	var keys []string
	for ji, jb := range jobs {
		m1, m2 := c12ModF1[jb.i], c12ModF2[jb.j]
		dir := filepath.Join(root, fmt.Sprintf("m%d", ji))
		ext := ".module.css"
		writeTree(dir, map[string]string{"f1" + ext: m1.css, "f2" + ext: m2.css,
			"e.js": "import s1 from './f1" + ext + "'; import s2 from './f2" + ext + "'; globalThis.OUT = JSON.stringify({ s1, s2 })"})
		opts := api.BuildOptions{EntryPoints: []string{filepath.Join(dir, "e.js")}, Bundle: true, Write: false, Outdir: filepath.Join(dir, "out"), LogLevel: api.LogLevelSilent,
			MinifyIdentifiers: jb.minify, MinifySyntax: jb.minify, MinifyWhitespace: jb.minify}
		if jb.global {
			opts.Loader = map[string]api.Loader{".css": api.LoaderGlobalCSS, ".module.css": api.LoaderGlobalCSS}
		}
		r := api.Build(opts)
		c.Eval(1)
		key := fmt.Sprintf("css-module:f1=%d:f2=%d:minify=%v:global=%v", jb.i, jb.j, jb.minify, jb.global)
		payload := func(kind string, more map[string]interface{}) map[string]interface{} {
			p := map[string]interface{}{"kind": kind, "f1.module.css": m1.css, "f2.module.css": m2.css, "minify": jb.minify, "global_css_loader": jb.global}
			for k, v := range more {
				p[k] = v
			}
			return p
		}
		if len(r.Errors) > 0 {
			c.Violation(key, payload("CSS module bundle fails to build", map[string]interface{}{"error": r.Errors[0].Text}))
			continue
		}
		var js, css string
		for _, f := range r.OutputFiles {
			if strings.HasSuffix(f.Path, ".js") {
				js = string(f.Contents)
			} else if strings.HasSuffix(f.Path, ".css") {
				css = string(f.Contents)
			}
		}
		c.Distinct(css)
		// ---- export maps
		objs := map[string]map[string]string{}
		for _, g := range c12ReObj.FindAllStringSubmatch(js, -1) {
			kv := map[string]string{}
			for _, e := range c12ReKV.FindAllStringSubmatch(g[2], -1) {
				kv[e[1]] = e[2]
			}
			objs[g[1]] = kv
		}
		ref := regexp.MustCompile(`s1:\s*(\w+),\s*s2:\s*(\w+)`).FindStringSubmatch(js)
		if ref == nil {
			c.Violation(key, payload("cannot find exported name objects in the bundle", map[string]interface{}{"js": js}))
			continue
		}
		exp := map[string]map[string]string{"f1": objs[ref[1]], "f2": objs[ref[2]]}
		// own output name = last token (composed names come first)
		own := map[string]string{}
		inv := map[string]string{}
		bad := ""
		globals := map[string]bool{}
		c12ModGlobals(m1.css, jb.global, globals)
		c12ModGlobals(m2.css, jb.global, globals)
		names := []string{}
		for _, f := range []string{"f1", "f2"} {
			for n := range exp[f] {
				names = append(names, f+":"+n)
			}
		}
		sort.Strings(names)
		seen := map[string]string{}
		for _, fn := range names {
			f, n := fn[:2], fn[3:]
			toks := strings.Fields(exp[f][n])
			if len(toks) == 0 {
				bad = "empty export for " + fn
				break
			}
			o := toks[len(toks)-1]
			own[fn] = o
			if prev, dup := seen[o]; dup {
				bad = fmt.Sprintf("local names %s and %s are both renamed to %q", prev, fn, o)
				break
			}
			seen[o] = fn
			r, ok := c12ModRef[f][n]
			if !ok {
				bad = "unexpected export " + fn
				break
			}
			for _, kind := range c12ModKinds(n) {
				if globals[string(kind)+o] {
					bad = fmt.Sprintf("local name %s is renamed to %q which is also a global name used in the sheets", fn, string(kind)+o)
				}
				inv[string(kind)+o] = r
			}
			if bad != "" {
				break
			}
		}
		c.Sub("module_export_maps", 1)
		if bad != "" {
			c.Violation(key, payload(bad, map[string]interface{}{"exports": exp, "css": css}))
			continue
		}
		// ---- composes
		for _, fm := range []struct {
			f string
			m c12Mod
		}{{"f1", m1}, {"f2", m2}} {
			for n, list := range fm.m.composes {
				want := map[string]bool{own[fm.f+":"+n]: true}
				for _, cn := range list {
					if strings.HasPrefix(cn, "global:") {
						want[cn[7:]] = true
					} else {
						want[own[cn]] = true
					}
				}
				got := map[string]bool{}
				for _, t := range strings.Fields(exp[fm.f][n]) {
					got[t] = true
				}
				c.Sub("composes_checked", 1)
				if fmt.Sprint(want) != fmt.Sprint(got) {
					c.Violation(key+":composes", payload(fmt.Sprintf("composes: export %s.%s = %q, expected the names %v", fm.f, n, exp[fm.f][n], want), map[string]interface{}{"exports": exp}))
				}
			}
		}
		// ---- rendering: reference vs inverse-mapped output
		refCSS := c12ModReference(m1.css, "f1", !jb.global) + "\n" + c12ModReference(m2.css, "f2", !jb.global)
		cases = append(cases, []string{refCSS, c12ModInverse(css, inv)})
		keys = append(keys, key)
	}
	for b := 0; b < len(cases); b += 8 {
		e := b + 8
		if e > len(cases) {
			e = len(cases)
		}
		res := chromeStyles(pool.Get(1), cases[b:e])
		for i, obs := range res {
			c.Sub("module_render_comparisons", 1)
			if obs[1] != "=" && !c12Equal(obs[0], obs[1]) {
				c.Violation(keys[b+i]+":render", map[string]interface{}{"kind": "CSS module output (names mapped back through the exported map) renders differently from the reference sheet", "reference": cases[b+i][0], "output_mapped_back": cases[b+i][1], "diff": c12Diff(obs[0], obs[1], nil)})
			}
		}
	}
}
