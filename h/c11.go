package main

// C11: module resolution agrees with Node's algorithm (oracle: Node's own resolvers on the same tree).

import (
	"encoding/json"
	"fmt"
	"os"
	"path/filepath"
	"sort"
	"strings"

	"github.com/evanw/esbuild/pkg/api"
)

type resQuery struct {
	From string `json:"from"`
	Spec string `json:"spec"`
	Kind string `json:"kind"`
	Then string `json:"then,omitempty"` // second hop: resolved from the file the first hop resolved to
}
type resCase struct {
	Files   map[string]string `json:"files"`
	Queries []resQuery        `json:"queries"`
}
type resAnswer struct {
	Path   *string `json:"path"`
	Code   *string `json:"code"`
	Exists *bool   `json:"exists"`
	Search string  `json:"search"`
}
type resResp struct {
	R          [][]resAnswer `json:"r"`
	InfraError string        `json:"infraError"`
}

var c11PkgFiles = map[string]string{
	"a.js": "module.exports='a'", "b.js": "module.exports='b'", "c.js": "module.exports='c'", "d.js": "module.exports='d'", "index.js": "module.exports='index'",
	"f/one.js": "1", "f/two.js": "2", "f/internal/secret.js": "3", "f/one.js.js": "4", "xy/m.js": "5", "lib/index.js": "6", "sub.js": "7", "sub/index.js": "8", "dir/index.js": "9", "e.mjs": "export default 1", "e.cjs": "module.exports=1",
	"f/a.b.js": "10", "data.json": "{}",
}

func permsK(keys []string, k int) [][]string {
	var out [][]string
	var rec func(cur []string, used map[string]bool)
	rec = func(cur []string, used map[string]bool) {
		if len(cur) == k {
			out = append(out, append([]string{}, cur...))
			return
		}
		for _, x := range keys {
			if !used[x] {
				used[x] = true
				rec(append(cur, x), used)
				used[x] = false
			}
		}
	}
	rec(nil, map[string]bool{})
	return out
}

// exports/imports value shapes (JSON text)
func c11ExportShapes(tier string) []string {
	var out []string
	leaves := []string{`"./a.js"`, `"./b.js"`, `"./c.js"`, `null`, `"../x.js"`, `"./missing.js"`, `"a.js"`, `"./node_modules/q.js"`, `"/abs.js"`, `"./d.js"`, `"./dir"`, `"./f/../a.js"`, `"./a.js/"`, `"./e.mjs"`}
	out = append(out, leaves...)
	// arrays (fallbacks)
	out = append(out, `["./a.js"]`, `["./missing.js","./a.js"]`, `[null,"./a.js"]`, `["../x.js","./a.js"]`, `["a.js","./b.js"]`, `[{"custom":"./c.js"},"./a.js"]`, `[{"import":"./a.js"},{"require":"./b.js"}]`, `[]`, `[[],"./a.js"]`, `["./a.js",null]`, `[{"custom":null},"./b.js"]`)
	keys := []string{"import", "require", "node", "default", "custom"}
	lv := []string{`"./a.js"`, `"./b.js"`, `"./c.js"`}
	for k := 1; k <= 3; k++ {
		for pi, p := range permsK(keys, k) {
			if tier == "quick" && k == 3 && pi%2 == 1 {
				continue
			}
			for variant := 0; variant < 3; variant++ {
				var parts []string
				for i, key := range p {
					v := lv[i%3]
					switch variant {
					case 1:
						if i == 0 {
							v = "null"
						}
					case 2:
						if i == 0 {
							v = `{"custom":"./d.js","require":"./c.js","default":"./b.js"}`
						} else if i == 1 {
							v = `"../x.js"`
						}
					}
					parts = append(parts, fmt.Sprintf("%q:%s", key, v))
				}
				out = append(out, "{"+strings.Join(parts, ",")+"}")
			}
		}
	}
	// subpath maps
	out = append(out,
		`{".":"./a.js","./sub":"./b.js"}`,
		`{".":{"import":"./a.js","require":"./b.js"},"./package.json":"./package.json"}`,
		`{"./feat/*":"./f/*.js"}`,
		`{"./feat/*.js":"./f/*.js"}`,
		`{"./feat/*":"./f/*.js","./feat/internal/*":null}`,
		`{"./feat/internal/*":null,"./feat/*":"./f/*.js"}`,
		`{"./feat/*":"./f/*.js","./feat/one":"./b.js"}`,
		`{"./feat/o*":"./c.js","./feat/*":"./f/*.js","./feat/on*":"./d.js"}`,
		`{"./x/*/y":"./xy/*.js"}`,
		`{"./*":"./*.js"}`,
		`{"./*":"./*","./f/*":null}`,
		`{"./*":{"import":"./*.mjs","require":"./*.cjs","default":"./*.js"}}`,
		`{"./feat/*":["./missing/*.js","./f/*.js"]}`,
		`{"./feat/*":"./f/*/../one.js"}`,
		`{".":"./a.js","./a*b":"./f/a*b.js"}`,
		`{"./*/one":"./f/one.js","./feat/*":"./f/two.js"}`,
		`{"./feat/*":"./f/*.js","./feat/*one":"./c.js"}`,
		`{"import":"./a.js","./sub":"./b.js"}`,
		`{"./sub":"./b.js","import":"./a.js"}`,
		`{".":null}`, `{"./sub":null,".":"./a.js"}`, `{}`,
		`{".":"./a.js","./data":"./data.json","./dir":"./dir/index.js","./nodir":"./dir"}`,
		`{"./%66eat":"./a.js","./sp ace":"./b.js"}`,
	)
	return out
}

var c11PkgSpecs = []string{"pkg", "pkg/sub", "pkg/feat/one", "pkg/feat/one.js", "pkg/feat/two", "pkg/feat/internal/secret", "pkg/feat/onx", "pkg/x/m/y", "pkg/a.js", "pkg/a", "pkg/missing", "pkg/package.json", "pkg/f/one.js", "pkg/dir", "pkg/nodir", "pkg/data", "pkg/aXb", "pkg/a.bb", "pkg/feat/a.b", "pkg/feat%2fone", "pkg/%66eat", "pkg/sp ace", "pkg/e", "pkg/lib", "pkg/sub/", "pkg/feat/"}

var c11ImportShapes = []string{
	`{"#a":"./src/a.js"}`, `{"#a":{"import":"./src/a.js","require":"./src/b.js","default":"./src/c.js"}}`, `{"#a":{"custom":"./src/c.js","default":"./src/a.js"}}`, `{"#p/*":"./src/p/*.js"}`, `{"#p/*":"./src/p/*.js","#p/q":"./src/a.js"}`,
	`{"#a":"pkg"}`, `{"#a":"pkg/sub"}`, `{"#a":null}`, `{"#a":"../x.js"}`, `{"#a":"src/a.js"}`, `{"#a":["./missing.js","./src/a.js"]}`, `{"#p/*":null,"#p/q":"./src/a.js"}`, `{"#":"./src/a.js"}`, `{"#/x":"./src/a.js"}`,
	`{"#p/*":"pkg/feat/*"}`, `{"#a":{"node":{"import":"./src/a.js","default":"./src/b.js"},"default":"./src/c.js"}}`, `{"#a":"./src/a.js","#ab":"./src/b.js","#a*":"./src/c.js"}`,
}
var c11ImportSpecs = []string{"#a", "#p/q", "#p/r", "#ab", "#abc", "#", "#/x", "#a/b.js", "#missing"}

type c11Tree struct {
	name    string
	files   map[string]string
	queries []resQuery
}

func c11PkgTree(pkgJSON string, layout string) map[string]string {
	files := map[string]string{"package.json": `{"name":"root","exports":{"./feature":"./src/a.js",".":"./src/b.js"}}`, "src/a.js": "1", "src/b.js": "2", "src/c.js": "3", "src/p/q.js": "4", "src/p/r.js": "5", "src/importer.js": "0", "src/deep/dir/importer.js": "0", "src/rel.js": "r", "src/rel/index.js": "ri", "up.js": "u", "src/data.json": "{}"}
	base := "node_modules/pkg/"
	switch layout {
	case "nested":
		base = "src/node_modules/pkg/"
	case "scoped":
		base = "node_modules/@scope/pkg/"
	case "symlinked":
		base = "linked-src/pkg-real/"
		files["node_modules/pkg"] = "SYMLINK:../linked-src/pkg-real"
	case "shadowed":
		// a nearer node_modules/pkg shadows the hoisted one
		for k, v := range c11PkgFiles {
			files["node_modules/pkg/"+k] = v
		}
		files["node_modules/pkg/package.json"] = `{"name":"pkg","main":"./d.js"}`
		base = "src/deep/node_modules/pkg/"
	}
	for k, v := range c11PkgFiles {
		files[base+k] = v
	}
	files[base+"package.json"] = pkgJSON
	return files
}

// c11SymlinkTrees: packages reached through a symlink (pnpm / npm link / workspaces) whose entry lies in a real
// sub-directory; a dependency exists both next to the link and next to the real package. Node loads modules under their
// real paths, so the second hop must find the dependency next to the real package.
func c11SymlinkTrees() []c11Tree {
	var trees []c11Tree
	for _, pj := range []string{`{"name":"pkg","main":"lib/index.js"}`, `{"name":"pkg","exports":{".":"./lib/index.js","./lib/*":"./lib/*"}}`, `{"name":"pkg","main":"index.js"}`} {
		files := map[string]string{
			"proj/src/importer.js":               "0",
			"proj/node_modules/pkg":              "SYMLINK:../../store/pkg",
			"proj/node_modules/dep/package.json": `{"name":"dep","main":"index.js"}`,
			"proj/node_modules/dep/index.js":     "proj dep",
			"store/pkg/package.json":             pj,
			"store/pkg/index.js":                 "root index",
			"store/pkg/lib/index.js":             "lib index",
			"store/pkg/lib/other.js":             "lib other",
			"store/pkg/lib/deep/x.js":            "deep",
			"store/node_modules/dep/package.json": `{"name":"dep","main":"index.js"}`,
			"store/node_modules/dep/index.js":     "store dep",
			"proj/linkdir":                        "SYMLINK:../store/pkg/lib",
		}
		var qs []resQuery
		for _, k := range []string{"import", "require"} {
			qs = append(qs, resQuery{From: "proj/src", Spec: "pkg", Kind: k, Then: "dep"}, resQuery{From: "proj/src", Spec: "pkg", Kind: k, Then: "./other.js"},
				resQuery{From: "proj/src", Spec: "pkg/lib/other.js", Kind: k, Then: "dep"}, resQuery{From: "proj/src", Spec: "pkg/lib/deep/x.js", Kind: k, Then: "dep"},
				resQuery{From: "proj/src", Spec: "../linkdir/other.js", Kind: k, Then: "dep"}, resQuery{From: "proj/src", Spec: "../linkdir/deep/x.js", Kind: k, Then: "../index.js"},
				resQuery{From: "proj/src", Spec: "pkg", Kind: k}, resQuery{From: "proj/src", Spec: "dep", Kind: k})
		}
		trees = append(trees, c11Tree{"symlinked package, entry in a sub-directory, two hops: " + pj, files, qs})
	}
	return trees
}

func c11Trees(tier string) []c11Tree {
	var trees []c11Tree
	trees = append(trees, c11SymlinkTrees()...)
	shapes := c11ExportShapes(tier)
	layouts := []string{"hoisted", "nested", "scoped", "symlinked", "shadowed"}
	for si, sh := range shapes {
		for li, layout := range layouts {
			if li > 0 && (si+li)%5 != 0 && tier == "quick" {
				continue
			}
			if li > 0 && (si+li)%2 != 0 {
				continue
			}
			for mi, extra := range []string{"", `,"main":"./d.js"`, `,"main":"./lib","type":"module"`} {
				if mi > 0 && (si+mi)%4 != 0 {
					continue
				}
				pj := fmt.Sprintf(`{"name":"pkg","exports":%s%s}`, sh, extra)
				files := c11PkgTree(pj, layout)
				var qs []resQuery
				from := "src"
				if layout == "shadowed" {
					from = "src/deep/dir"
				}
				for _, sp := range c11PkgSpecs {
					spec := sp
					if layout == "scoped" {
						spec = "@scope/" + sp
					}
					for _, k := range []string{"import", "require"} {
						qs = append(qs, resQuery{from, spec, k, ""})
					}
				}
				trees = append(trees, c11Tree{fmt.Sprintf("exports=%s layout=%s extra=%s", sh, layout, extra), files, qs})
			}
		}
	}
	// packages without exports: main / index / directory probing / type
	for _, pj := range []string{`{"name":"pkg"}`, `{"name":"pkg","main":"./d.js"}`, `{"name":"pkg","main":"./lib"}`, `{"name":"pkg","main":"lib"}`, `{"name":"pkg","main":"./missing.js"}`, `{"name":"pkg","main":"./sub"}`, `{"name":"pkg","main":"./f/one.js","type":"module"}`, `{"name":"pkg","main":""}`, `{"name":"pkg","main":"./dir/"}`, `{"name":"pkg","main":"./e"}`} {
		for _, layout := range layouts {
			files := c11PkgTree(pj, layout)
			var qs []resQuery
			from := "src"
			if layout == "shadowed" {
				from = "src/deep/dir"
			}
			for _, sp := range []string{"pkg", "pkg/sub", "pkg/sub.js", "pkg/lib", "pkg/lib/index", "pkg/lib/index.js", "pkg/f/one", "pkg/f/one.js", "pkg/dir", "pkg/missing", "pkg/data.json", "pkg/data", "pkg/e", "pkg/e.mjs"} {
				spec := sp
				if layout == "scoped" {
					spec = "@scope/" + sp
				}
				// ESM resolution of extensionless / directory subpaths is outside the statement; require only there
				qs = append(qs, resQuery{from, spec, "require", ""})
				if strings.HasSuffix(sp, ".js") || strings.HasSuffix(sp, ".json") || strings.HasSuffix(sp, ".mjs") || sp == "pkg" {
					qs = append(qs, resQuery{from, spec, "import", ""})
				}
			}
			trees = append(trees, c11Tree{fmt.Sprintf("pkg=%s layout=%s", pj, layout), files, qs})
		}
	}
	// imports field + self reference + relative/absolute specifiers
	for _, sh := range c11ImportShapes {
		files := c11PkgTree(`{"name":"pkg","exports":{".":"./a.js","./sub":"./b.js","./feat/*":"./f/*.js"}}`, "hoisted")
		files["package.json"] = fmt.Sprintf(`{"name":"root","imports":%s,"exports":{"./feature":"./src/a.js",".":"./src/b.js"}}`, sh)
		var qs []resQuery
		for _, sp := range c11ImportSpecs {
			for _, k := range []string{"import", "require"} {
				qs = append(qs, resQuery{"src", sp, k, ""}, resQuery{"src/deep/dir", sp, k, ""})
			}
		}
		for _, sp := range []string{"root", "root/feature", "root/missing", "root/src/a.js"} {
			for _, k := range []string{"import", "require"} {
				qs = append(qs, resQuery{"src", sp, k, ""})
			}
		}
		trees = append(trees, c11Tree{"imports=" + sh, files, qs})
	}
	{
		files := c11PkgTree(`{"name":"pkg"}`, "hoisted")
		var qs []resQuery
		for _, sp := range []string{"./rel.js", "./rel", "./rel/", "./rel/index.js", "../up.js", "../up", "./data.json", "./data", "./missing.js", "./a.js", "./a", "./p/q.js", "./deep/dir/importer.js", ".", "./", "..", "./rel.js?query", "./rel.js#hash", "./p/../a.js", "./%61.js"} {
			qs = append(qs, resQuery{"src", sp, "require", ""})
			if strings.Contains(sp, ".js") {
				qs = append(qs, resQuery{"src", sp, "import", ""})
			}
		}
		trees = append(trees, c11Tree{"relative-specifiers", files, qs})
	}
	return trees
}

func runC11(c *Check) {
	c.Rule = "package trees from the resolution grammar: exports as string/array/condition object (all key orders of <=3 of {import, require, node, default, custom}, null and invalid targets, nesting)/subpath maps with overlapping * patterns, imports maps, main/index/directory probing, type; layouts hoisted/nested/scoped/symlinked/shadowed; 26 package specifiers + # imports + self references + relative specifiers x {import, require} x conditions {none, custom}; esbuild (platform node, main fields [main], explicit conditions) is asked through PluginBuild.Resolve and compared with Node 20's require.resolve / import.meta.resolve on the same real tree; distinct = distinct (tree, specifier, answer)"
	c.Assump = []string{"Node 20.20 resolvers are the reference; only two implications are checked: Node resolves => esbuild resolves to the same real file; Node rejects because of exports/imports (ERR_PACKAGE_PATH_NOT_EXPORTED, ERR_PACKAGE_IMPORT_NOT_DEFINED, ERR_INVALID_PACKAGE_TARGET) => esbuild reports an error", "trailing-slash folder mappings and specifiers ending in / are excluded (documented divergence)"}
	trees := c11Trees(c.Tier)
	c.Set("trees", len(trees))
	root := scratchRoot("c11")
	defer os.RemoveAll(root)
	for _, cond := range []string{"", "custom"} {
		cond := cond
		var pool *NodePool
		if cond == "" {
			pool = NewNodePool("")
		} else {
			pool = NewNodePool("", "--conditions=custom")
		}
		c.ForEach(uint64(len(trees)), func(w int, i uint64) {
			t := trees[i]
			var resp resResp
			pool.Get(w).Call(map[string]interface{}{"op": "resolve", "cases": []resCase{{t.files, t.queries}}}, &resp)
			if resp.InfraError != "" || len(resp.R) != 1 {
				fatalf("resolve op failed: %s", resp.InfraError)
			}
			nodeAns := resp.R[0]
			dir := filepath.Join(root, fmt.Sprintf("%s-t%d", cond, i))
			writeTree(dir, t.files)
			defer os.RemoveAll(dir)
			realDir, _ := filepath.EvalSymlinks(dir)
			type ans struct {
				path string
				errs []string
			}
			got := make([]ans, len(t.queries))
			conds := []string{}
			if cond != "" {
				conds = append(conds, cond)
			}
			api.Build(api.BuildOptions{AbsWorkingDir: dir, Platform: api.PlatformNode, Conditions: conds, MainFields: []string{"main"}, LogLevel: api.LogLevelSilent, Write: false, Bundle: true,
				Stdin: &api.StdinOptions{Contents: "", ResolveDir: dir}, Plugins: []api.Plugin{{Name: "q", Setup: func(b api.PluginBuild) {
					b.OnStart(func() (api.OnStartResult, error) {
						for qi, q := range t.queries {
							kind := api.ResolveJSImportStatement
							if q.Kind == "require" {
								kind = api.ResolveJSRequireCall
							}
							r := b.Resolve(q.Spec, api.ResolveOptions{ResolveDir: filepath.Join(dir, q.From), Kind: kind, Importer: filepath.Join(dir, q.From, "__importer.js")})
							if q.Then != "" && len(r.Errors) == 0 && !r.External {
								// second hop from the path exactly as esbuild reported it
								r = b.Resolve(q.Then, api.ResolveOptions{ResolveDir: filepath.Dir(r.Path), Kind: kind, Importer: r.Path, Namespace: "file"})
							}
							a := ans{}
							if len(r.Errors) > 0 {
								for _, e := range r.Errors {
									a.errs = append(a.errs, e.Text)
								}
							} else if r.External {
								a.path = "<external>" + r.Path
							} else {
								p := r.Path
								if rp, err := filepath.EvalSymlinks(p); err == nil {
									p = rp
								}
								rel, err := filepath.Rel(realDir, p)
								if err != nil {
									rel = p
								}
								a.path = rel + r.Suffix
							}
							got[qi] = a
						}
						return api.OnStartResult{}, nil
					})
				}}}})
			for qi, q := range t.queries {
				n := nodeAns[qi]
				g := got[qi]
				c.Eval(1)
				if strings.HasSuffix(q.Spec, "/") {
					continue // excluded: legacy trailing-slash forms
				}
				label := fmt.Sprintf("%s | from=%s spec=%q kind=%s cond=%q", t.name, q.From, q.Spec, q.Kind, cond)
				if n.Path != nil {
					np := *n.Path
					c.Distinct(t.name, q.Spec, q.Kind, np)
					if n.Exists != nil && !*n.Exists {
						continue // import.meta.resolve does not check existence; nothing to compare
					}
					if strings.HasPrefix(np, "node:") {
						continue
					}
					if g.path == "" && strings.Contains(q.Spec, "%") && q.Kind == "import" && strings.HasPrefix(q.Spec, ".") {
						c.Violation("percent-encoded-relative-specifier-in-esm-import", map[string]interface{}{"kind": "Node resolves but esbuild reports an error", "case": label, "node": np, "esbuild_errors": g.errs})
					} else if g.path == "" {
						c.Violation("res-reject:"+label, map[string]interface{}{"kind": "Node resolves but esbuild reports an error", "case": label, "node": np, "esbuild_errors": g.errs, "package_json": c11PJ(t.files)})
					} else if strings.TrimSuffix(g.path, n.Search) != np && g.path != np {
						c.Violation("res-differ:"+label, map[string]interface{}{"kind": "esbuild resolves to a different file than Node", "case": label, "node": np, "esbuild": g.path, "package_json": c11PJ(t.files)})
					}
				} else if n.Code != nil {
					code := *n.Code
					c.Distinct(t.name, q.Spec, q.Kind, code)
					if code == "ERR_PACKAGE_PATH_NOT_EXPORTED" || code == "ERR_PACKAGE_IMPORT_NOT_DEFINED" || code == "ERR_INVALID_PACKAGE_TARGET" {
						if g.path != "" {
							c.Violation("res-accept:"+label, map[string]interface{}{"kind": "Node rejects the specifier (" + code + ") but esbuild resolves it", "case": label, "node_error": code, "esbuild": g.path, "package_json": c11PJ(t.files)})
						}
					} else {
						c.Sub("node_other_failure:"+code, 1)
					}
				}
			}
		})
		pool.Close()
	}
	b, _ := json.Marshal(trees[len(trees)/3].files)
	c.Sample(map[string]interface{}{"tree": trees[len(trees)/3].name, "files": string(b)})
}

func c11PJ(files map[string]string) map[string]string {
	out := map[string]string{}
	var keys []string
	for k := range files {
		if strings.HasSuffix(k, "package.json") {
			keys = append(keys, k)
		}
	}
	sort.Strings(keys)
	for _, k := range keys {
		out[k] = files[k]
	}
	return out
}

func init() { register("C11", "exploration", runC11) }
