package main

// C19: the metafile is an exact account of the build.

import (
	"encoding/json"
	"fmt"
	"os"
	"path/filepath"
	"regexp"
	"sort"
	"strings"

	"github.com/evanw/esbuild/pkg/api"
)

type metaImport struct {
	Path     string `json:"path"`
	Kind     string `json:"kind"`
	External bool   `json:"external"`
	Original string `json:"original"`
}
type metaFile struct {
	Inputs map[string]struct {
		Bytes   int          `json:"bytes"`
		Imports []metaImport `json:"imports"`
		Format  string       `json:"format"`
	} `json:"inputs"`
	Outputs map[string]struct {
		Bytes      int          `json:"bytes"`
		Imports    []metaImport `json:"imports"`
		Exports    []string     `json:"exports"`
		EntryPoint string       `json:"entryPoint"`
		CSSBundle  string       `json:"cssBundle"`
		Inputs     map[string]struct {
			BytesInOutput int `json:"bytesInOutput"`
		} `json:"inputs"`
	} `json:"outputs"`
}

var reStaticImport = regexp.MustCompile(`(?:^|[;}\n])\s*(?:import|export)\s*(?:[^"'();=]*?\bfrom\s*)?["']([^"'\n]+)["']`)
var reDynImport = regexp.MustCompile(`\bimport\(\s*["']([^"'\n*]+)["']\s*\)`)
var reRequire = regexp.MustCompile(`(?:^|[^.\w$])(?:__)?require\(\s*["']([^"'\n*]+)["']\s*\)`)
var reCSSImport = regexp.MustCompile(`@import\s*(?:url\()?["']?([^"');\s]+)["']?\)?`)
var reCSSURL = regexp.MustCompile(`url\(\s*["']?([^"')]+)["']?\s*\)`)
var reExportList = regexp.MustCompile(`(?:^|[;}\n])\s*export\s*\{([^}]*)\}`)
var reExportDefault = regexp.MustCompile(`(?:^|[;}\n])\s*export\s+default\b`)
var reExportStar = regexp.MustCompile(`(?:^|[;}\n])\s*export\s*\*\s*from`)
var reMarker = regexp.MustCompile(`MARK_([A-Za-z0-9]+)_[0-9]`)

type scanned struct {
	spec, kind string
}

func scanOutput(rel, text string) []scanned {
	var out []scanned
	if strings.HasSuffix(rel, ".css") {
		for _, m := range reCSSImport.FindAllStringSubmatch(text, -1) {
			out = append(out, scanned{m[1], "import-rule"})
		}
		noImports := reCSSImport.ReplaceAllString(text, "")
		for _, m := range reCSSURL.FindAllStringSubmatch(noImports, -1) {
			if strings.HasPrefix(m[1], "data:") {
				continue
			}
			out = append(out, scanned{m[1], "url-token"})
		}
		return out
	}
	if !strings.HasSuffix(rel, ".js") && !strings.HasSuffix(rel, ".mjs") && !strings.HasSuffix(rel, ".cjs") {
		return nil
	}
	// strip the trailing sourceMappingURL / legal comment link lines (they are not imports)
	for _, m := range reStaticImport.FindAllStringSubmatch(text, -1) {
		out = append(out, scanned{m[1], "import-statement"})
	}
	for _, m := range reDynImport.FindAllStringSubmatch(text, -1) {
		out = append(out, scanned{m[1], "dynamic-import"})
	}
	for _, m := range reRequire.FindAllStringSubmatch(text, -1) {
		out = append(out, scanned{m[1], "require-call"})
	}
	return out
}

func c19CheckBuild(c *Check, root string, f family, vname string, r api.BuildResult, o api.BuildOptions) {
	label := f.name + "/" + vname
	viol := func(kind string, extra map[string]interface{}) {
		extra["kind"] = kind
		extra["family"] = f.name
		extra["variant"] = vname
		c.Violation("meta:"+label+":"+kind+":"+fmt.Sprint(extra["detail"]), extra)
	}
	if len(r.Errors) > 0 {
		viol("family build failed (generator)", map[string]interface{}{"detail": r.Errors[0].Text})
		return
	}
	// path style: with AbsPaths=metafile every path of the metafile is absolute, otherwise none is; after that check the
	// project root is stripped so that the remaining checks see one form
	metaText := r.Metafile
	{
		wantAbs := o.AbsPaths&api.MetafileAbsPath != 0
		var g struct {
			Inputs map[string]struct {
				Imports []metaImport `json:"imports"`
			} `json:"inputs"`
			Outputs map[string]struct {
				Imports    []metaImport           `json:"imports"`
				EntryPoint string                 `json:"entryPoint"`
				CSSBundle  string                 `json:"cssBundle"`
				Inputs     map[string]interface{} `json:"inputs"`
			} `json:"outputs"`
		}
		if json.Unmarshal([]byte(metaText), &g) == nil {
			check := func(where, p string) {
				if p == "" || strings.HasPrefix(p, "<") || strings.Contains(p, "<runtime>") || strings.HasPrefix(p, "data:") {
					return
				}
				p = strings.TrimPrefix(p, "(disabled):")
				if filepath.IsAbs(p) != wantAbs {
					viol("metafile path does not follow the requested path style", map[string]interface{}{"detail": where + ": " + p, "want_absolute": wantAbs})
				}
			}
			for k, in := range g.Inputs {
				check("inputs key", k)
				for _, im := range in.Imports {
					if !im.External {
						check("inputs["+k+"].imports", im.Path)
					} else if strings.HasPrefix(im.Path, filepath.ToSlash(root)+"/") {
						// an "external" import whose path is a file of this very project, by absolute path
						rel := strings.TrimPrefix(im.Path, filepath.ToSlash(root)+"/")
						if _, isInput := g.Inputs[rel]; isInput && !wantAbs {
							key := "meta:" + label + ":input listed as an external import by absolute path:" + k + " -> " + rel
							for _, inj := range o.Inject {
								if filepath.ToSlash(inj) == im.Path {
									key = "metafile-lists-injected-files-as-external-imports-with-absolute-paths"
								}
							}
							c.Violation(key, map[string]interface{}{"kind": "a bundled input is listed as an external import by absolute path", "family": f.name, "variant": vname, "detail": k + " -> " + im.Path})
						}
					}
				}
			}
			for k, out := range g.Outputs {
				check("outputs key", k)
				check("outputs["+k+"].entryPoint", out.EntryPoint)
				check("outputs["+k+"].cssBundle", out.CSSBundle)
				for ik := range out.Inputs {
					check("outputs["+k+"].inputs key", ik)
					if _, ok := g.Inputs[ik]; !ok && !strings.Contains(ik, "<runtime>") {
						viol("output attributes bytes to a path that is not an input of the metafile", map[string]interface{}{"detail": k + " <- " + ik})
					}
				}
				for _, im := range out.Imports {
					if !im.External {
						check("outputs["+k+"].imports", im.Path)
					}
				}
			}
		}
		if wantAbs {
			metaText = strings.ReplaceAll(metaText, "\""+filepath.ToSlash(root)+"/", "\"")
			metaText = strings.ReplaceAll(metaText, "\"(disabled):"+filepath.ToSlash(root)+"/", "\"(disabled):")
		}
	}
	var m metaFile
	if err := json.Unmarshal([]byte(metaText), &m); err != nil {
		viol("metafile is not valid JSON", map[string]interface{}{"detail": err.Error()})
		return
	}
	c.Distinct(r.Metafile)
	outs := map[string][]byte{}
	for _, of := range r.OutputFiles {
		rel, _ := filepath.Rel(root, of.Path)
		outs[rel] = of.Contents
	}
	// 1. outputs keys == emitted paths, exact byte lengths
	for rel, data := range outs {
		mo, ok := m.Outputs[rel]
		if !ok {
			viol("emitted file missing from metafile outputs", map[string]interface{}{"detail": rel})
			continue
		}
		if mo.Bytes != len(data) {
			viol("metafile byte count differs from the emitted file size", map[string]interface{}{"detail": rel, "metafile_bytes": mo.Bytes, "actual_bytes": len(data)})
		}
	}
	for rel := range m.Outputs {
		if _, ok := outs[rel]; !ok {
			viol("metafile lists an output that was not emitted", map[string]interface{}{"detail": rel})
		}
	}
	// 2. entry points
	for _, e := range f.entries {
		n := 0
		for _, mo := range m.Outputs {
			if mo.EntryPoint == e {
				n++
			}
		}
		want := 1
		if n != want {
			viol("entry point not attributed to exactly one output", map[string]interface{}{"detail": e, "count": n})
		}
	}
	// 3. imports of each output == import statements found in the file
	for rel, data := range outs {
		mo := m.Outputs[rel]
		text := string(data)
		have := map[string]bool{}
		for _, im := range mo.Imports {
			if strings.HasPrefix(im.Path, "data:") {
				continue // dataurl loader: the "import" is the inlined data URL itself
			}
			if im.Kind == "file-loader" {
				// the asset's final path must be referenced by the file and be an emitted file
				if _, ok := outs[im.Path]; !ok {
					viol("metafile import refers to a file that was not emitted", map[string]interface{}{"detail": rel + " -> " + im.Path})
				}
				continue
			}
			have[fmt.Sprintf("%s|%s|%v", im.Path, im.Kind, im.External)] = true
			if !im.External {
				if _, ok := outs[im.Path]; !ok {
					viol("metafile import refers to a file that was not emitted", map[string]interface{}{"detail": rel + " -> " + im.Path})
				}
			}
		}
		want := map[string]bool{}
		for _, s := range scanOutput(rel, text) {
			spec := s.spec
			external := true
			p := spec
			if o.PublicPath != "" && strings.HasPrefix(spec, o.PublicPath) {
				p = filepath.Join("out", strings.TrimPrefix(spec, o.PublicPath))
				external = false
			} else if strings.HasPrefix(spec, "./") || strings.HasPrefix(spec, "../") {
				p = filepath.Clean(filepath.Join(filepath.Dir(rel), spec))
				external = false
			}
			if _, ok := outs[p]; !external && !ok {
				viol("output references a file that was not emitted", map[string]interface{}{"detail": rel + " -> " + spec})
				continue
			}
			want[fmt.Sprintf("%s|%s|%v", p, s.kind, external)] = true
		}
		for k := range want {
			if !have[k] {
				viol("import found in the output is missing from the metafile", map[string]interface{}{"detail": rel + ": " + k, "metafile_imports": keysB(have)})
			}
		}
		for k := range have {
			if !want[k] {
				viol("metafile lists an import that the output does not contain", map[string]interface{}{"detail": rel + ": " + k, "found_in_output": keysB(want)})
			}
		}
		// 4. exports (esm outputs)
		if o.Format == api.FormatESModule && strings.HasSuffix(rel, ".js") {
			exp := map[string]bool{}
			for _, mm := range reExportList.FindAllStringSubmatch(text, -1) {
				for _, part := range strings.Split(mm[1], ",") {
					part = strings.TrimSpace(part)
					if part == "" {
						continue
					}
					fs := strings.Fields(part)
					exp[strings.Trim(fs[len(fs)-1], "\"")] = true
				}
			}
			if reExportDefault.MatchString(text) {
				exp["default"] = true
			}
			got := map[string]bool{}
			for _, e := range mo.Exports {
				got[e] = true
			}
			if !reExportStar.MatchString(text) && strings.Join(keysB(exp), ",") != strings.Join(keysB(got), ",") {
				viol("metafile export names differ from the export statements of the output", map[string]interface{}{"detail": rel, "metafile": keysB(got), "output": keysB(exp)})
			}
		}
		// 5. byte attribution
		sum := 0
		for in, bi := range mo.Inputs {
			sum += bi.BytesInOutput
			base := strings.TrimSuffix(filepath.Base(in), filepath.Ext(in))
			base = strings.ReplaceAll(base, "-", "")
			hasMarker := false
			for _, mk := range reMarker.FindAllStringSubmatch(text, -1) {
				if mk[1] == base || (base == "assetentry" && mk[1] == "asset") {
					hasMarker = true
				}
			}
			if bi.BytesInOutput > 0 && !hasMarker && !strings.Contains(text, "// "+in) && !strings.Contains(text, "// "+filepath.ToSlash(filepath.Join(root, in))) && !o.MinifyWhitespace && (strings.HasSuffix(rel, ".js") || strings.HasSuffix(rel, ".css")) && c19InputHasMarkers(f, in) && !c19BinaryAsset(in) {
				viol("input has non-zero bytesInOutput but none of its code is in that output", map[string]interface{}{"detail": rel + " <- " + in, "bytesInOutput": bi.BytesInOutput})
			}
			if bi.BytesInOutput == 0 && hasMarker {
				viol("input contributes code to the output but bytesInOutput is zero", map[string]interface{}{"detail": rel + " <- " + in})
			}
		}
		if sum > len(data) {
			viol("sum of bytesInOutput exceeds the file size", map[string]interface{}{"detail": rel, "sum": sum, "size": len(data)})
		}
		// markers in the output must come from inputs listed for that output
		if strings.HasSuffix(rel, ".js") || strings.HasSuffix(rel, ".css") {
			for _, mk := range reMarker.FindAllStringSubmatch(text, -1) {
				found := false
				for in := range mo.Inputs {
					base := strings.ReplaceAll(strings.TrimSuffix(filepath.Base(in), filepath.Ext(in)), "-", "")
					if base == mk[1] || (base == "assetentry" && mk[1] == "asset") {
						found = true
					}
				}
				if !found {
					viol("output contains code of an input that the metafile does not attribute to it", map[string]interface{}{"detail": rel + " has " + mk[0], "inputs": fmt.Sprint(mo.Inputs)})
				}
			}
		}
	}
	// 6. inputs: exactly the files read, exact sizes, resolved imports
	expectInputs := map[string]bool{}
	for name := range f.files {
		skip := name == "package.json" || name == "tsconfig.json" || strings.HasSuffix(name, "/package.json")
		for _, u := range f.unread {
			if u == name {
				skip = true
			}
		}
		if !skip {
			expectInputs[name] = true
		}
	}
	for in, mi := range m.Inputs {
		if strings.HasPrefix(in, "<") || strings.Contains(in, "<runtime>") {
			continue
		}
		if strings.HasPrefix(in, "(disabled):") && f.files[strings.TrimPrefix(in, "(disabled):")] != "" {
			continue // a file switched off by a "browser" map: listed under this pseudo path with an empty module
		}
		if !expectInputs[in] {
			viol("metafile lists an input that is not part of the bundle", map[string]interface{}{"detail": in})
			continue
		}
		if mi.Bytes != len(f.files[in]) {
			viol("metafile input size differs from the file size", map[string]interface{}{"detail": in, "metafile_bytes": mi.Bytes, "actual": len(f.files[in])})
		}
	}
	if f.name != "glob-inject" {
		for in := range expectInputs {
			if _, ok := m.Inputs[in]; !ok {
				viol("file read into the bundle is missing from metafile inputs", map[string]interface{}{"detail": in})
			}
		}
	}
	// every resolved (non-external) import of an input names another input of the bundle
	for in, mi := range m.Inputs {
		for _, im := range mi.Imports {
			if im.External || strings.Contains(im.Path, "<runtime>") {
				continue
			}
			if _, ok := m.Inputs[im.Path]; !ok {
				viol("metafile input imports a path that is not an input of the bundle", map[string]interface{}{"detail": in + " -> " + im.Path})
			}
		}
	}
	if len(f.edges) > 0 {
		want := map[string]bool{}
		for _, e := range f.edges {
			want[fmt.Sprintf("%s -> %s|%s|%v", e.from, e.to, e.kind, e.external)] = true
		}
		have := map[string]bool{}
		for in, mi := range m.Inputs {
			for _, im := range mi.Imports {
				if strings.Contains(im.Path, "<runtime>") {
					continue
				}
				have[fmt.Sprintf("%s -> %s|%s|%v", in, im.Path, im.Kind, im.External)] = true
			}
		}
		for k := range want {
			if !have[k] {
				viol("resolved import missing from metafile inputs", map[string]interface{}{"detail": k, "have": keysB(have)})
			}
		}
		for k := range have {
			if !want[k] {
				viol("metafile inputs list an import that does not exist", map[string]interface{}{"detail": k})
			}
		}
	}
}

func c19BinaryAsset(in string) bool {
	return strings.HasSuffix(in, ".png") || strings.HasSuffix(in, ".svg") || strings.HasSuffix(in, ".bin") || strings.HasSuffix(in, ".txt")
}

func c19InputHasMarkers(f family, in string) bool {
	return strings.Contains(f.files[in], "MARK_")
}

func keysB(m map[string]bool) []string {
	var k []string
	for x := range m {
		k = append(k, x)
	}
	sort.Strings(k)
	return k
}

func runC19(c *Check) {
	c.Rule = "7 build families (JS graph with externals/JSON/CJS/dynamic import/tree-shaken module, CSS graph with @import/url()/data URLs/externals, JS importing CSS, splitting, legal comments, glob imports + inject, copy/file loader entries) x 11 option variants (minify, source maps, hashed and long name templates, public path, legal comments external, cjs, iife, outbase) x marker strings in every top-level statement; the metafile is checked against the emitted bytes: keys == emitted paths, byte sizes, entry points, imports of every output == import statements/@import/url() scanned from that file, export names, inputs == files read with sizes and resolved imports, sum(bytesInOutput) <= size, contribution > 0 <=> a marker of that input occurs in the output; distinct = distinct metafiles; abs-paths variants (metafile/code/both) with a strict path-style check over every path in the metafile; public-path differential: every family x {plain, minify} without splitting under 3 public paths (none, '/', a long URL): size - sum(bytesInOutput) of every output is the same for all three (outputs with a linked legal-comments notice excepted: the notice names its file through the public path)"
	c.Assump = []string{"outputs are scanned with regular expressions that are exact for esbuild's own regular output format of the generated programs (no import-like text inside strings)"}
	root := scratchRoot("c19")
	defer os.RemoveAll(root)
	fams := famFiles()
	vars := famVariants()
	type job struct {
		f family
		v famVariant
	}
	var jobs []job
	for _, f := range fams {
		for _, v := range vars {
			jobs = append(jobs, job{f, v})
		}
	}
	c.ForEach(uint64(len(jobs)), func(w int, i uint64) {
		j := jobs[i]
		dir := filepath.Join(root, fmt.Sprintf("j%d", i))
		writeTree(dir, j.f.files)
		defer os.RemoveAll(dir)
		r, o := famBuild(dir, j.f, j.v, nil)
		c.Eval(1)
		c19CheckBuild(c, dir, j.f, j.v.name, r, o)
	})
	// public-path differential: the bytes of an output that belong to no input (comments, wrappers, runtime) do not depend
	// on the public path when there are no cross-chunk imports, so size - sum(bytesInOutput) must be the same for every
	// public path; this makes the attribution of substituted asset paths exact instead of only bounded by the file size
	pubs := []string{"", "/", "https://cdn.example.com/a/rather/long/public/path/"}
	c.ForEach(uint64(len(fams)*2), func(w int, i uint64) {
		f, v := fams[i/2], vars[i%2]
		dir := filepath.Join(root, fmt.Sprintf("p%d", i))
		writeTree(dir, f.files)
		defer os.RemoveAll(dir)
		var first map[string]int
		for pi, pub := range pubs {
			r, _ := famBuild(dir, f, v, func(o *api.BuildOptions) { o.PublicPath = pub; o.Splitting = false })
			if len(r.Errors) > 0 {
				return
			}
			c.Eval(1)
			var m struct {
				Outputs map[string]struct {
					Bytes  int `json:"bytes"`
					Inputs map[string]struct {
						BytesInOutput int `json:"bytesInOutput"`
					} `json:"inputs"`
				} `json:"outputs"`
			}
			if json.Unmarshal([]byte(r.Metafile), &m) != nil {
				return
			}
			un := map[string]int{}
			linked := map[string]bool{} // a linked legal-comments notice names its file through the public path, outside every input
			for _, of := range r.OutputFiles {
				if strings.Contains(string(of.Contents), "For license information please see") {
					if rel, err := filepath.Rel(dir, of.Path); err == nil {
						linked[filepath.ToSlash(rel)] = true
					}
				}
			}
			for k, o := range m.Outputs {
				if linked[k] {
					continue
				}
				u := o.Bytes
				for _, in := range o.Inputs {
					u -= in.BytesInOutput
				}
				un[k] = u
			}
			if pi == 0 {
				first = un
				continue
			}
			for k, u := range un {
				if u0, ok := first[k]; ok && u0 != u {
					c.Violation("meta:"+f.name+"/"+v.name+":publicpath-differential:"+k, map[string]interface{}{"kind": "bytes attributed to no input change with the public path: bytesInOutput does not count the substituted paths exactly",
						"family": f.name, "variant": v.name, "detail": k, "publicPath": pub, "unattributed_without": u0, "unattributed_with": u})
				}
			}
		}
	})
	// the C02 and C10 graph families, generically (keys, sizes, imports, byte sums)
	graphs := enumGraphs("quick", false)
	stepG := 3
	if c.Tier != "quick" {
		stepG = 1
	}
	c.ForEach(uint64(len(graphs)), func(w int, i uint64) {
		if int(i)%stepG != 0 {
			return
		}
		g := graphs[i]
		dir := filepath.Join(root, fmt.Sprintf("g%d", i))
		files := g.render()
		writeTree(dir, files)
		defer os.RemoveAll(dir)
		for vi, minify := range []bool{false, true} {
			f := family{name: "graph:" + g.String(), files: files, entries: []string{g.mods[0].file()}}
			o := api.BuildOptions{EntryPoints: f.entries, Bundle: true, Outdir: "out", Format: []api.Format{api.FormatESModule, api.FormatCommonJS}[(int(i)+vi)%2], AbsWorkingDir: dir, Write: false, Metafile: true, LogLevel: api.LogLevelSilent,
				MinifyWhitespace: minify, MinifyIdentifiers: minify, Platform: api.PlatformNode}
			r := api.Build(o)
			if len(r.Errors) > 0 {
				continue
			}
			c.Eval(1)
			c19CheckBuild(c, dir, f, fmt.Sprintf("minify=%v", minify), r, o)
		}
	})
	c.Sample(map[string]interface{}{"family": fams[0].name, "files": fams[0].files})
}

func init() { register("C19", "exploration", runC19) }
