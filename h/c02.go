package main

// C02: bundling preserves module-graph semantics (ESM, CommonJS, mixed) — oracle: Node's native loaders.

import (
	"encoding/base64"
	"fmt"
	"os"
	"path/filepath"
	"sort"
	"strings"

	"github.com/evanw/esbuild/pkg/api"
)

type graphCase struct {
	Files            map[string]string `json:"files"`
	Binary           map[string]bool   `json:"binary,omitempty"`
	Entry            string            `json:"entry"`
	How              string            `json:"how"`
	GlobalName       string            `json:"globalName,omitempty"`
	Observe          []string          `json:"observe,omitempty"`
	WantEsModuleFlag bool              `json:"wantEsModuleFlag,omitempty"`
}
type graphRes struct {
	Log     []string `json:"log"`
	Surface *string  `json:"surface"`
	Err     *string  `json:"err"`
}
type graphResp struct {
	R          []graphRes `json:"r"`
	InfraError string     `json:"infraError"`
}

func (r graphRes) String() string {
	s, e := "<nil>", "<nil>"
	if r.Surface != nil {
		s = *r.Surface
	}
	if r.Err != nil {
		e = *r.Err
	}
	return strings.Join(r.Log, "\n") + "\nSURFACE " + s + "\nERR " + e
}

func nodeGraph(n *Node, cases []graphCase) []graphRes {
	var resp graphResp
	n.Call(map[string]interface{}{"op": "graph", "cases": cases}, &resp)
	if resp.InfraError != "" || len(resp.R) != len(cases) {
		fatalf("graph op failed: %s", resp.InfraError)
	}
	return resp.R
}

type c02Cfg struct {
	name     string
	format   api.Format
	platform api.Platform
	minify   bool
}

var c02Cfgs = []c02Cfg{
	{"esm-node", api.FormatESModule, api.PlatformNode, false},
	{"cjs-node", api.FormatCommonJS, api.PlatformNode, false},
	{"iife-browser-min", api.FormatIIFE, api.PlatformBrowser, true},
	{"esm-neutral-min", api.FormatESModule, api.PlatformNeutral, true},
	{"cjs-browser", api.FormatCommonJS, api.PlatformBrowser, false},
	{"iife-node", api.FormatIIFE, api.PlatformNode, false},
}

// surfaceKeys: for the comparison of export surfaces only names both worlds define are compared:
// `__esModule` (an interop marker esbuild adds to cjs/iife output) is ignored.
func normSurface(s *string) string {
	if s == nil {
		return ""
	}
	var keep []string
	for _, p := range strings.Split(*s, ";") {
		if strings.HasPrefix(p, "__esModule=") || p == "" {
			continue
		}
		keep = append(keep, p)
	}
	return strings.Join(keep, ";")
}

func c02BundleCase(root string, g *ggraph, cfg c02Cfg, extra func(o *api.BuildOptions)) (*graphCase, string) {
	entry := g.mods[0]
	opts := api.BuildOptions{EntryPoints: []string{filepath.Join(root, entry.file())}, Bundle: true, Write: false, Format: cfg.format, Platform: cfg.platform,
		MinifySyntax: cfg.minify, MinifyIdentifiers: cfg.minify, MinifyWhitespace: cfg.minify, LogLevel: api.LogLevelSilent, Outdir: filepath.Join(root, "out"), AbsWorkingDir: root,
		MainFields: []string{"main"}, Conditions: []string{}, Engines: []api.Engine{{Name: api.EngineNode, Version: "20.20.2"}}}
	if cfg.format == api.FormatIIFE {
		opts.GlobalName = "G"
	}
	if cfg.platform == api.PlatformNeutral {
		opts.MainFields = []string{"main"}
	}
	if extra != nil {
		extra(&opts)
	}
	r := api.Build(opts)
	if len(r.Errors) > 0 {
		return nil, r.Errors[0].Text
	}
	if len(r.OutputFiles) == 0 {
		return nil, "no output"
	}
	code := string(r.OutputFiles[0].Contents)
	gc := &graphCase{}
	switch cfg.format {
	case api.FormatESModule:
		gc.Files = map[string]string{"bundle.mjs": code}
		gc.Entry, gc.How = "bundle.mjs", "import"
	case api.FormatCommonJS:
		gc.Files = map[string]string{"bundle.cjs": code}
		gc.Entry, gc.How = "bundle.cjs", "require"
	default:
		gc.Files = map[string]string{"bundle.js": code}
		gc.Entry, gc.How, gc.GlobalName = "bundle.js", "script", "G"
	}
	return gc, ""
}

func runC02(c *Check) {
	c.Rule = "all module graphs of <=3 modules over 10 shapes (single, pair, chain, star, diamond, join, 2- and 3-cycles, self-import, cycle with tail) x module kinds {.mjs, .cjs} x 12 edge kinds (named/default/namespace/side-effect imports, re-export, export *, export * as, top-level-await import(), require, inline require, lazy require, dynamic import from CJS) x CJS export styles x throwing variants; every graph is loaded natively by Node (import()/require()) and as esbuild bundles (esm/cjs/iife+global name x node/browser/neutral x minify) loaded the way their format dictates; compared: global evaluation log, values seen through every import incl. live bindings, thrown error class, export surface; plus asset loaders (json/text/base64/binary/dataurl) over byte-class words; distinct = distinct (log, surface) observations; import() observations of ESM importers record which object became default"
	c.Assump = []string{"Node 20's native ESM/CJS loaders are the reference", "documented limitations are excluded by construction: at most one top-level-await module and never on a cycle, CJS modules require only CJS modules, CJS exports are not mutated after evaluation, namespace key lists are only observed for ES module targets, no observation of bindings on cycles before all bodies ran, error messages are not compared"}
	pool := NewNodePool("")
	defer pool.Close()
	graphs := enumGraphs(c.Tier, false)
	// known-finding probe (excluded from the generated space because its two asynchronous chains race)
	graphs = append(graphs, &ggraph{mods: []gmod{{"a", false, "exports", false}, {"b", true, "exports", false}, {"c", true, "exports", false}}, edges: []gedge{{0, 1, "dyn"}, {1, 2, "dyn"}}, throwIn: -1})
	c.Set("graphs", len(graphs))
	root := scratchRoot("c02")
	defer os.RemoveAll(root)
	c.ForEach(uint64(len(graphs)), func(w int, i uint64) {
		g := graphs[i]
		dir := filepath.Join(root, fmt.Sprintf("g%d", i))
		files := g.render()
		writeTree(dir, files)
		defer os.RemoveAll(dir)
		entry := g.mods[0]
		how := "import"
		if !entry.esm {
			how = "require"
		}
		cases := []graphCase{{Files: files, Entry: entry.file(), How: how}}
		var names []string
		for ci, cfg := range c02Cfgs {
			_ = ci
			gc, errText := c02BundleCase(dir, g, cfg, nil)
			if gc == nil {
				c.Sub("bundle_error:"+trunc(errText, 60), 1)
				continue
			}
			cases = append(cases, *gc)
			names = append(names, cfg.name)
		}
		c.Eval(1)
		res := nodeGraph(pool.Get(w), cases)
		native := res[0]
		if native.Err != nil && strings.HasPrefix(*native.Err, "SyntaxError") {
			c.Sub("generator_invalid_graph", 1)
			return
		}
		c.Distinct(strings.Join(native.Log, "\n"), normSurface(native.Surface))
		for k := 1; k < len(res); k++ {
			b := res[k]
			cfgName := names[k-1]
			diff := ""
			if strings.Join(native.Log, "\n") != strings.Join(b.Log, "\n") {
				diff = "log"
			} else if (native.Err == nil) != (b.Err == nil) || (native.Err != nil && *native.Err != *b.Err) {
				diff = "error"
			} else {
				ns, bs := normSurface(native.Surface), normSurface(b.Surface)
				if !entry.esm && strings.HasPrefix(cfgName, "esm") {
					// CJS entry as ESM bundle: `default` is module.exports; named exports are only what esbuild/Node
					// can detect statically, so only the default's own surface is compared
					bs, ns = "", ""
				}
				if ns != bs {
					diff = "surface"
				}
			}
			key := "graph:" + cfgName + ":" + g.String()
			if diff == "log" && g.dynIntoTLA() && sortedLines(native.Log) == sortedLines(b.Log) {
				key = "dynamic-import-of-module-with-top-level-await-starts-synchronously"
			}
			if diff == "log" && g.throwIn >= 0 && !g.mods[g.throwIn].esm && g.dynAndOtherEdgeInto(g.throwIn) &&
				strings.Join(native.Log, "\n") == strings.Join(dropReexecutions(b.Log, g.mods[g.throwIn].id), "\n") &&
				(native.Err == nil) == (b.Err == nil) && (native.Err == nil || *native.Err == *b.Err) {
				// differential: identical to native once the repeated evaluations of the throwing CommonJS module are removed
				key = "import-of-commonjs-module-whose-evaluation-threw-evaluates-it-again"
			}
			if diff != "" {
				c.Violation(key, map[string]interface{}{"kind": "bundle behaves differently from native loading (" + diff + ")", "graph": g.String(), "config": cfgName, "files": files, "native": native.String(), "bundle": b.String(), "bundle_code": trunc(cases[k].Files[cases[k].Entry], 5000)})
			}
		}
	})
	c02Assets(c, pool, root)
	c.Sample(map[string]interface{}{"graph": graphs[len(graphs)/2].String(), "files": graphs[len(graphs)/2].render()})
}

// dynAndOtherEdgeInto: module t is reached by an import() and by at least one more edge
func (g *ggraph) dynAndOtherEdgeInto(t int) bool {
	dyn, n := false, 0
	for _, e := range g.edges {
		if e.to == t {
			n++
			if e.kind == "dyn" {
				dyn = true
			}
		}
	}
	return dyn && n >= 2
}

// dropReexecutions removes every evaluation of module id after the first one (lines "<id>:start" .. "<id>:end")
func dropReexecutions(log []string, id string) []string {
	var out []string
	seen, skipping := false, false
	for _, l := range log {
		switch {
		case l == `"`+id+`:start"`:
			if seen {
				skipping = true
			}
			seen = true
		case l == `"`+id+`:end"` && skipping:
			skipping = false
			continue
		}
		if !skipping {
			out = append(out, l)
		}
	}
	return out
}

func sortedLines(l []string) string {
	x := append([]string{}, l...)
	sort.Strings(x)
	return strings.Join(x, "\n")
}

// dynIntoTLA: some dynamic import targets an ES module that itself uses top-level await
func (g *ggraph) dynIntoTLA() bool {
	for _, e := range g.edges {
		if e.kind != "dyn" || !g.mods[e.to].esm {
			continue
		}
		for _, f := range g.edges {
			if f.from == e.to && f.kind == "dyn" {
				return true
			}
		}
	}
	return false
}

func c02DefaultOf(s *string) string {
	if s == nil {
		return "<nil>"
	}
	for _, p := range strings.Split(*s, ";") {
		if strings.HasPrefix(p, "default=") {
			return p[8:]
		}
	}
	return "<no default>"
}

// native require() surface rendered like ser(module.exports) so that it can be compared with `default=`
func c02CJSNative(s *string) string {
	if s == nil {
		return "<nil>"
	}
	return "<object>"
}

// ---- assets: the value obtained by importing a non-JavaScript file is exactly its bytes/text/JSON value
func c02Assets(c *Check, pool *NodePool, root string) {
	classes := [][]byte{{'a'}, {0}, {0x80}, {0xFF}, {0xC3, 0xA9}, {0xEF, 0xBB, 0xBF}, {'%'}, {'#'}, {' '}, {'"'}, {'\n'}, {0xF0, 0x9F, 0x98, 0x80}, {'\\'}, {'<'}, {'\r'}, {0xE2, 0x80, 0xA8}}
	var blobs [][]byte
	for b := 0; b < 256; b++ {
		blobs = append(blobs, []byte{byte(b)})
	}
	maxLen := 3
	if c.Tier == "quick" {
		maxLen = 2
	}
	for n := 2; n <= maxLen; n++ {
		total := 1
		for k := 0; k < n; k++ {
			total *= len(classes)
		}
		for i := 0; i < total; i++ {
			var b []byte
			j := i
			for k := 0; k < n; k++ {
				b = append(b, classes[j%len(classes)]...)
				j /= len(classes)
			}
			blobs = append(blobs, b)
		}
	}
	blobs = append(blobs, []byte{}, []byte(strings.Repeat("x", 70000)))
	// percent signs in every position relative to hex digits and to the end of the file (data URLs escape "%XX")
	for _, t := range []string{"%41", "x%41", "%4", "%%41", "%41x", "%4g", "100%25", "%e2%80%a8", "a%0a", "%4%41", "%41%", "%G1", "%1G", "50%", "%AF", "%af%AF", "ab%c", "%25%25"} {
		blobs = append(blobs, []byte(t))
	}
	jsons := []string{"null", "true", "0", "-0", "1e400", "-1e-400", "1.5", "\"\"", "\"a\\u2028\\ud800b\"", "[]", "{}", "[1,[2,{\"a\":null}]]", "{\"__proto__\":1,\"a\":{\"__proto__\":{\"x\":1}}}", "{\"a\":1,\"a\":2}", "{\"constructor\":1,\"toString\":2}", "{\"0\":1,\"-1\":2,\"1e3\":3}", "\"\\u0000\"", "123456789012345678901234567890", "[1,2,3,4,5,6,7,8,9,10]", "{\"default\":1,\"x y\":2,\"if\":3}", "  {\"ws\" : [ 1 , 2 ] }  ", "\"\\ud83d\\ude00\"", "0.1", "1E2", "{\"a\":{\"b\":{\"c\":{\"d\":[]}}}}"}
	c.ForEach(uint64(len(blobs)), func(w int, i uint64) {
		blob := blobs[i]
		dir := filepath.Join(root, fmt.Sprintf("a%d", i))
		os.MkdirAll(dir, 0o755)
		defer os.RemoveAll(dir)
		os.WriteFile(filepath.Join(dir, "blob.bin"), blob, 0o644)
		os.WriteFile(filepath.Join(dir, "blob.b64"), blob, 0o644)
		os.WriteFile(filepath.Join(dir, "blob.durl"), blob, 0o644)
		entry := "import bin from './blob.bin'; import b64 from './blob.b64'; import durl from './blob.durl';\n" +
			"const hex = u => Array.from(u).map(b => b.toString(16).padStart(2, '0')).join('');\n" +
			"const pdecode = s => { const b = Buffer.from(s, 'utf8'), o = []; for (let i = 0; i < b.length; i++) { const h = b.toString('latin1', i + 1, i + 3); if (b[i] === 37 && /^[0-9a-fA-F]{2}$/.test(h)) { o.push(parseInt(h, 16)); i += 2 } else o.push(b[i]) } return Buffer.from(o) };\n" +
			"const fromDataURL = s => { const m = /^data:([^,]*?)(;base64)?,(.*)$/s.exec(s); return m[2] ? Buffer.from(m[3], 'base64') : pdecode(m[3]); };\n" +
			"const du = fromDataURL(durl);\n" +
			"log('binary', hex(bin)); log('base64', hex(Buffer.from(b64, 'base64'))); log('dataurl', hex(du));\n"
		validUTF8 := strings.ToValidUTF8(string(blob), "\x00INVALID") == string(blob)
		if validUTF8 {
			os.WriteFile(filepath.Join(dir, "blob.txt"), blob, 0o644)
			entry += "import txt from './blob.txt'; log('text', hex(Buffer.from(txt, 'utf8')));\n"
		}
		os.WriteFile(filepath.Join(dir, "entry.mjs"), []byte(entry), 0o644)
		want := fmt.Sprintf("%x", blob)
		for _, minify := range []bool{false, true} {
			r := api.Build(api.BuildOptions{EntryPoints: []string{filepath.Join(dir, "entry.mjs")}, Bundle: true, Write: false, Format: api.FormatESModule, Platform: api.PlatformNode, LogLevel: api.LogLevelSilent,
				Engines: []api.Engine{{Name: api.EngineNode, Version: "20.20.2"}}, Outdir: filepath.Join(dir, "out"), MinifySyntax: minify, MinifyWhitespace: minify, Charset: map[bool]api.Charset{false: api.CharsetASCII, true: api.CharsetUTF8}[minify],
				Loader: map[string]api.Loader{".bin": api.LoaderBinary, ".b64": api.LoaderBase64, ".durl": api.LoaderDataURL, ".txt": api.LoaderText}})
			c.Eval(1)
			if len(r.Errors) > 0 {
				c.Violation("asset-build:"+want, map[string]interface{}{"kind": "asset bundle failed", "bytes_hex": trunc(want, 200), "errors": jsonStr(r.Errors)})
				continue
			}
			res := nodeGraph(pool.Get(w), []graphCase{{Files: map[string]string{"bundle.mjs": string(r.OutputFiles[0].Contents)}, Entry: "bundle.mjs", How: "import"}})[0]
			c.Distinct("asset", want)
			for _, line := range res.Log {
				parts := strings.Fields(line)
				if len(parts) < 1 {
					continue
				}
				got := ""
				if len(parts) == 2 {
					got = strings.Trim(parts[1], "\"")
				}
				kind := strings.Trim(parts[0], "\"")
				expect := want
				if kind == "text" && len(blob) >= 3 && blob[0] == 0xEF && blob[1] == 0xBB && blob[2] == 0xBF {
					expect = want[6:] // the text loader strips a UTF-8 BOM like every other text input of esbuild (documented)
				}
				if got != expect {
					c.Violation("asset:"+kind+":"+want, map[string]interface{}{"kind": "imported asset value differs from the file's bytes", "loader": kind, "bytes_hex": trunc(want, 200), "got_hex": trunc(got, 200), "minify": minify})
				}
			}
			if res.Err != nil || len(res.Log) < 3 {
				c.Violation("asset-run:"+want, map[string]interface{}{"kind": "asset bundle did not run", "bytes_hex": trunc(want, 200), "result": res.String()})
			}
		}
	})
	// JSON
	c.ForEach(uint64(len(jsons)), func(w int, i uint64) {
		js := jsons[i]
		dir := filepath.Join(root, fmt.Sprintf("j%d", i))
		os.MkdirAll(dir, 0o755)
		defer os.RemoveAll(dir)
		os.WriteFile(filepath.Join(dir, "data.json"), []byte(js), 0o644)
		os.WriteFile(filepath.Join(dir, "entry.mjs"), []byte("import data from './data.json'; import * as ns from './data.json'; log('json', JSON.stringify(data), Object.is(data, -0), typeof ns.default);\n"), 0o644)
		os.WriteFile(filepath.Join(dir, "native.cjs"), []byte("const data = require('./data.json'); log('json', JSON.stringify(data), Object.is(data, -0), typeof data === 'undefined' ? 'undefined' : typeof data);\n"), 0o644)
		var cases []graphCase
		cases = append(cases, graphCase{Files: map[string]string{"data.json": js, "native.cjs": "const data = require('./data.json'); log('json', JSON.stringify(data), Object.is(data, -0), typeof data);\n"}, Entry: "native.cjs", How: "require"})
		for _, minify := range []bool{false, true} {
			r := api.Build(api.BuildOptions{EntryPoints: []string{filepath.Join(dir, "entry.mjs")}, Bundle: true, Write: false, Format: api.FormatESModule, Platform: api.PlatformNode, LogLevel: api.LogLevelSilent, Outdir: filepath.Join(dir, "out"), MinifySyntax: minify, MinifyIdentifiers: minify})
			c.Eval(1)
			if len(r.Errors) > 0 {
				c.Violation("json-build:"+js, map[string]interface{}{"kind": "json bundle failed", "json": js, "errors": jsonStr(r.Errors)})
				return
			}
			cases = append(cases, graphCase{Files: map[string]string{"bundle.mjs": string(r.OutputFiles[0].Contents)}, Entry: "bundle.mjs", How: "import"})
		}
		res := nodeGraph(pool.Get(w), cases)
		for k := 1; k < len(res); k++ {
			if strings.Join(res[k].Log, "|") != strings.Join(res[0].Log, "|") {
				c.Violation("json:"+js, map[string]interface{}{"kind": "imported JSON value differs from JSON.parse of the file", "json": js, "native": res[0].String(), "bundle": res[k].String()})
			}
		}
	})
	_ = base64.StdEncoding
}

func init() { register("C02", "exploration", runC02) }
