package main

// C06 import elision x tsconfig: which import/export statements of a TypeScript file survive depends on
// importsNotUsedAsValues / preserveValueImports / verbatimModuleSyntax. Every statement form x every setting:
//   (a) differential: "error" must emit what "preserve" emits (TypeScript: "error: preserves all imports (same as
//       preserve), but errors when a value import is only used as a type"), and "remove" what no setting emits;
//   (b) the cases TypeScript's documentation states outright (below) are compared with expectations written by hand.
// Observed: whether the statement still loads './dep' (so that its side effects happen), and the whole output text for (a).

import (
	"regexp"
	"strings"

	"github.com/evanw/esbuild/pkg/api"
)

var c06ImportForms = []struct{ name, stmt string }{
	{"named-type-only-use", "import {T} from './dep'; let x: T; export {x};"},
	{"namespace-unused", "import * as ns from './dep'; export let x = 1;"},
	{"default-unused", "import d from './dep'; export let x = 1;"},
	{"empty-clause", "import {} from './dep'; export let x = 1;"},
	{"import-type", "import type {T} from './dep'; let x: T; export {x};"},
	{"inline-type-specifier", "import {type T} from './dep'; let x: T; export {x};"},
	{"named-value-use", "import {v} from './dep'; export let x = v;"},
	{"bare", "import './dep'; export let x = 1;"},
	{"mixed-type-and-value", "import {T, v} from './dep'; let y: T; export let x = v; export {y};"},
	{"default-unused-plus-inline-type", "import d, {type T} from './dep'; let x: T; export {x};"},
	{"export-inline-type-from", "export {type T} from './dep'; export let x = 1;"},
	{"export-type-from", "export type {T} from './dep'; export let x = 1;"},
	{"export-empty-from", "export {} from './dep'; export let x = 1;"},
	{"export-value-from", "export {v} from './dep'; export let x = 1;"},
	{"import-equals-require-unused", "import r = require('./dep'); export let x = 1;"},
	{"named-unused", "import {v} from './dep'; export let x = 1;"},
}

var c06ImportSettings = []struct{ name, opts string }{
	{"none", ``},
	{"remove", `"importsNotUsedAsValues":"remove"`},
	{"preserve", `"importsNotUsedAsValues":"preserve"`},
	{"error", `"importsNotUsedAsValues":"error"`},
	{"preserveValueImports", `"preserveValueImports":true`},
	{"preserve+preserveValueImports", `"importsNotUsedAsValues":"preserve","preserveValueImports":true`},
	{"error+preserveValueImports", `"importsNotUsedAsValues":"error","preserveValueImports":true`},
	{"verbatimModuleSyntax", `"verbatimModuleSyntax":true`},
	{"verbatimModuleSyntax+error", `"verbatimModuleSyntax":true,"importsNotUsedAsValues":"error"`},
	{"verbatimModuleSyntax=false+error", `"verbatimModuleSyntax":false,"importsNotUsedAsValues":"error"`},
}

var c06LoadsDep = regexp.MustCompile(`(from|import)\s*["']\./dep["']|require\(["']\./dep["']\)`)

// expectations stated by the TypeScript documentation: setting -> form -> './dep' still loaded
var c06ImportExpect = map[string]map[string]bool{
	"none": {"named-type-only-use": false, "namespace-unused": false, "default-unused": false, "import-type": false, "named-value-use": true, "bare": true, "mixed-type-and-value": true,
		"export-type-from": false, "export-value-from": true, "named-unused": false},
	"preserve": {"named-type-only-use": true, "namespace-unused": true, "default-unused": true, "import-type": false, "named-value-use": true, "bare": true, "named-unused": true, "export-type-from": false},
	"verbatimModuleSyntax": {"named-type-only-use": true, "namespace-unused": true, "default-unused": true, "empty-clause": true, "import-type": false, "inline-type-specifier": true, "named-value-use": true, "bare": true,
		"export-inline-type-from": true, "export-type-from": false, "export-empty-from": true, "export-value-from": true, "named-unused": true},
}

func c06Imports(c *Check) {
	equal := [][2]string{{"error", "preserve"}, {"remove", "none"}, {"error+preserveValueImports", "preserve+preserveValueImports"}, {"verbatimModuleSyntax+error", "verbatimModuleSyntax"}, {"verbatimModuleSyntax=false+error", "preserve"}}
	for _, loader := range []api.Loader{api.LoaderTS, api.LoaderTSX} {
		for _, minify := range []bool{false, true} {
			for _, f := range c06ImportForms {
				outs := map[string]string{}
				for _, s := range c06ImportSettings {
					o := api.TransformOptions{Loader: loader, MinifySyntax: minify, Format: api.FormatESModule}
					if s.opts != "" {
						o.TsconfigRaw = `{"compilerOptions":{` + s.opts + `}}`
					}
					out, ok, errs := transformJS(f.stmt, o)
					c.Eval(1)
					if !ok {
						c.Violation("imports-rejected:"+f.name+":"+s.name, map[string]interface{}{"kind": "valid TypeScript rejected", "form": f.stmt, "setting": s.name, "errors": jsonStr(errs)})
						continue
					}
					c.Distinct(out)
					outs[s.name] = out
					if want, ok := c06ImportExpect[s.name][f.name]; ok {
						if got := c06LoadsDep.MatchString(out); got != want {
							c.Violation("imports:"+f.name+":"+s.name, map[string]interface{}{"kind": "import elision differs from TypeScript's documented behaviour", "form": f.stmt, "setting": s.name, "dep_loaded": got, "expected": want, "output": out, "minify": minify})
						}
					}
				}
				for _, e := range equal {
					a, okA := outs[e[0]]
					b, okB := outs[e[1]]
					if okA && okB && strings.TrimSpace(a) != strings.TrimSpace(b) {
						c.Violation("imports-equal:"+f.name+":"+e[0], map[string]interface{}{"kind": "two tsconfig settings that TypeScript defines as emitting the same JavaScript emit different code", "form": f.stmt, "setting_a": e[0], "setting_b": e[1], "output_a": a, "output_b": b, "minify": minify})
					}
				}
				c.Sub("import_elision_cases", 1)
			}
		}
	}
}
