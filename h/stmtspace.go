package main

// E1: statement skeleton space (if/else nestings, loops, switch, try, labels, jumps, declarations),
// shared by C01 (printing/ASI) and C03 (mangleStmts, dead code, hoisting).

import (
	"fmt"
	"strings"
)

type sgen struct {
	probe int
	loop  int
}

func (g *sgen) p(v string) string {
	g.probe++
	return fmt.Sprintf("H.p(%d, %s)", g.probe, v)
}

// statement leaves; inLoop/inSwitch/label control which jumps are legal
type sleaf func(g *sgen, inLoop, inBreakable bool, label string) string

var sLeaves = []sleaf{
	func(g *sgen, l, b bool, lb string) string { return g.p("0") + ";" },
	func(g *sgen, l, b bool, lb string) string { return "return " + g.p("1") + ";" },
	func(g *sgen, l, b bool, lb string) string { return "return;" },
	func(g *sgen, l, b bool, lb string) string { return "throw " + g.p("2") + ";" },
	func(g *sgen, l, b bool, lb string) string {
		if b {
			return "break;"
		}
		return ";"
	},
	func(g *sgen, l, b bool, lb string) string {
		if l {
			return "continue;"
		}
		return "var v1 = " + g.p("3") + ";"
	},
	func(g *sgen, l, b bool, lb string) string {
		if lb != "" {
			return "break " + lb + ";"
		}
		return "let l1 = " + g.p("4") + "; " + g.p("l1") + ";"
	},
	func(g *sgen, l, b bool, lb string) string { return "var v2 = " + g.p("5") + ", v3;" },
	func(g *sgen, l, b bool, lb string) string {
		g.probe++
		return fmt.Sprintf("function fd%d() { return H.p(%d, 6) }", g.probe, g.probe)
	},
	func(g *sgen, l, b bool, lb string) string { return "a = " + g.p("7") + ";" },
	func(g *sgen, l, b bool, lb string) string { return "const k1 = " + g.p("8") + "; return k1;" },
	func(g *sgen, l, b bool, lb string) string { return "{}" },
}

// conditions: probes over parameters (runtime unknown) and constants (dead code)
var sConds = []func(g *sgen) string{
	func(g *sgen) string { return g.p("a") },
	func(g *sgen) string { return g.p("b") },
	func(g *sgen) string { return "!" + g.p("a") },
	func(g *sgen) string { return "true" },
	func(g *sgen) string { return "false" },
	func(g *sgen) string { return "0" },
	func(g *sgen) string { return g.p("a") + " && " + g.p("b") },
	func(g *sgen) string { return "a" },
	func(g *sgen) string { return "a == null" },
	func(g *sgen) string { return "typeof a === 'undefined'" },
}

type scomp struct {
	name  string
	slots int
	// render with sub-statement texts produced by callbacks (which get context flags)
	render func(g *sgen, cond func() string, sub func(k int, inLoop, inBreakable bool, label string) string) string
}

func (g *sgen) guard() (decl, test string) {
	g.loop++
	n := fmt.Sprintf("N[%d]", g.loop)
	return "", g.p(n + "++ < 2")
}

var sComps = []scomp{
	{"if", 1, func(g *sgen, c func() string, s func(int, bool, bool, string) string) string {
		return "if (" + c() + ") " + s(0, false, false, "")
	}},
	{"if-else", 2, func(g *sgen, c func() string, s func(int, bool, bool, string) string) string {
		return "if (" + c() + ") " + s(0, false, false, "") + " else " + s(1, false, false, "")
	}},
	{"if-block-else-block", 2, func(g *sgen, c func() string, s func(int, bool, bool, string) string) string {
		return "if (" + c() + ") { " + s(0, false, false, "") + " } else { " + s(1, false, false, "") + " }"
	}},
	{"block2", 2, func(g *sgen, c func() string, s func(int, bool, bool, string) string) string {
		return "{ " + s(0, false, false, "") + " " + s(1, false, false, "") + " }"
	}},
	{"while", 1, func(g *sgen, c func() string, s func(int, bool, bool, string) string) string {
		d, t := g.guard()
		return d + "while (" + t + " && " + c() + ") " + s(0, true, true, "")
	}},
	{"do-while", 1, func(g *sgen, c func() string, s func(int, bool, bool, string) string) string {
		d, t := g.guard()
		return d + "do " + s(0, true, true, "") + " while (" + t + " && " + c() + ");"
	}},
	{"for", 1, func(g *sgen, c func() string, s func(int, bool, bool, string) string) string {
		d, t := g.guard()
		return d + "for (var i = " + g.p("0") + "; " + t + "; " + g.p("i++") + ") " + s(0, true, true, "")
	}},
	{"for-empty", 1, func(g *sgen, c func() string, s func(int, bool, bool, string) string) string {
		d, t := g.guard()
		return d + "for (;;) { if (!(" + t + ")) break; " + s(0, true, true, "") + " }"
	}},
	{"for-in", 1, func(g *sgen, c func() string, s func(int, bool, bool, string) string) string {
		return "for (var k in " + g.p("{x: 1, y: 2}") + ") { " + g.p("k") + "; " + s(0, true, true, "") + " }"
	}},
	{"for-of", 1, func(g *sgen, c func() string, s func(int, bool, bool, string) string) string {
		return "for (const e of " + g.p("[1, 2]") + ") " + s(0, true, true, "")
	}},
	{"switch", 2, func(g *sgen, c func() string, s func(int, bool, bool, string) string) string {
		return "switch (" + g.p("c") + ") { case " + g.p("1") + ": " + s(0, false, true, "") + " case 2: default: " + s(1, false, true, "") + " case " + g.p("3") + ": " + g.p("0") + " }"
	}},
	{"try-catch", 2, func(g *sgen, c func() string, s func(int, bool, bool, string) string) string {
		return "try { " + s(0, false, false, "") + " } catch (e) { " + g.p("e") + "; " + s(1, false, false, "") + " }"
	}},
	{"try-finally", 2, func(g *sgen, c func() string, s func(int, bool, bool, string) string) string {
		return "try { " + s(0, false, false, "") + " } finally { " + s(1, false, false, "") + " }"
	}},
	{"label", 1, func(g *sgen, c func() string, s func(int, bool, bool, string) string) string {
		return "L: { " + g.p("0") + "; " + s(0, false, false, "L") + " " + g.p("0") + "; }"
	}},
	{"label-loop", 1, func(g *sgen, c func() string, s func(int, bool, bool, string) string) string {
		d, t := g.guard()
		return d + "L: while (" + t + ") { " + s(0, true, true, "L") + " " + g.p("0") + "; }"
	}},
	{"if-noelse-then", 2, func(g *sgen, c func() string, s func(int, bool, bool, string) string) string {
		return "if (" + c() + ") " + s(0, false, false, "") + " " + s(1, false, false, "")
	}},
	{"fn-body", 2, func(g *sgen, c func() string, s func(int, bool, bool, string) string) string {
		return "var r = (function() { " + s(0, false, false, "") + " " + s(1, false, false, "") + " })(); " + g.p("r") + ";"
	}},
	{"arrow-body", 1, func(g *sgen, c func() string, s func(int, bool, bool, string) string) string {
		return "var r = (() => { " + s(0, false, false, "") + " })(); " + g.p("r") + ";"
	}},
}

// stmtProgram renders: comp(outer) with slot `slot` holding comp(inner) (or leaf), other slots leaves.
// Indices: outer composite oc, cond co, for each of up to 2 slots either a leaf index or (inner comp, its leaves).
type sspec struct {
	oc, co  int
	leaf    [2]int
	innerAt int // -1 none
	ic, ico int
	ileaf   [2]int
	tail    int
}

func renderSpec(sp sspec) string {
	g := &sgen{}
	outer := sComps[sp.oc]
	cond := func() string { return sConds[sp.co](g) }
	sub := func(k int, inLoop, inBreakable bool, label string) string {
		if k == sp.innerAt {
			inner := sComps[sp.ic]
			icond := func() string { return sConds[sp.ico](g) }
			isub := func(j int, l2, b2 bool, lb2 string) string {
				lb := lb2
				if lb == "" {
					lb = label
				}
				if lb2 != "" && label != "" {
					lb = "" // avoid duplicate label names
				}
				return sLeaves[sp.ileaf[j]](g, inLoop || l2, inBreakable || b2, lb)
			}
			txt := inner.render(g, icond, isub)
			if strings.Contains(txt, "L:") && label == "L" {
				txt = strings.ReplaceAll(strings.ReplaceAll(txt, "L:", "M:"), "break L", "break M")
			}
			return txt
		}
		return sLeaves[sp.leaf[k]](g, inLoop, inBreakable, label)
	}
	body := outer.render(g, cond, sub)
	tail := sLeaves[sp.tail](g, false, false, "")
	return "var N = [0, 0, 0, 0, 0, 0, 0, 0];\n" + body + "\n" + tail + "\n" + g.p("9") + "; return 'end';"
}

func stmtSpace(tier string) xseg {
	var specs []sspec
	nl := len(sLeaves)
	conds := []int{0, 3, 4}
	tails := []int{0, 1}
	if tier != "quick" {
		conds = []int{0, 1, 2, 3, 4, 5, 6, 7, 8, 9}
		tails = []int{0, 1, 2, 3, 7, 8, 9, 10}
	}
	// depth 1: every composite x cond x leaf assignment x tail
	for oc := range sComps {
		for _, co := range conds {
			for l0 := 0; l0 < nl; l0++ {
				l1max := 1
				if sComps[oc].slots == 2 {
					l1max = nl
				}
				for l1 := 0; l1 < l1max; l1++ {
					for _, t := range tails {
						specs = append(specs, sspec{oc: oc, co: co, leaf: [2]int{l0, l1}, innerAt: -1, tail: t})
					}
				}
			}
		}
	}
	// depth 2: outer x slot x inner x inner leaves (other slots: leaf 0 and leaf 1), conds reduced
	ileaves := []int{0, 1, 3, 4, 5, 6}
	c2 := []int{0, 4}
	if tier != "quick" {
		ileaves = []int{0, 1, 2, 3, 4, 5, 6, 7, 8, 9, 10}
		c2 = []int{0, 2, 3, 4, 7}
	}
	for oc := range sComps {
		for slot := 0; slot < sComps[oc].slots; slot++ {
			for ic := range sComps {
				for _, co := range c2 {
					for _, ico := range c2 {
						for _, l0 := range ileaves {
							l1s := []int{0}
							if sComps[ic].slots == 2 {
								l1s = []int{0, 1, 4}
							}
							for _, l1 := range l1s {
								specs = append(specs, sspec{oc: oc, co: co, leaf: [2]int{1, 0}, innerAt: slot, ic: ic, ico: ico, ileaf: [2]int{l0, l1}, tail: 0})
							}
						}
					}
				}
			}
		}
	}
	return xseg{"statement-skeletons", uint64(len(specs)), func(i uint64) xcase {
		return xcase{code: xProgram(renderSpec(specs[i]), ""), label: "stmt"}
	}}
}

// ASI / token gluing hazards: explicit list of statement sequences (each a function body).
var asiHazards = []string{
	"return\nH.p(1, a);",
	"var x = a\n(H.p(1, b));",
	"var x = H.f(1, 5)\n;(H.p(2, b));",
	"var x = a\n[H.p(1, 0)];",
	"var x = b\n;[H.p(1, 0)].length;",
	"var x = a\n/b/g;",
	"var x = a\n;/b/g.test(H.p(1, 'b'));",
	"var x = a\n++b; return [x, b];",
	"var x = a++\nb; return [x, a];",
	"var let_ = 1; let\n[q] = [H.p(1, 2)]; return q;",
	"var async = H.f(1, 2); var r = async\n(function(){ }); return r;",
	"return a-- >b;",
	"return a-->b;",
	"return a<!--b;",
	"return a< !--b;",
	"return a- -b;",
	"return a+ +b;",
	"return a++ +b;",
	"return a+ ++b;",
	"return a-- -b;",
	"return a- --b;",
	"return a+ + +b;",
	"return a- - -b;",
	"return a + -b;",
	"return a - +b;",
	"return 1 .constructor;",
	"return 1..constructor;",
	"return 1.5.constructor;",
	"return /re/ in a;",
	"return a / /re/.lastIndex;",
	"return a / b / c;",
	"return a /(b)/ c;",
	"return a in b;",
	"return a instanceof(b);",
	"return typeof(a) + typeof a;",
	"return void(a);",
	"return a ? b : c ? 1 : 2;",
	"return (a ? b : c) ? 1 : 2;",
	"return a ? (b, c) : 2;",
	"return (a, b);",
	"if (a) if (b) H.p(1, 0); else H.p(2, 0);",
	"if (a) { if (b) H.p(1, 0); } else H.p(2, 0);",
	"if (a) for (;;) if (b) { H.p(1, 0); break } else { H.p(2, 0); break } else H.p(3, 0);",
	"if (a) while (b) if (c) break; else break; else H.p(3, 0);",
	"if (a) L: if (b) H.p(1, 0); else H.p(2, 0);",
	"if (a) do if (b) H.p(1, 0); while (0); else H.p(2, 0);",
	"if (a) try { if (b) H.p(1, 0) } finally {} else H.p(2, 0);",
	"if (a) with ({}) if (b) H.p(1, 0); else H.p(2, 0);",
	"if (a) H.p(1, 0)\nelse H.p(2, 0)",
	"do H.p(1, 0); while (0) H.p(2, 0);",
	"var x = function(){ return 1 }\n(function(){ H.p(1, 0) })",
	"var f = H.f(1, H.f(2, 3)); var x = f\n`t`; return x;",
	"var y = 1; var x = y\n++\ny; return [x, y];",
	"L: M: for (;;) { break L }",
	"L: { M: { break L } H.p(1, 0) }",
	"for (var i = 0, j = (H.p(1, 'x') in {x: 1}); i < 1; i++) H.p(2, j);",
	"for (var i = (H.p(1, 'x') in {x: 1}) ? 0 : 1; i < 1; i++) H.p(2, i);",
	"for (var i = H.f(1, 0)(H.p(2, 'x') in {x: 1}); i < 1; i++) H.p(3, i);",
	"for (var i = [H.p(2, 'x') in {x: 1}]; i < 1; i++) H.p(3, i);",
	"for (var i = () => H.p(2, 'x') in {x: 1}; ;) { return i() }",
	"for (var i = function() { return 'x' in {x: 1} }; ;) { return i() }",
	"for (var i = `${'x' in {x: 1}}`; ;) { return i }",
	"for (var i = {y: 'x' in {x: 1}}.y; ;) { return i }",
	"for (var i = class { static y = 'x' in {x: 1} }.y; ;) { return i }",
	"for (var i = ('x' in {x: 1}) + 1; ;) { return i }",
	"for (var i = a ? ('x' in {x: 1}) : 2; ;) { return i }",
	"for (var i = a ? 1 : ('x' in {x: 1}); ;) { return i }",
	"for (var i = (1, 'x' in {x: 1}); ;) { return i }",
	"for (var i = !('x' in {x: 1}); ;) { return i }",
	"for (var i = ((b) => 'x' in b)({x: 1}); ;) { return i }",
	"for (var {x = 'x' in {x: 1}} = {}; ;) { return x }",
	"for (var [x = 'x' in {x: 1}] = []; ;) { return x }",
	"for (let x of [a in {}]) { return x }",
	"for (var x in 'k' in {k: 1} ? {q: 1} : {}) { return x }",
	"for (var x = 0 in {}) { return x }",
	"var async; for (async of [1]) ; return async;",
	"var async; for ((async) of [1]) ; return async;",
	"var of; for (of of [1]) ; return of;",
	"var let_; for ((let_) of [1]) ; return let_;",
	"for (var x of (a, [1])) return x;",
	"for (var x of [1], [2]) return x;",
	"var o = {}; for (o.x of [1]) ; for (o['y'] in {k: 1}) ; return o;",
	"var o = {}; for ((o.x) of [1]) ; return o;",
	"var o = {}; for ([o.x] of [[1]]) ; for ({k: o.y} of [{k: 2}]) ; return o;",
	"var x = 1; { function x2() {} } return typeof x2;",
	"x: function lf() {} ; return typeof lf;",
	"if (a) function iff() {} return typeof iff;",
	"return function() { 'use strict'; return this }();",
	"'use strict'; return (function() { return this })();",
	"return (function() { return typeof this }).call(1);",
	"return (function() { 'use strict'; return typeof this }).call(1);",
	"var yield_ = 1; function* g() { yield\n1 } return [...g()];",
	"function* g() { yield* [1, 2]; yield * 2 } return [...g()].length;",
	"var x = class { static a = 1\n static b = 2\n static\n c = 3 }; return [x.a, x.b, x.c];",
	"var x = class { get\n a() { return 1 } static\n set\n b(v) {} }; return Object.getOwnPropertyNames(x.prototype);",
	"var x = class { 'a' = 1; 2 = 3; [4] = 5; static = 6; get = 7; set = 8; async = 9 }; return new x;",
	"var x = class { static\n static() { return 1 } get get() { return 2 } set set(v) {} static async *gen() {} async\n m() {} }; return Object.getOwnPropertyNames(x);",
	"var x = {get: 1, set: 2, async: 3, static: 4, get get() { return 5 }, async async() {}, *gen() {}, async *ag() {}}; return x;",
	"var x = {get\n a() { return 1 }, async\n b() {} }; return x;",
	"var o = {a, b, c}; var {a: x, ...r} = o; return [x, r];",
	"return new.target;",
	"return new (H.f(1, H.f(2, 0)))();",
	"return new (H.f(1, H.f(2, 0)))()();",
	"return new (H.f(1, H.f(2, 0))());",
	"return new (H.f(1, {x: H.f(2, 0)}).x)();",
	"return new (H.f(1, {x: H.f(2, 0)})().x)();",
	"return new (H.f(1, {x: H.f(2, 0)})()).x();",
	"return new new (H.f(1, H.f(2, 0)))()();",
	"return (new (H.f(1, 0))).x;",
	"return new (a?.b)();",
	"return (a?.b)();",
	"return (a?.b).c;",
	"return a?.b.c;",
	"return (a?.b.c)?.d;",
	"return a?.[0]?.(1);",
	"return (a?.b)`t`;",
	"return delete a?.b;",
	"return delete (a?.b);",
	"return (delete a?.b).x;",
	"return a ?? (b || c);",
	"return (a ?? b) || c;",
	"return a ?? (b && c);",
	"return (a && b) ?? c;",
	"return (a || b) ?? c;",
	"return (a ** b) ** c;",
	"return a ** (b ** c);",
	"return (-a) ** b;",
	"return -(a ** b);",
	"return (await_ => await_)(1);",
	"return (typeof a) ** 2;",
	"return (void 0) ** 2;",
	"return (a++) ** 2;",
	"return (+a) ** 2;",
	"return (!a) ** 2;",
	"return (~a) ** 2;",
	"return 2 ** -a;",
	"return (a, b) ** 2;",
	"return (a = b) ** 2;",
	"return (a ? b : c) ** 2;",
	"return (() => 1) ** 2;",
	"return a = b = c;",
	"return (a = b) = c;",
	"return a ? b : c = 1;",
	"return a || (b = 1);",
	"return (a, b) ? 1 : 2;",
	"return a ? b : (c, 1);",
	"return (() => ({})).call();",
	"return (() => { }).call();",
	"return (() => ({}).x)();",
	"return (() => ({})[0])();",
	"return (() => ({}) ? 1 : 2)();",
	"return (() => ({}, 1))();",
	"return (() => ({} = a))();",
	"return (() => function() {})();",
	"return (() => class {})();",
	"return (() => (function() {})())();",
	"return (() => (function() {}).name)();",
	"return (() => async function() {})();",
	"return (() => (a, b))();",
	"return (() => (a = b))();",
	"return (async () => {}) ? 1 : 2;",
	"return (() => {}) ? 1 : 2;",
	"return (() => {})`t`;",
	"return (() => {}).name;",
	"return (() => {})();",
	"return (function() {})();",
	"return (function() {}).name;",
	"return (class {}).name;",
	"return (class {})`t`;",
	"return new (class {})();",
	"return new (function() {})();",
	"return new (() => {})();",
	"(function() {})();",
	"(function() {}).call();",
	"(function() {})``;",
	"(function() {}) ? 1 : 2;",
	"(function() {}), 1;",
	"(function() {}) + 1;",
	"(function() {})\n.name;",
	"(class {}).name;",
	"(class {}), 1;",
	"(class { static x = H.p(1, 0) });",
	"({}).x;",
	"({}), 1;",
	"({} = a);",
	"({x: a} = {x: 1}); return a;",
	"({}).x = 1;",
	"({})[0];",
	"({}) ? 1 : 2;",
	"({})`t`;",
	"({}) + 1;",
	"({x() {}}).x();",
	"(async function() {})();",
	"(async () => {})();",
	"(let_ => let_)(1);",
	"var let_; (let_)[0];",
	"(async)(1);",
	"var async = H.f(1, 0); async(1); (async)(1); async\n(2); return async;",
	"var async = 1; return async\n+ 1;",
	"var async = {x: 1}; return async.x;",
	"var async = 1; return {async};",
	"var get = 1, set = 2, static_ = 3; return {get, set};",
	"var of = 1, from = 2, as = 3, type = 4, target = 5, meta = 6, accessor = 7, using = 8; return [of, from, as, type, target, meta, accessor, using];",
	"var x = {async: 1, await: 2, yield: 3, let: 4, static: 5, new: 6, class: 7, function: 8, if: 9, null: 10, true: 11, NaN: 12}; return x;",
	"var x = {'a b': 1, 'a-b': 2, '1': 3, '01': 4, '1e3': 5, '-1': 6, '1.5': 7, '0x10': 8, '': 9, 'é': 10}; return x;",
	"var x = {1: 1, 01: 2, 1e3: 3, 1.5: 4, 0x10: 5, 1n: 6, .5: 7, 1_0: 8}; return x;",
	"var x = class { static 1 = 1; static 1e3 = 3; static 1.5 = 4; static 0x10 = 5; static 1n = 6; static .5 = 7 }; return x;",
	"var x = {__proto__: null}; return Object.getPrototypeOf(x);",
	"var x = {'__proto__': null}; return Object.getPrototypeOf(x);",
	"var x = {['__proto__']: null}; return Object.getPrototypeOf(x) === Object.prototype;",
	"var __proto__ = null; var x = {__proto__}; return Object.getPrototypeOf(x) === Object.prototype;",
	"var x = {__proto__() {}}; return Object.getPrototypeOf(x) === Object.prototype;",
	"return [,];",
	"return [,,];",
	"return [, a];",
	"return [a, , b];",
	"return [a, ,];",
	"return [...a, , ...b];",
	"var [, x] = [1, 2]; var [y, , z] = [1, 2, 3]; return [x, y, z];",
	"return `a${b}c${`d${c}`}`;",
	"return `\\${a}`;",
	"return `$\\{a}`;",
	"return `${a}${b}`;",
	"return `\\``;",
	"return `\n`;",
	"return `\\\n`;",
	"return `\r\n`;",
	"return '\\\n';",
	"return String.raw`\\u`;",
	"return String.raw`\\xg${1}\\u{`;",
	"return (s => s[0])`\\u`;",
	"return '</script>';",
	"return `</script>`;",
	"return '</SCRIPT' + '<\\/script';",
	"return /<\\/script/.source;",
	"return a</script/.lastIndex;",
	"return '<!--' + '-->';",
	"// comment </script>\nreturn 1;",
	"/* </script> */ return 1;",
	"return a//b\n/c/1;",
	"return a/*b*//c/1;",
	"return a /* x */ + /* y */ b;",
	"debugger; return 1;",
	"with ({x: 1}) { return x }",
	"return 010 + 08 + 0.5e1;",
	"return '\\07' + '\\8' + '\\0';",
	"var \\u0061bc = 1; return abc;",
	"var a\\u{62}c = 1; return abc;",
	"return {\\u0061bc: 1};",
	"var x = {}; x.\\u0069f = 1; return x;",
	"var x = {}; return x?.\\u0069f;",
	"var x = class { \\u0073tatic() { return 1 } }; return Object.getOwnPropertyNames(x.prototype);",
	"return a?.5:1;",
	"return a?.5e1:1;",
	"return a ? .5 : 1;",
	"return a?b:c?.5:2;",
	"return a?.[.5];",
	"return 1<2>3;",
	"return a<b>(c);",
	"return a<b>c;",
	"return (a < b) > (c);",
	"return a >>> b >> c > 1;",
	"return a < (b << c);",
	"return x => x in a;",
	"return [x => x, y => y];",
	"return ((x) => x) || 1;",
	"return 1 || ((x) => x);",
	"return a ? (x) => x : (y) => y;",
	"return a ? x => ({}) : 1;",
	"return (x) => (y) => [x, y];",
	"return async x => await x;",
	"return async (x) => { await x };",
	"return async function* () { yield await 1; yield* []; for await (var x of []) ; };",
	"return function* () { var x = yield; yield (yield 1, 2); yield [yield]; };",
	"return function* () { yield a ? 1 : 2; yield (a, b); return yield };",
	"return function* () { (yield) ? 1 : 2; (yield a) + 1; -(yield); (yield).x; (yield)(); new (yield); `${yield}`; [...yield]; ({[yield]: yield}) };",
	"return async function () { (await a) ? 1 : 2; (await a) + 1; -(await a); (await a).x; (await a)(); new (await a); (await a) ** 2; await (a ** 2); await (a, b); await (() => 1); await (async () => 1)(); await -a; await !a; await typeof a; await await a };",
	"return class A extends (a, Object) {};",
	"return class A extends (a ? Object : Array) {};",
	"return class A extends (() => {}).constructor {};",
	"return class A extends (function() {}) {};",
	"return class A extends (class {}) {};",
	"return class A extends Object?.constructor {};",
	"return class A extends (a = Object) {};",
	"return class A extends (new Function) {};",
	"return class A extends new Function {};",
	"return class A extends Object.x?.y {};",
	"return class A extends Object`t` {};",
	"return class A extends (async () => {}).constructor {};",
	"return class extends Object { constructor() { super(); super.x; super['y']; super.z(); } m() { return super.m } static s() { return super.s } };",
	"return {m() { return super.x }, get g() { return super.g }};",
	"return class { static #x = 1; #y = 2; static #m() {} get #g() { return 1 } set #g(v) {} static has(o) { return #x in o && #y in o } static t() { this.#x++; this.#x **= 2; this.#m(); this.#m``; return this.#x } };",
	"return class { static accessor a = 1; accessor b; static accessor #c = 3; accessor [a] = 4 };",
	"return class { static { var x = 1; this.y = x; } static { } };",
	"return class { static async *[Symbol.iterator]() {} static get [a]() { return 1 } static set [a](v) {} [b] = 1; static [c]; };",
	"return class { 'constructor'() {} };",
	"return class { constructor() { this.x = new.target } };",
	"return import('x');",
	"return import('x', {with: {type: 'json'}});",
	"return typeof import('x').then;",
	"return new (import('x').constructor)(() => {});",
	"return a ?. b;",
	"return a ?. (b);",
	"return a ?. [b];",
	"return a?.b?.();",
	"return a?.b\n?.c;",
	"return a?.\nb;",
	"if (a) ; else ;",
	"if (a) {} else {}",
	"for (;;) break;",
	"for (;a;) break;",
	"while (a) break; return 1;",
	"do break; while (a)",
	"switch (a) {}",
	"switch (a) { default: }",
	"switch (a) { case 1: case 2: default: case 3: }",
	"switch (a) { case 1: { let x } case 2: { let x } }",
	"switch (a) { case 1: let x = 1; default: return typeof x }",
	"try {} catch {} finally {}",
	"try { throw 1 } catch ({message}) {} try { throw 1 } catch ([x]) {}",
	"try { throw 1 } catch (e) { var e = 2; return e }",
	"L: L2: { break L2 }",
	"var [x, y = x, ...z] = [1]; var {p, q = p, ...r} = {p: 1}; return [x, y, z, p, q, r];",
	"var x = 1, y = 2; [x, y] = [y, x]; ({x, y} = {x: y, y: x}); return [x, y];",
	"let x = 1; { let x = 2; { let x = 3 } } return x;",
	"const x = 1; return (() => { const x = 2; return x })() + x;",
	"var x = 1; function f(x = x) {} return typeof f;",
	"function f(a, b = a, {c} = {}, [d] = [], ...e) { return arguments.length } return f.length;",
	"function f() { 'use strict'; 'use asm'; 'x'; return 1 } return f();",
	"'use strict'; 'other'; return 1;",
	"return (function() { 'use strict', 1; return typeof this }).call(1);",
	"return (function() { 'use strict' + 1; return typeof this }).call(1);",
	"return (function() { 'use strict'.x; return typeof this }).call(1);",
	"return (function() { 'use strict'\n.x; return typeof this }).call(1);",
	"return (function() { 'use strict'\n`t`; return typeof this }).call(1);",
	"return (function() { 'use strict'\n(1); return typeof this }).call(1);",
	"return (function() { 'use strict'\n[1]; return typeof this }).call(1);",
	"return (function() { 'use strict'\n+1; return typeof this }).call(1);",
	"return (function() { 'use strict'\n1; return typeof this }).call(1);",
	"return (() => { 'use strict'; return typeof this }).call(1);",
	"return {m() { 'use strict'; return typeof this }}.m.call(1);",
	"return class { static m() { 'not a directive'; return 1 } }.m();",
	// labels on loops whose head is rewritten (Annex B for-in initializers), label sets (a: b: loop) and `in`
	// inside a for-loop initializer below yield (the printer must keep the parentheses)
	"L: for (var k = H.p(1, 5) in H.p(2, {x: 1, y: 2})) { H.p(3, k); if (k === 'x') continue L; break L; } return k;",
	"var out = []; L: for (var k = H.p(1, 5) in H.p(2, {})) { continue L; } out.push(k); return out;",
	"L: M: for (var k = 7 in {x: 1}) { H.p(1, k); continue L; } return k;",
	"L: M: while (H.p(1, c)) { c = 0; continue L; } return 1;",
	"L: M: for (var i = 0; i < 2; i++) { H.p(1, i); if (i) break M; continue L; } return i;",
	"if (a) L: for (var k = H.p(1, 3) in {x: 1}) { continue L } return k;",
	"for (var k = H.p(1, 3) in {x: 1}) { H.p(2, k) } return k;",
	"var it = (function*() { for (var x = yield ('x' in {x: 1}); H.p(1, x); ) { return x } })(); it.next(); return it.next(a).value;",
	"var it = (function*() { for (var x = (yield 'x' in {x: 1}, 2); ; ) { return x } })(); return [it.next().value, it.next(a).value];",
	"var it = (function*() { for (var x = [yield 'x' in {x: 1}]; ; ) { return x } })(); return [it.next().value, it.next(a).value];",
	"var it = (function*() { for (var x = yield* ('x' in {x: 1} ? [1] : [2]); ; ) { return x } })(); return [it.next().value, it.next(a).value];",
	"var it = (function*() { for (var x = yield yield ('y' in {x: 1}); ; ) { return x } })(); return [it.next().value, it.next(a).value, it.next(b).value];",
	"for (var f = () => H.p(1, ('x' in {x: 1})); ; ) { return f() }",
	"for (var f = async () => ('x' in {x: 1}); ; ) { return typeof f }",
	"for (var x = a ? ('x' in {x: 1}) : ('y' in {x: 1}); ; ) { return x }",
	"for (var x = H.p(1, a) || ('x' in {x: 1}), y = !('x' in {}); ; ) { return [x, y] }",
	// call expressions as assignment targets: a run-time ReferenceError, only when evaluated (recorded finding in C13)
	"if (H.p(1, 0)) { H.f(2, 1)()++; } return 2;",
	"if (H.p(1, 0)) { for (H.f(2, 1)() in {x: 1}) ; } return 2;",
}

func asiSpace() xseg {
	return xseg{"asi-and-token-hazards", uint64(len(asiHazards)), func(i uint64) xcase {
		kind := ""
		return xcase{code: xProgram(asiHazards[i], kind), label: "asi"}
	}}
}
