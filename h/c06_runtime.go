package main

// C06 relation 3: TypeScript-only runtime constructs behave as the language defines.

import (
	"fmt"
	"os"
	"path/filepath"
	"strings"

	"github.com/evanw/esbuild/pkg/api"
)

type enumExpr struct {
	ts  string // as written inside the enum (bare member references)
	js  string // reference JavaScript (member references qualified with E.)
	str bool
}

func c06NumLeaves() []enumExpr {
	var out []enumExpr
	for _, l := range []string{"0", "1", "2", "3.5", "31", "32", "2147483647", "4294967295", "1e21", "0x10", "0.1"} {
		out = append(out, enumExpr{l, l, false})
	}
	out = append(out, enumExpr{"A", "E.A", false}, enumExpr{"B", "E.B", false}, enumExpr{"E.A", "E.A", false}, enumExpr{"E[\"B\"]", "E[\"B\"]", false}, enumExpr{"F.X", "F.X", false}, enumExpr{"-1", "-1", false}, enumExpr{"(2)", "(2)", false})
	return out
}

var c06NumBin = []string{"+", "-", "*", "/", "%", "<<", ">>", ">>>", "&", "|", "^"}
var c06NumUn = []string{"-", "~", "+"}

func c06EnumExprs(tier string) []enumExpr {
	leaves := c06NumLeaves()
	out := append([]enumExpr{}, leaves...)
	var d1 []enumExpr
	for _, u := range c06NumUn {
		for _, l := range leaves {
			if strings.HasPrefix(l.ts, "-") {
				continue
			}
			d1 = append(d1, enumExpr{u + l.ts, u + l.js, false})
		}
	}
	// exponentiation: exact cases only (finite non-integer powers may legitimately differ in the last digit)
	for _, e := range [][2]string{{"2 ** 3", "2 ** 3"}, {"A ** 2", "E.A ** 2"}, {"2 ** -1", "2 ** -1"}, {"(-2) ** 2", "(-2) ** 2"}, {"B ** B", "E.B ** E.B"}, {"2 ** 31", "2 ** 31"}, {"2 ** 0.5 * 0", "2 ** 0.5 * 0"}, {"0 ** 0", "0 ** 0"}, {"2 ** 1024", "2 ** 1024"}, {"(-8) ** (1 / 3)", "(-8) ** (1 / 3)"}} {
		d1 = append(d1, enumExpr{e[0], e[1], false})
	}
	for _, op := range c06NumBin {
		for _, l := range leaves {
			for _, r := range leaves {
				if op == "**" && (strings.HasPrefix(l.ts, "-") || strings.HasPrefix(l.ts, "+") || strings.HasPrefix(l.ts, "~")) {
					continue
				}
				d1 = append(d1, enumExpr{l.ts + " " + op + " " + r.ts, l.js + " " + op + " " + r.js, false})
			}
		}
	}
	out = append(out, d1...)
	// depth 2: op over (d1 sample, leaf) both sides
	step := 17
	if tier != "quick" {
		step = 2
	}
	for oi, op := range c06NumBin {
		for i := oi; i < len(d1); i += step {
			l := d1[i]
			r := leaves[i%len(leaves)]
			out = append(out, enumExpr{"(" + l.ts + ") " + op + " " + r.ts, "(" + l.js + ") " + op + " " + r.js, false})
			out = append(out, enumExpr{r.ts + " " + op + " (" + l.ts + ")", r.js + " " + op + " (" + l.js + ")", false})
		}
	}
	// strings
	strs := []enumExpr{{"\"s\"", "\"s\"", true}, {"'a' + 'b'", "'a' + 'b'", true}, {"`t`", "`t`", true}, {"S0", "E.S0", true}, {"S0 + \"x\"", "E.S0 + \"x\"", true}, {"`x${S0}y`", "`x${E.S0}y`", true}, {"`n${A}`", "`n${E.A}`", true},
		{"\"n\" + B", "\"n\" + E.B", true}, {"F.Y", "F.Y", true}, {"F.Y + S0", "F.Y + E.S0", true}, {"\"\\u2028\\ud800\"", "\"\\u2028\\ud800\"", true}, {"`a${\"b\"}c${1}`", "`a${\"b\"}c${1}`", true}, {"'it''s'"[0:0] + "\"q'\\\"\"", "\"q'\\\"\"", true}}
	out = append(out, strs...)
	return out
}

func c06EnumProgram(e enumExpr) (ts string, ref string) {
	decl := "enum F { X = 3, Y = \"fy\" }\n"
	refF := "var F; (function (F) { F[F[\"X\"] = 3] = \"X\"; F[\"Y\"] = \"fy\"; })(F || (F = {}));\n"
	if e.str {
		ts = decl + "enum E { A, B = 5, S0 = \"s0\", M = " + e.ts + " }\n"
		ref = refF + "var E; (function (E) { E[E[\"A\"] = 0] = \"A\"; E[E[\"B\"] = 5] = \"B\"; E[\"S0\"] = \"s0\"; E[\"M\"] = " + e.js + "; })(E || (E = {}));\n"
	} else {
		ts = decl + "enum E { A, B = 5, M = " + e.ts + ", N, S0 = \"s0\" }\n"
		ref = refF + "var E; (function (E) { E[E[\"A\"] = 0] = \"A\"; E[E[\"B\"] = 5] = \"B\"; E[E[\"M\"] = " + e.js + "] = \"M\"; E[E[\"N\"] = E.M + 1] = \"N\"; E[\"S0\"] = \"s0\"; })(E || (E = {}));\n"
	}
	use := "globalThis.__f = function() { return [E, E.M, E[\"M\"], typeof E.M, F]; };"
	return ts + use, ref + use
}

func c06ConstEnumProgram(e enumExpr) (ts string, ref string) {
	decl := "const enum F { X = 3, Y = \"fy\" }\n"
	if e.str {
		ts = decl + "const enum E { A, B = 5, S0 = \"s0\", M = " + e.ts + " }\n"
	} else {
		ts = decl + "const enum E { A, B = 5, M = " + e.ts + ", N, S0 = \"s0\" }\n"
	}
	js := strings.NewReplacer("E.A", "0", "E.B", "5", "E[\"B\"]", "5", "E.S0", "\"s0\"", "F.X", "3", "F.Y", "\"fy\"").Replace(e.js)
	n := "(" + js + ") + 1"
	if e.str {
		n = "0"
	}
	use := "globalThis.__f = function() { return [E.M, E[\"M\"], typeof E.M, E.A, F.X, " + map[bool]string{true: "0", false: "E.N"}[e.str] + "]; };"
	ref = "globalThis.__f = function() { return [(" + js + "), (" + js + "), typeof (" + js + "), 0, 3, " + n + "]; };"
	return ts + use, ref
}

type c06RT struct {
	name, ts, ref, tsconfig string
}

var c06RuntimeCases = []c06RT{
	// writes to an exported member from another block of the same (merged) namespace: every form of assignment target
	{"namespace-sibling-block-assignment", "namespace A { export let x = 1, y = 1, z = 1, w = [0], q = 1 } namespace A { x = 2; y++; z += 5; [w[0]] = [7]; ({q} = {q: 9}); export const seen = [x, y, z, w[0], q] }\nglobalThis.__f = () => [A.x, A.y, A.z, A.w, A.q, A.seen, typeof (globalThis as any).x, typeof (globalThis as any).q];",
		"var A; (function (A) { A.x = 1; A.y = 1; A.z = 1; A.w = [0]; A.q = 1; })(A || (A = {})); (function (A) { A.x = 2; A.y++; A.z += 5; [A.w[0]] = [7]; ({q: A.q} = {q: 9}); A.seen = [A.x, A.y, A.z, A.w[0], A.q]; })(A || (A = {}));\nglobalThis.__f = () => [A.x, A.y, A.z, A.w, A.q, A.seen, typeof globalThis.x, typeof globalThis.q];", ""},
	{"namespace-basic", "namespace N { export let a = 1; let hidden = 2; export function f() { return a + hidden } export class C {} export const {x, y: [z]} = {x: 5, y: [6]}; }\nglobalThis.__f = () => [N, N.f(), typeof N.C, Object.keys(N)];",
		"var N; (function (N) { N.a = 1; let hidden = 2; function f() { return N.a + hidden } N.f = f; class C {} N.C = C; ({x: N.x, y: [N.z]} = {x: 5, y: [6]}); })(N || (N = {}));\nglobalThis.__f = () => [N, N.f(), typeof N.C, Object.keys(N)];", ""},
	{"namespace-nested-merged", "namespace A.B.C { export let v = 1 } namespace A { export namespace B { export let u = 3 } export let w = B.C.v + 1 } namespace A.B { export let t = u + C.v }\nglobalThis.__f = () => [A, A.w, A.B.u, A.B.t];",
		"var A; (function (A) { let B; (function (B) { let C; (function (C) { C.v = 1; })(C = B.C || (B.C = {})); })(B = A.B || (A.B = {})); })(A || (A = {})); (function (A) { let B; (function (B) { B.u = 3; })(B = A.B || (A.B = {})); A.w = B.C.v + 1; })(A || (A = {})); (function (A) { let B; (function (B) { B.t = B.u + B.C.v; })(B = A.B || (A.B = {})); })(A || (A = {}));\nglobalThis.__f = () => [A, A.w, A.B.u, A.B.t];", ""},
	{"namespace-exported-let-mutation", "namespace N { export let n = 1; export function inc() { n++; return n } export const g = () => n } \nglobalThis.__f = () => [N.n, N.inc(), N.n, N.g(), (N.n = 10, N.inc()), N.g()];",
		"var N; (function (N) { N.n = 1; function inc() { N.n++; return N.n } N.inc = inc; N.g = () => N.n; })(N || (N = {}));\nglobalThis.__f = () => [N.n, N.inc(), N.n, N.g(), (N.n = 10, N.inc()), N.g()];", ""},
	{"namespace-merges-with-function-class-enum", "function fn() { return 1 } namespace fn { export let extra = 2 } class K { static s = 1 } namespace K { export let t = 3 } enum E { A } namespace E { export let help = 4 }\nglobalThis.__f = () => [fn(), fn.extra, K.s, K.t, E.A, E.help, E[0]];",
		"function fn() { return 1 } (function (fn) { fn.extra = 2; })(fn || (fn = {})); class K { static s = 1 } (function (K) { K.t = 3; })(K || (K = {})); var E; (function (E) { E[E[\"A\"] = 0] = \"A\"; })(E || (E = {})); (function (E) { E.help = 4; })(E || (E = {}));\nglobalThis.__f = () => [fn(), fn.extra, K.s, K.t, E.A, E.help, E[0]];", ""},
	{"enum-merging-and-shadowing", "enum E { A = 1, B = A * 2 } enum E { C = 10, D = E.A + C } function f(A: number) { enum E2 { A2 = 3, B2 = A2 + 1 } return [E2, A] }\nglobalThis.__f = () => [E, f(7)];",
		"var E; (function (E) { E[E[\"A\"] = 1] = \"A\"; E[E[\"B\"] = 2] = \"B\"; })(E || (E = {})); (function (E) { E[E[\"C\"] = 10] = \"C\"; E[E[\"D\"] = 11] = \"D\"; })(E || (E = {})); function f(A) { var E2; (function (E2) { E2[E2[\"A2\"] = 3] = \"A2\"; E2[E2[\"B2\"] = 4] = \"B2\"; })(E2 || (E2 = {})); return [E2, A] }\nglobalThis.__f = () => [E, f(7)];", ""},
	{"enum-member-shadowed-by-local", "enum E { A = 1, B = 2 } function f() { const E = {A: 'local'}; return E.A } function g(E: any) { return E.B } const enum CE { X = 5 } function h() { let CE = {X: 'l'}; return CE.X }\nglobalThis.__f = () => [f(), g({B: 'arg'}), h(), E.A, CE.X];",
		"var E; (function (E) { E[E[\"A\"] = 1] = \"A\"; E[E[\"B\"] = 2] = \"B\"; })(E || (E = {})); function f() { const E = {A: 'local'}; return E.A } function g(E) { return E.B } function h() { let CE = {X: 'l'}; return CE.X }\nglobalThis.__f = () => [f(), g({B: 'arg'}), h(), E.A, 5];", ""},
	{"enum-computed-and-keys", "let k = 3; enum E { A = k * 2, B = 'x'.length, 'quoted key' = 1, C = E['quoted key'] + 1, D = A }\nglobalThis.__f = () => [E, Object.keys(E)];",
		"let k = 3; var E; (function (E) { E[E[\"A\"] = k * 2] = \"A\"; E[E[\"B\"] = 'x'.length] = \"B\"; E[E[\"quoted key\"] = 1] = \"quoted key\"; E[E[\"C\"] = 2] = \"C\"; E[E[\"D\"] = E.A] = \"D\"; })(E || (E = {}));\nglobalThis.__f = () => [E, Object.keys(E)];", ""},
	{"parameter-properties", "class B { constructor(public q = 0) {} } class K extends B { y = this.x + 1; constructor(public x: number, private readonly z = x * 2, w?: number) { super(x); (this as any).order = Object.keys(this) } }\nglobalThis.__f = () => [new K(1), new K(1).order];",
		"class B { constructor(q = 0) { this.q = q } } class K extends B { constructor(x, z = x * 2, w) { super(x); this.x = x; this.z = z; this.y = this.x + 1; this.order = Object.keys(this) } }\nglobalThis.__f = () => [new K(1), new K(1).order];", `{"compilerOptions":{"useDefineForClassFields":false}}`},
	{"class-fields-assign-semantics", "class B { set y(v) { (globalThis as any).hit = v } } class K extends B { x; y = 1; static s; }\nglobalThis.__f = () => { globalThis.hit = 0; var k = new K; return [Object.keys(k), globalThis.hit, Object.keys(K)] };",
		"class B { set y(v) { globalThis.hit = v } } class K extends B { constructor() { super(...arguments); this.y = 1 } }\nglobalThis.__f = () => { globalThis.hit = 0; var k = new K; return [Object.keys(k), globalThis.hit, Object.keys(K)] };", `{"compilerOptions":{"useDefineForClassFields":false}}`},
	{"class-fields-define-semantics", "class B { set y(v) { (globalThis as any).hit = v } } class K extends B { x; y = 1; static s; }\nglobalThis.__f = () => { globalThis.hit = 0; var k = new K; return [Object.keys(k), globalThis.hit, Object.keys(K)] };",
		"class B { set y(v) { globalThis.hit = v } } class K extends B { x; y = 1; static s; }\nglobalThis.__f = () => { globalThis.hit = 0; var k = new K; return [Object.keys(k), globalThis.hit, Object.keys(K)] };", `{"compilerOptions":{"useDefineForClassFields":true}}`},
	{"class-fields-default-by-target-es2022", "class B { set y(v) { (globalThis as any).hit = v } } class K extends B { x; y = 1 }\nglobalThis.__f = () => { globalThis.hit = 0; var k = new K; return [Object.keys(k), globalThis.hit] };",
		"class B { set y(v) { globalThis.hit = v } } class K extends B { x; y = 1 }\nglobalThis.__f = () => { globalThis.hit = 0; var k = new K; return [Object.keys(k), globalThis.hit] };", `{"compilerOptions":{"target":"ES2022"}}`},
	{"class-fields-default-by-target-es2021", "class B { set y(v) { (globalThis as any).hit = v } } class K extends B { x; y = 1 }\nglobalThis.__f = () => { globalThis.hit = 0; var k = new K; return [Object.keys(k), globalThis.hit] };",
		"class B { set y(v) { globalThis.hit = v } } class K extends B { constructor() { super(...arguments); this.y = 1 } }\nglobalThis.__f = () => { globalThis.hit = 0; var k = new K; return [Object.keys(k), globalThis.hit] };", `{"compilerOptions":{"target":"ES2021"}}`},
	{"declare-field-and-abstract-emit-nothing", "abstract class K { declare d: number; abstract a: number; b = 2; abstract m(): void }\nglobalThis.__f = () => Object.keys(new (K as any));",
		"class K { b = 2 }\nglobalThis.__f = () => Object.keys(new K);", `{"compilerOptions":{"useDefineForClassFields":true}}`},
	{"always-strict", "function f() { return this } \nglobalThis.__f = () => typeof f();", "'use strict'; function f() { return this } \nglobalThis.__f = () => typeof f();", `{"compilerOptions":{"alwaysStrict":true}}`},
	{"strict-implies-always-strict", "function f() { return this } \nglobalThis.__f = () => typeof f();", "'use strict'; function f() { return this } \nglobalThis.__f = () => typeof f();", `{"compilerOptions":{"strict":true}}`},
	{"not-strict", "function f() { return this } \nglobalThis.__f = () => typeof f();", "function f() { return this } \nglobalThis.__f = () => typeof f();", `{"compilerOptions":{"strict":false}}`},
	{"optional-chain-non-null", "let a: any = null, b: any = {c: {d: 1}};\nglobalThis.__f = () => [a?.b!.c, a?.b!.c.d, (a?.b)!, b?.c!.d, b!?.c];", "let a = null, b = {c: {d: 1}};\nglobalThis.__f = () => [a?.b.c, a?.b.c.d, (a?.b), b?.c.d, b?.c];", ""},
	{"generic-call-vs-comparison", "let f: any = (x: any) => x, a = 1, b = 2, c = 3;\nglobalThis.__f = () => [f<number>(a), (a < b) > (c), a < b > c];", "let f = (x) => x, a = 1, b = 2, c = 3;\nglobalThis.__f = () => [f(a), (a < b) > (c), a < b > c];", ""},
}

func c06Runtime(c *Check) {
	pool := NewNodePool("")
	defer pool.Close()
	exprs := c06EnumExprs(c.Tier)
	c.Set("enum_initialiser_expressions", len(exprs))
	calls := []interface{}{[]interface{}{}}
	const B = 16
	nb := (uint64(len(exprs)) + B - 1) / B
	c.ForEach(nb, func(w int, bi uint64) {
		var rcs []runCase
		type meta struct {
			ts   string
			cfgs []string
		}
		var metas []meta
		for i := bi * B; i < (bi+1)*B && i < uint64(len(exprs)); i++ {
			e := exprs[i]
			for variant := 0; variant < 2; variant++ {
				var ts, ref string
				if variant == 0 {
					ts, ref = c06EnumProgram(e)
				} else {
					ts, ref = c06ConstEnumProgram(e)
				}
				codes := []string{ref}
				cfgs := []string{"reference"}
				for _, o := range []struct {
					n string
					o api.TransformOptions
				}{{"ts", api.TransformOptions{Loader: api.LoaderTS}}, {"ts+minify-syntax", api.TransformOptions{Loader: api.LoaderTS, MinifySyntax: true}}, {"ts+es2015", api.TransformOptions{Loader: api.LoaderTS, Target: api.ES2015}}, {"ts+iife+minify", api.TransformOptions{Loader: api.LoaderTS, Format: api.FormatIIFE, MinifySyntax: true, MinifyIdentifiers: true}}} {
					out, ok, errs := transformJS(ts, o.o)
					if !ok {
						c.Violation("enum-rejected:"+ts, map[string]interface{}{"kind": "valid enum rejected", "ts": ts, "errors": jsonStr(errs)})
						continue
					}
					c.Distinct(out)
					codes = append(codes, out)
					cfgs = append(cfgs, o.n)
				}
				c.Eval(1)
				rcs = append(rcs, runCase{Codes: codes, Calls: calls, Fresh: true})
				metas = append(metas, meta{ts, cfgs})
			}
		}
		res := nodeRun(pool.Get(w), rcs)
		for i, obs := range res {
			if strings.HasPrefix(obs[0], "eval-throw") {
				c.Sub("enum_reference_invalid(generator)", 1)
				continue
			}
			for k := 1; k < len(obs); k++ {
				if obs[k] != obs[0] {
					c.Violation("enum:"+metas[i].cfgs[k]+":"+metas[i].ts, map[string]interface{}{"kind": "enum value differs from TypeScript semantics", "config": metas[i].cfgs[k], "ts": metas[i].ts, "reference_js": rcs[i].Codes[0], "output": rcs[i].Codes[k], "expected": obs[0], "observed": obs[k]})
				}
			}
		}
	})
	// explicit runtime cases
	for _, rc := range c06RuntimeCases {
		codes := []string{rc.ref}
		cfgs := []string{"reference"}
		for _, o := range []struct {
			n string
			o api.TransformOptions
		}{{"ts", api.TransformOptions{Loader: api.LoaderTS}}, {"ts+minify", api.TransformOptions{Loader: api.LoaderTS, MinifySyntax: true, MinifyWhitespace: true}}, {"ts+es2017", api.TransformOptions{Loader: api.LoaderTS, Target: api.ES2017}}} {
			o.o.TsconfigRaw = rc.tsconfig
			if strings.Contains(rc.tsconfig, "\"target\"") && o.n == "ts+es2017" {
				continue
			}
			out, ok, errs := transformJS(rc.ts, o.o)
			c.Eval(1)
			if !ok {
				c.Violation("rt-rejected:"+rc.name, map[string]interface{}{"kind": "valid TypeScript rejected", "case": rc.name, "errors": jsonStr(errs)})
				continue
			}
			c.Distinct(out)
			codes = append(codes, out)
			cfgs = append(cfgs, o.n)
		}
		obs := nodeRun(pool.Get(0), []runCase{{Codes: codes, Calls: calls, Fresh: true, NoNames: true}})[0]
		for k := 1; k < len(obs); k++ {
			if obs[k] != obs[0] {
				c.Violation("rt:"+rc.name+":"+cfgs[k], map[string]interface{}{"kind": "TypeScript runtime construct behaves differently from the reference emit", "case": rc.name, "config": cfgs[k], "ts": rc.ts, "output": codes[k], "expected": obs[0], "observed": obs[k]})
			}
		}
	}
	c06CrossModule(c, pool)
	c06Imports(c)
}

// const enum / enum inlining across modules under bundling.
func c06CrossModule(c *Check, pool *NodePool) {
	root := scratchRoot("c06")
	defer os.RemoveAll(root)
	exprs := c06EnumExprs("quick")
	step := 29
	if c.Tier != "quick" {
		step = 2
	}
	n := 0
	var jobs []enumExpr
	for i := 0; i < len(exprs); i += step {
		jobs = append(jobs, exprs[i])
	}
	c.ForEach(uint64(len(jobs)), func(w int, i uint64) {
		e := jobs[i]
		dir := filepath.Join(root, fmt.Sprintf("m%d", i))
		var enumSrc string
		if e.str {
			enumSrc = "export enum F { X = 3, Y = \"fy\" }\nexport const enum E { A, B = 5, S0 = \"s0\", M = " + e.ts + " }\nexport enum R { A, B = 5, S0 = \"s0\", M = " + strings.ReplaceAll(e.ts, "E.", "R.") + " }\n"
		} else {
			enumSrc = "export enum F { X = 3, Y = \"fy\" }\nexport const enum E { A, B = 5, M = " + e.ts + ", N }\nexport enum R { A, B = 5, M = " + strings.ReplaceAll(strings.ReplaceAll(e.ts, "E.", "R."), "E[", "R[") + ", N }\n"
		}
		writeTree(dir, map[string]string{
			"enums.ts": enumSrc,
			"entry.ts": "import { E, R, F } from './enums';\nimport * as ns from './enums';\n(globalThis as any).__f = () => [E.M, E[\"M\"], R.M, R[\"M\"], ns.R.M, ns.F.X, E.A, typeof E.M, R[R.A]];",
			"local.ts": enumSrc + "(globalThis as any).__f = () => [E.M, E[\"M\"], R.M, R[\"M\"], R.M, F.X, E.A, typeof E.M, R[R.A]];",
		})
		get := func(entry string, minify bool) (string, bool) {
			r := api.Build(api.BuildOptions{EntryPoints: []string{filepath.Join(dir, entry)}, Bundle: true, Write: false, Format: api.FormatIIFE, MinifySyntax: minify, LogLevel: api.LogLevelSilent, Outdir: filepath.Join(dir, "out")})
			if len(r.Errors) > 0 || len(r.OutputFiles) == 0 {
				return jsonStr(r.Errors), false
			}
			return string(r.OutputFiles[0].Contents), true
		}
		ref, ok0 := get("local.ts", false)
		if !ok0 {
			c.Sub("cross_module_reference_rejected", 1)
			return
		}
		codes := []string{ref}
		for _, m := range []bool{false, true} {
			o, ok := get("entry.ts", m)
			if !ok {
				c.Violation("xmod-rejected:"+e.ts, map[string]interface{}{"kind": "cross-module enum bundle rejected", "expr": e.ts, "errors": o})
				return
			}
			c.Distinct(o)
			codes = append(codes, o)
		}
		c.Eval(1)
		obs := nodeRun(pool.Get(w), []runCase{{Codes: codes, Calls: []interface{}{[]interface{}{}}, Fresh: true}})[0]
		for k := 1; k < len(obs); k++ {
			if obs[k] != obs[0] {
				c.Violation("xmod:"+e.ts, map[string]interface{}{"kind": "enum value inlined across modules differs from the same enum used locally", "expr": e.ts, "output": codes[k], "expected": obs[0], "observed": obs[k]})
			}
		}
		os.RemoveAll(dir)
	})
	_ = n
	c06EnumUseSites(c, pool, root)
}

// c06EnumUseSites: an enum member whose value is known (negative, -0, large, fractional, string) reached through every
// access form from another module, in every kind of use site whose printing depends on the printed form of the value
// (base of **, operand of unary and binary minus, member access on the value, template hole, computed key, ...).
// Reference: the same expression with the literal value written out.
func c06EnumUseSites(c *Check, pool *NodePool, root string) {
	type member struct{ name, init, lit string }
	members := []member{{"NEG", "-1", "(-1)"}, {"NZ", "-0", "(-0)"}, {"FIVE", "5", "(5)"}, {"BIG", "1e21", "(1e21)"}, {"FRAC", "-1.5", "(-1.5)"}, {"STR", "\"s\"", "(\"s\")"}, {"ZERO", "0", "(0)"}, {"NEGBIG", "-1e21", "(-1e21)"}}
	access := []string{"E.%s", "E[\"%s\"]", "R.%s", "R[\"%s\"]", "ns.R.%s", "ns.E.%s", "ns.R[\"%s\"]"}
	uses := []string{"X ** 2", "2 ** X", "X.toString()", "X[\"toString\"]()", "1 - X", "1 + X", "-X", "- -X", "+X", "typeof X", "`${X}`", "[X][0]", "({[X]: 1})", "1 / X", "X ? 1 : 2", "!X", "void X", "X in {}", "X instanceof Object", "(X, 1)", "X == 1", "X?.constructor.name", "new Object(X)", "String(X)", "X < 0", "(() => X)()", "X | 0", "~X", "X .constructor === Number"}
	var enumDecl strings.Builder
	enumDecl.WriteString("export const enum E {")
	for _, m := range members {
		enumDecl.WriteString(" " + m.name + " = " + m.init + ",")
	}
	enumDecl.WriteString(" }\nexport enum R {")
	for _, m := range members {
		enumDecl.WriteString(" " + m.name + " = " + m.init + ",")
	}
	enumDecl.WriteString(" }\n")
	type job struct{ expr, ref string }
	var jobs []job
	for _, m := range members {
		for _, a := range access {
			acc := fmt.Sprintf(a, m.name)
			for _, u := range uses {
				jobs = append(jobs, job{strings.ReplaceAll(u, "X", acc), strings.ReplaceAll(u, "X", m.lit)})
			}
		}
	}
	const B = 40
	nb := (len(jobs) + B - 1) / B
	c.ForEach(uint64(nb), func(w int, bi uint64) {
		lo, hi := int(bi)*B, (int(bi)+1)*B
		if hi > len(jobs) {
			hi = len(jobs)
		}
		dir := filepath.Join(root, fmt.Sprintf("u%d", bi))
		var body, ref []string
		for _, j := range jobs[lo:hi] {
			body = append(body, "() => "+j.expr)
			ref = append(ref, "() => "+j.ref)
		}
		run := "(fs => fs.map(f => { try { return f() } catch (e) { return 'throw ' + e.name } }))"
		writeTree(dir, map[string]string{
			"enums.ts": enumDecl.String(),
			"entry.ts": "import { E, R } from './enums';\nimport * as ns from './enums';\n(globalThis as any).__f = () => " + run + "([" + strings.Join(body, ",\n") + "]);",
		})
		refCode := "globalThis.__f = () => " + run + "([" + strings.Join(ref, ",\n") + "]);"
		codes := []string{refCode}
		names := []string{"reference"}
		// the same use sites in the file that declares the enums (values inlined by the parser), plain transform
		localBody := strings.NewReplacer("ns.R", "R", "ns.E", "E").Replace(strings.Join(body, ",\n"))
		for _, minify := range []bool{false, true} {
			r := api.Transform(strings.ReplaceAll(enumDecl.String(), "export ", "")+"(globalThis as any).__f = () => "+run+"(["+localBody+"]);", api.TransformOptions{Loader: api.LoaderTS, MinifySyntax: minify, LogLevel: api.LogLevelSilent})
			c.Eval(1)
			if len(r.Errors) == 0 {
				c.Distinct(string(r.Code))
				codes = append(codes, string(r.Code))
				names = append(names, fmt.Sprintf("same-file-transform-minify=%v", minify))
			}
		}
		for _, cfg := range []struct {
			name   string
			minify bool
			ws     bool
		}{{"bundle", false, false}, {"bundle-minify-syntax", true, false}, {"bundle-minify-all", true, true}} {
			r := api.Build(api.BuildOptions{EntryPoints: []string{filepath.Join(dir, "entry.ts")}, Bundle: true, Write: false, Format: api.FormatIIFE, MinifySyntax: cfg.minify, MinifyWhitespace: cfg.ws, MinifyIdentifiers: cfg.ws, LogLevel: api.LogLevelSilent, Outdir: filepath.Join(dir, "out")})
			c.Eval(1)
			if len(r.Errors) > 0 || len(r.OutputFiles) == 0 {
				c.Violation(fmt.Sprintf("xmod-use-rejected:%s:%d", cfg.name, bi), map[string]interface{}{"kind": "cross-module enum use sites: bundle rejected", "config": cfg.name, "errors": jsonStr(r.Errors)})
				continue
			}
			c.Distinct(string(r.OutputFiles[0].Contents))
			codes = append(codes, string(r.OutputFiles[0].Contents))
			names = append(names, cfg.name)
		}
		obs := nodeRun(pool.Get(w), []runCase{{Codes: codes, Calls: []interface{}{[]interface{}{}}, Fresh: true}})[0]
		for k := 1; k < len(obs); k++ {
			c.Sub("enum_use_site_batches", 1)
			if obs[k] != obs[0] {
				var exprs []string
				for _, j := range jobs[lo:hi] {
					exprs = append(exprs, j.expr)
				}
				c.Violation(fmt.Sprintf("xmod-use:%s:%s", names[k], exprs[0]), map[string]interface{}{"kind": "enum member used through another module behaves differently from its literal value", "config": names[k], "expressions": exprs, "output": trunc(codes[k], 3000), "expected": obs[0], "observed": obs[k]})
			}
		}
		os.RemoveAll(dir)
	})
}
