package main

// E4: persistent Node oracle workers (JSON lines over stdio).

import (
	"bufio"
	"encoding/json"
	"fmt"
	"io"
	"os"
	"os/exec"
	"path/filepath"
	"sync"
	"time"
)

type Node struct {
	mu     sync.Mutex
	script string
	cmd    *exec.Cmd
	in     io.WriteCloser
	out    *bufio.Reader
	calls  int
	bin    string
	args   []string
}

func nodeBin(version string) string {
	if version == "" {
		version = "20"
	}
	m, _ := filepath.Glob("/root/.nvm/versions/node/v" + version + ".*/bin/node")
	if len(m) == 0 {
		fatalf("node %s not installed", version)
	}
	return m[0]
}

func StartNode(version string, extra ...string) *Node {
	n := &Node{bin: nodeBin(version)}
	n.args = append([]string{"--experimental-vm-modules", "--no-warnings", "--stack-size=900"}, extra...)
	n.args = append(n.args, filepath.Join(verifRoot, "js", "worker.js"))
	n.start()
	return n
}

// StartScript starts another JSON-lines worker script (e.g. the Chrome driver) under Node 20.
func StartScript(script string) *Node {
	n := &Node{bin: nodeBin(""), script: script}
	n.args = []string{filepath.Join(verifRoot, "js", script)}
	n.start()
	return n
}

func (n *Node) start() {
	n.cmd = exec.Command(n.bin, n.args...)
	n.cmd.Stderr = os.Stderr
	var err error
	n.in, err = n.cmd.StdinPipe()
	if err != nil {
		fatalf("node pipe: %v", err)
	}
	o, _ := n.cmd.StdoutPipe()
	n.out = bufio.NewReaderSize(o, 1<<20)
	if err := n.cmd.Start(); err != nil {
		fatalf("node start: %v", err)
	}
	n.calls = 0
}

func (n *Node) Close() {
	if n == nil || n.cmd == nil {
		return
	}
	n.in.Close()
	n.cmd.Wait()
	n.cmd = nil
}

// Call sends one request and decodes the response into resp. A worker that dies is an
// infrastructure error (exit 2), never a verdict.
func (n *Node) Call(req interface{}, resp interface{}) {
	if !n.CallT(req, resp, 10*time.Minute) {
		fatalf("node worker did not answer within 10 minutes")
	}
}

// CallT is Call with a watchdog: if the worker does not answer in time it is killed and
// restarted and false is returned (the caller decides what a hang means).
func (n *Node) CallT(req interface{}, resp interface{}, limit time.Duration) bool {
	answered, crashed := n.CallC(req, resp, limit, false)
	_ = crashed
	return answered
}

// CallC is CallT that can survive a worker crash (the engine aborting on an input, e.g. a failed assertion inside
// Node while it formats a SyntaxError): with crashOK the worker is restarted and crashed=true is returned instead
// of an infrastructure error, so that the caller can isolate the offending case.
func (n *Node) CallC(req interface{}, resp interface{}, limit time.Duration, crashOK bool) (answered bool, crashed bool) {
	n.mu.Lock()
	defer n.mu.Unlock()
	if n.calls > 4000 {
		n.Close()
		n.start()
	}
	n.calls++
	data, err := json.Marshal(req)
	if err != nil {
		fatalf("marshal: %v", err)
	}
	data = append(data, '\n')
	if _, err := n.in.Write(data); err != nil {
		fatalf("node write: %v", err)
	}
	type rd struct {
		line []byte
		err  error
	}
	ch := make(chan rd, 1)
	out := n.out
	go func() {
		line, err := out.ReadBytes('\n')
		ch <- rd{line, err}
	}()
	select {
	case r := <-ch:
		if r.err != nil {
			if crashOK {
				n.cmd.Process.Kill()
				n.cmd.Wait()
				n.cmd = nil
				n.start()
				return false, true
			}
			fatalf("node read: %v (request %s)", r.err, trunc(string(data), 2000))
		}
		if err := json.Unmarshal(r.line, resp); err != nil {
			fatalf("node response: %v: %s", err, trunc(string(r.line), 500))
		}
		return true, false
	case <-time.After(limit):
		n.cmd.Process.Kill()
		n.cmd.Wait()
		n.cmd = nil
		n.start()
		return false, false
	}
}

// NodePool hands one Node per worker index.
type NodePool struct {
	mu      sync.Mutex
	nodes   map[int]*Node
	version string
	extra   []string
	script  string
}

func NewScriptPool(script string) *NodePool {
	return &NodePool{nodes: map[int]*Node{}, script: script}
}

func NewNodePool(version string, extra ...string) *NodePool {
	return &NodePool{nodes: map[int]*Node{}, version: version, extra: extra}
}

func (p *NodePool) Get(w int) *Node {
	p.mu.Lock()
	defer p.mu.Unlock()
	n := p.nodes[w]
	if n == nil {
		if p.script != "" {
			n = StartScript(p.script)
		} else {
			n = StartNode(p.version, p.extra...)
		}
		p.nodes[w] = n
	}
	return n
}

func (p *NodePool) Close() {
	p.mu.Lock()
	defer p.mu.Unlock()
	for _, n := range p.nodes {
		n.Close()
	}
	p.nodes = map[int]*Node{}
}

var _ = fmt.Sprint
