package main

import (
	"fmt"
	"math"
	"regexp"
	"strconv"
	"strings"
)

// Value comparison for computed styles. Chrome has already converted every colour to the normal form
// C(r,g,b,a) (8-bit sRGB grid) or CW(...) (outside sRGB); two computed values are equal when
//   - they are the same text, or
//   - they differ only in C() components by at most one 8-bit unit (and alpha by at most 0.005): esbuild converts
//     colour notations in float64 and rounds to the 8-bit grid once, Chrome converts in float32 and the two
//     roundings may land on adjacent grid points; and
//   - gradient colour-stop lists are compared after the CSS Images "colour stop fix-up" (a missing first
//     position is 0%, a missing last one is 100%, missing inner ones are spaced evenly, "C a b" is "C a, C b"),
//     which is the definition of the rendered gradient; esbuild deletes exactly these redundant positions.

var c12ColorRe = regexp.MustCompile(`\bC\((\d+),(\d+),(\d+),([\d.]+)\)`)
var c12GradRe = regexp.MustCompile(`\b(repeating-)?(linear|radial|conic)-gradient\(`)

func c12ValueEq(a, b string) bool {
	if a == b {
		return true
	}
	if strings.Contains(a, "gradient(") {
		a, b = c12NormGradients(a), c12NormGradients(b)
		if a == b {
			return true
		}
	}
	ma, mb := c12ColorRe.FindAllStringSubmatch(a, -1), c12ColorRe.FindAllStringSubmatch(b, -1)
	if len(ma) == 0 || len(ma) != len(mb) {
		return false
	}
	if c12ColorRe.ReplaceAllString(a, "C#") != c12ColorRe.ReplaceAllString(b, "C#") {
		return false
	}
	for i := range ma {
		for k := 1; k <= 3; k++ {
			x, _ := strconv.Atoi(ma[i][k])
			y, _ := strconv.Atoi(mb[i][k])
			if x-y > 1 || y-x > 1 {
				return false
			}
		}
		x, _ := strconv.ParseFloat(ma[i][4], 64)
		y, _ := strconv.ParseFloat(mb[i][4], 64)
		if math.Abs(x-y) > 0.0051 {
			return false
		}
	}
	return true
}

func c12SplitTop(s string) []string {
	var out []string
	depth, start := 0, 0
	for i := 0; i < len(s); i++ {
		switch s[i] {
		case '(':
			depth++
		case ')':
			depth--
		case ',':
			if depth == 0 {
				out = append(out, strings.TrimSpace(s[start:i]))
				start = i + 1
			}
		}
	}
	return append(out, strings.TrimSpace(s[start:]))
}

func c12SplitSpace(s string) []string {
	var out []string
	depth, start := 0, -1
	for i := 0; i < len(s); i++ {
		ch := s[i]
		if ch == '(' {
			depth++
		} else if ch == ')' {
			depth--
		}
		if ch == ' ' && depth == 0 {
			if start >= 0 {
				out = append(out, s[start:i])
				start = -1
			}
		} else if start < 0 {
			start = i
		}
	}
	if start >= 0 {
		out = append(out, s[start:])
	}
	return out
}

func c12NormGradients(v string) string {
	var sb strings.Builder
	last := 0
	for _, loc := range c12GradRe.FindAllStringIndex(v, -1) {
		if loc[0] < last {
			continue
		}
		depth, j := 0, loc[1]-1
		for ; j < len(v); j++ {
			if v[j] == '(' {
				depth++
			} else if v[j] == ')' {
				depth--
				if depth == 0 {
					break
				}
			}
		}
		if j >= len(v) {
			break
		}
		sb.WriteString(v[last:loc[1]])
		sb.WriteString(c12NormStops(v[loc[1]:j]))
		last = j
	}
	sb.WriteString(v[last:])
	return sb.String()
}

func c12NormStops(args string) string {
	parts := c12SplitTop(args)
	type stop struct {
		color string
		pos   float64
		has   bool
	}
	var head []string
	var stops []stop
	for _, p := range parts {
		toks := c12SplitSpace(p)
		if len(toks) == 0 || !(strings.HasPrefix(toks[0], "C(") || strings.HasPrefix(toks[0], "CW(")) {
			if len(stops) > 0 {
				return args // interpolation hint or something else between stops: leave alone
			}
			head = append(head, p)
			continue
		}
		if len(toks) > 3 {
			return args
		}
		var ps []float64
		for _, t := range toks[1:] {
			if !strings.HasSuffix(t, "%") {
				return args
			}
			f, err := strconv.ParseFloat(strings.TrimSuffix(t, "%"), 64)
			if err != nil {
				return args
			}
			ps = append(ps, f)
		}
		switch len(ps) {
		case 0:
			stops = append(stops, stop{toks[0], 0, false})
		case 1:
			stops = append(stops, stop{toks[0], ps[0], true})
		case 2:
			stops = append(stops, stop{toks[0], ps[0], true}, stop{toks[0], ps[1], true})
		}
	}
	if len(stops) < 2 {
		return args
	}
	if !stops[0].has {
		stops[0].pos, stops[0].has = 0, true
	}
	if n := len(stops) - 1; !stops[n].has {
		stops[n].pos, stops[n].has = 100, true
	}
	max := stops[0].pos
	for i := range stops {
		if stops[i].has {
			if stops[i].pos < max {
				stops[i].pos = max
			}
			max = stops[i].pos
		}
	}
	for i := 1; i < len(stops); i++ {
		if !stops[i].has {
			j := i
			for !stops[j].has {
				j++
			}
			lo, hi := stops[i-1].pos, stops[j].pos
			for k := i; k < j; k++ {
				stops[k].pos, stops[k].has = lo+(hi-lo)*float64(k-i+1)/float64(j-i+1), true
			}
		}
	}
	out := append([]string{}, head...)
	for _, s := range stops {
		out = append(out, fmt.Sprintf("%s %.4g%%", s.color, s.pos))
	}
	return strings.Join(out, ", ")
}

// c12Equal compares two observation blobs (lines of '|'-separated values)
func c12Equal(a, b string) bool {
	if a == b {
		return true
	}
	la, lb := strings.Split(a, "\n"), strings.Split(b, "\n")
	if len(la) != len(lb) {
		return false
	}
	for i := range la {
		if la[i] == lb[i] {
			continue
		}
		pa, pb := strings.Split(la[i], "|"), strings.Split(lb[i], "|")
		if len(pa) != len(pb) {
			return false
		}
		for k := range pa {
			if !c12ValueEq(pa[k], pb[k]) {
				return false
			}
		}
	}
	return true
}
