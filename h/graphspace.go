package main

// E1: module-graph space (shared by C02, C04, C10, C19): N<=3 modules (ESM .mjs / CommonJS .cjs),
// <=3 edges with one kind each, every module body logging its evaluation and its view of imports.

import (
	"fmt"
	"sort"
	"strings"
)

type gmod struct {
	id    string
	esm   bool
	style string // cjs export style: "exports", "fn", "esmodule"
	noX   bool   // ESM module without its own export "x" (export-star shadowing / ambiguity variants)
}

func (m gmod) file() string {
	if m.esm {
		return m.id + ".mjs"
	}
	return m.id + ".cjs"
}

type gedge struct {
	from, to int
	kind     string
}

type ggraph struct {
	mods    []gmod
	edges   []gedge
	throwIn int            // index of a module that throws at the end of its body, or -1
	extra   map[int]string // extra top-level statements per module (used by C04)
}

var gESMEdgeKinds = []string{"named", "default", "ns", "side", "reexport", "star", "starns", "dyn"}
var gCJSEdgeKinds = []string{"require", "lazyreq", "dyn", "reqfn"}

func (g *ggraph) String() string {
	var p []string
	for _, m := range g.mods {
		st := m.style
		if m.noX {
			st += ",no-x"
		}
		p = append(p, m.file()+"("+st+")")
	}
	var e []string
	for _, x := range g.edges {
		e = append(e, fmt.Sprintf("%s-%s->%s", g.mods[x.from].id, x.kind, g.mods[x.to].id))
	}
	s := strings.Join(p, ",") + " " + strings.Join(e, " ")
	if g.throwIn >= 0 {
		s += " throw:" + g.mods[g.throwIn].id
	}
	return s
}

// inCycle reports whether edge e closes a cycle (target can reach source).
func (g *ggraph) reaches(from, to int, seen map[int]bool) bool {
	if from == to {
		return true
	}
	if seen[from] {
		return false
	}
	seen[from] = true
	for _, e := range g.edges {
		if e.from == from && g.reaches(e.to, to, seen) {
			return true
		}
	}
	return false
}

// valid: CJS modules only require CJS modules; at most one top-level-await module; star re-export only
// from ES modules; dynamic edges fine everywhere.
func (g *ggraph) valid() bool {
	tla := 0
	tlaMods := map[int]bool{}
	for _, e := range g.edges {
		f, t := g.mods[e.from], g.mods[e.to]
		if f.esm {
			ok := false
			for _, k := range gESMEdgeKinds {
				if k == e.kind {
					ok = true
				}
			}
			if !ok {
				return false
			}
			if (e.kind == "star" || e.kind == "starns" || e.kind == "ns") && !t.esm && e.kind != "ns" {
				return false
			}
			if e.kind == "dyn" {
				tlaMods[e.from] = true
			}
		} else {
			ok := false
			for _, k := range gCJSEdgeKinds {
				if k == e.kind {
					ok = true
				}
			}
			if !ok {
				return false
			}
			if e.kind != "dyn" && t.esm {
				return false
			}
			if e.kind == "dyn" && g.reaches(e.to, e.from, map[int]bool{}) {
				return false // dynamic import closing a cycle from CommonJS crashes Node's own loader in some versions
			}
		}
		if e.from == e.to && e.kind != "side" && e.kind != "named" && e.kind != "require" {
			return false
		}
	}
	tla = len(tlaMods)
	if tla > 1 {
		return false
	}
	// independent asynchronous chains race (microtask timing is not part of the property): a non-awaited
	// dynamic import from CommonJS must be the only dynamic import of the graph
	cjsDyn, anyDyn := 0, 0
	for _, e := range g.edges {
		if e.kind == "dyn" {
			anyDyn++
			if !g.mods[e.from].esm {
				cjsDyn++
			}
		}
		if e.kind == "starns" && g.reaches(e.to, e.from, map[int]bool{}) {
			return false // namespace objects that contain each other
		}
	}
	if cjsDyn > 0 && anyDyn > 1 {
		return false
	}
	// a module with top-level await must not sit on a cycle (evaluation order of async cycles is a documented limitation)
	for m := range tlaMods {
		for _, e := range g.edges {
			if e.from == m && g.reaches(e.to, m, map[int]bool{}) {
				return false
			}
		}
	}
	// two edges between the same pair would declare the same local names twice
	seen := map[[2]int]bool{}
	for _, e := range g.edges {
		k := [2]int{e.from, e.to}
		if seen[k] {
			return false
		}
		seen[k] = true
	}
	return true
}

// render returns file name -> source.
func (g *ggraph) render() map[string]string {
	files := map[string]string{}
	for i, m := range g.mods {
		var imports, body, late []string
		id := m.id
		for _, e := range g.edges {
			if e.from != i {
				continue
			}
			t := g.mods[e.to]
			T := t.id
			spec := "./" + t.file()
			back := g.reaches(e.to, e.from, map[int]bool{}) // edge on a cycle: no top-level observation
			if m.esm {
				switch e.kind {
				case "named":
					if t.esm {
						imports = append(imports, fmt.Sprintf("import {x as %s_x, setX as %s_setX} from '%s';", T, T, spec))
						if !back {
							body = append(body, fmt.Sprintf("log('%s sees %s.x', %s_x);", id, T, T))
						}
						late = append(late, fmt.Sprintf("%s_setX('%s.x1'); log('%s sees %s.x after set', %s_x);", T, T, id, T, T))
					} else {
						imports = append(imports, fmt.Sprintf("import {x as %s_x} from '%s';", T, spec))
						if !back {
							body = append(body, fmt.Sprintf("log('%s sees %s.x', %s_x);", id, T, T))
						}
					}
				case "default":
					imports = append(imports, fmt.Sprintf("import %s_d from '%s';", T, spec))
					if !back {
						body = append(body, fmt.Sprintf("log('%s sees %s.default', typeof %s_d, %s_d && %s_d.x, typeof %s_d === 'function' ? %s_d.x : %s_d);", id, T, T, T, T, T, T, T))
					}
				case "ns":
					imports = append(imports, fmt.Sprintf("import * as %s_ns from '%s';", T, spec))
					if !back {
						if t.esm {
							body = append(body, fmt.Sprintf("log('%s sees %s.ns', Object.keys(%s_ns).sort().join(), %s_ns.x, typeof %s_ns.default);", id, T, T, T, T))
						} else {
							body = append(body, fmt.Sprintf("log('%s sees %s.ns', %s_ns.x, typeof %s_ns.default);", id, T, T, T))
						}
					}
				case "side":
					imports = append(imports, fmt.Sprintf("import '%s';", spec))
				case "reexport":
					imports = append(imports, fmt.Sprintf("export {x as %s_x} from '%s';", T, spec))
				case "star":
					imports = append(imports, fmt.Sprintf("export * from '%s';", spec))
				case "starns":
					imports = append(imports, fmt.Sprintf("export * as %s_ns from '%s';", T, spec))
				case "dyn":
					// also observes which object became "default" (module.exports under Node's interop, exports.default under Babel's)
					body = append(body, fmt.Sprintf("const %s_dyn = await import('%s'); log('%s dyn %s', %s_dyn.x !== undefined ? %s_dyn.x : (%s_dyn.default && %s_dyn.default.x), typeof %s_dyn.default, %s_dyn.default && %s_dyn.default.marker, %s_dyn.default && typeof %s_dyn.default.default);", T, spec, id, T, T, T, T, T, T, T, T, T, T))
				}
			} else {
				switch e.kind {
				case "require":
					body = append(body, fmt.Sprintf("const %s_r = require('%s'); log('%s req %s', typeof %s_r, %s_r.x);", T, spec, id, T, T, T))
				case "reqfn":
					body = append(body, fmt.Sprintf("log('%s req-inline %s', require('%s').x, typeof require('%s'));", id, T, spec, spec))
				case "lazyreq":
					body = append(body, fmt.Sprintf("exports.later_%s = () => require('%s').x;", T, spec))
					late = append(late, fmt.Sprintf("log('%s lazy %s', exports.later_%s());", id, T, T))
				case "dyn":
					body = append(body, fmt.Sprintf("__pending.push(import('%s').then(ns => log('%s dyn %s', ns.x !== undefined ? ns.x : (ns.default && ns.default.x))));", spec, id, T))
				}
			}
		}
		var src []string
		if m.esm {
			src = append(src, imports...)
			src = append(src, fmt.Sprintf("log('%s:start');", id))
			if m.noX {
				src = append(src, fmt.Sprintf("export let y_%s = '%s.y0';", id, id))
			} else {
				src = append(src, fmt.Sprintf("export let x = '%s.x0'; export function setX(v) { x = v; } export function getX() { return x; }", id))
			}
			src = append(src, fmt.Sprintf("export default {x: '%s.defx', id: '%s'};", id, id))
			src = append(src, fmt.Sprintf("export const only_%s = '%s.only';", id, id))
		} else {
			src = append(src, fmt.Sprintf("log('%s:start');", id))
			switch m.style {
			case "fn":
				src = append(src, fmt.Sprintf("module.exports = function %s_fn() { return '%s.called'; }; module.exports.x = '%s.x0';", id, id, id))
			case "esmodule":
				src = append(src, fmt.Sprintf("exports.__esModule = true; exports.default = {x: '%s.defx', marker: 'esm-default'}; exports.x = '%s.x0';", id, id))
			default:
				src = append(src, fmt.Sprintf("exports.x = '%s.x0'; exports.only_%s = '%s.only';", id, id, id))
			}
		}
		src = append(src, body...)
		if g.extra != nil && g.extra[i] != "" {
			src = append(src, g.extra[i])
		}
		if i == 0 {
			src = append(src, late...)
		}
		src = append(src, fmt.Sprintf("log('%s:end');", id))
		if g.throwIn == i {
			src = append(src, fmt.Sprintf("throw new TypeError('m:%s');", id))
		}
		files[m.file()] = strings.Join(src, "\n") + "\n"
	}
	return files
}

// enumerate graphs: shapes x edge kinds x module kinds (+ cjs styles, throwing variants)
type gshape struct {
	name  string
	n     int
	edges [][2]int
}

var gShapes = []gshape{
	{"single", 1, nil},
	{"pair", 2, [][2]int{{0, 1}}},
	{"chain", 3, [][2]int{{0, 1}, {1, 2}}},
	{"star", 3, [][2]int{{0, 1}, {0, 2}}},
	{"diamond", 3, [][2]int{{0, 1}, {0, 2}, {1, 2}}},
	{"join", 3, [][2]int{{0, 1}, {0, 2}, {2, 1}}},
	{"cycle2", 2, [][2]int{{0, 1}, {1, 0}}},
	{"cycle3", 3, [][2]int{{0, 1}, {1, 2}, {2, 0}}},
	{"self", 1, [][2]int{{0, 0}}},
	{"cycle-tail", 3, [][2]int{{0, 1}, {1, 2}, {2, 1}}},
}

func enumGraphs(tier string, esmOnly bool) []*ggraph {
	var out []*ggraph
	ids := []string{"a", "b", "c"}
	allKinds := append(append([]string{}, gESMEdgeKinds...), gCJSEdgeKinds...)
	for _, sh := range gShapes {
		nk := 1 << uint(sh.n)
		if esmOnly {
			nk = 1
		}
		for km := 0; km < nk; km++ {
			mods := make([]gmod, sh.n)
			for i := range mods {
				mods[i] = gmod{id: ids[i], esm: esmOnly || km&(1<<uint(i)) == 0, style: "exports"}
			}
			// edge kind assignments
			ne := len(sh.edges)
			total := 1
			for i := 0; i < ne; i++ {
				total *= len(allKinds)
			}
			for idx := 0; idx < total; idx++ {
				g := &ggraph{mods: append([]gmod{}, mods...), throwIn: -1}
				j := idx
				for _, e := range sh.edges {
					g.edges = append(g.edges, gedge{e[0], e[1], allKinds[j%len(allKinds)]})
					j /= len(allKinds)
				}
				if !g.valid() {
					continue
				}
				if tier == "quick" && ne >= 3 && idx%2 != 0 {
					continue
				}
				out = append(out, g)
				// variants: cjs styles of the last cjs module, throwing last module
				last := sh.n - 1
				if !g.mods[last].esm && (idx%2 == 0) {
					for _, st := range []string{"fn", "esmodule"} {
						g2 := &ggraph{mods: append([]gmod{}, g.mods...), edges: g.edges, throwIn: -1}
						g2.mods[last].style = st
						out = append(out, g2)
					}
				}
				// export-name-set variants: every non-empty subset of ESM modules loses its own "x", provided the
				// graph has an export-star edge and no edge needs the removed binding by name
				hasStar := false
				for _, e := range g.edges {
					if e.kind == "star" {
						hasStar = true
					}
				}
				if hasStar {
					for sub := 1; sub < 1<<uint(sh.n); sub++ {
						ok := true
						for i := 0; i < sh.n; i++ {
							if sub&(1<<uint(i)) != 0 && !g.mods[i].esm {
								ok = false
							}
						}
						for _, e := range g.edges {
							if sub&(1<<uint(e.to)) != 0 && (e.kind == "named" || e.kind == "reexport") {
								ok = false
							}
						}
						if !ok {
							continue
						}
						g4 := &ggraph{mods: append([]gmod{}, g.mods...), edges: g.edges, throwIn: -1}
						for i := 0; i < sh.n; i++ {
							if sub&(1<<uint(i)) != 0 {
								g4.mods[i].noX = true
							}
						}
						out = append(out, g4)
					}
				}
				if idx%4 == 1 && sh.n > 1 {
					g3 := &ggraph{mods: g.mods, edges: g.edges, throwIn: last}
					out = append(out, g3)
				}
			}
		}
	}
	// a module whose evaluation throws and that is reached twice, the second time through import(): the failure must be
	// remembered (ESM) exactly as natively. Diamond a->b, a->c, b-dyn->c with every kind of a->c edge and every
	// assignment of module kinds (also in the quick tier, which skips most three-edge throwing variants above).
	if !esmOnly {
		for km := 0; km < 8; km++ {
			mods := make([]gmod, 3)
			for i := range mods {
				mods[i] = gmod{id: ids[i], esm: km&(1<<uint(i)) == 0, style: "exports"}
			}
			for _, k01 := range []string{"default", "require"} {
				for _, k02 := range allKinds {
					g := &ggraph{mods: append([]gmod{}, mods...), edges: []gedge{{0, 1, k01}, {0, 2, k02}, {1, 2, "dyn"}}, throwIn: 2}
					if g.valid() {
						out = append(out, g)
					}
				}
			}
		}
	}
	sort.SliceStable(out, func(i, j int) bool { return len(out[i].edges) < len(out[j].edges) })
	return out
}
