package main

import (
	"encoding/base64"
	"encoding/json"
	"fmt"
	"regexp"
	"strings"
	"unicode/utf16"
)

// ---- independent source map decoder (own VLQ; shares nothing with internal/sourcemap)

type smSeg struct {
	genLine, genCol int
	hasSrc          bool
	src, line, col  int
	hasName         bool
	name            int
}

type smap struct {
	Version        int       `json:"version"`
	Sources        []string  `json:"sources"`
	SourcesContent []*string `json:"sourcesContent"`
	Names          []string  `json:"names"`
	Mappings       string    `json:"mappings"`
	SourceRoot     string    `json:"sourceRoot"`
	File           string    `json:"file"`
	segs           []smSeg
}

const b64 = "ABCDEFGHIJKLMNOPQRSTUVWXYZabcdefghijklmnopqrstuvwxyz0123456789+/"

// smDecode parses and decodes a source map; any structural defect is returned as a well-formedness error
func smDecode(data []byte) (*smap, string) {
	var raw map[string]json.RawMessage
	if err := json.Unmarshal(data, &raw); err != nil {
		return nil, "source map is not JSON: " + err.Error()
	}
	m := &smap{}
	if err := json.Unmarshal(data, m); err != nil {
		return nil, "source map has fields of the wrong type: " + err.Error()
	}
	if m.Version != 3 {
		return nil, fmt.Sprintf("version is %d, not 3", m.Version)
	}
	if _, ok := raw["mappings"]; !ok {
		return nil, "no mappings field"
	}
	if _, ok := raw["sources"]; !ok {
		return nil, "no sources field"
	}
	if m.SourcesContent != nil && len(m.SourcesContent) != len(m.Sources) {
		return nil, fmt.Sprintf("sourcesContent has %d entries for %d sources", len(m.SourcesContent), len(m.Sources))
	}
	genLine, genCol, src, line, col, name := 0, 0, 0, 0, 0, 0
	s := m.Mappings
	i := 0
	for i <= len(s) {
		if i == len(s) {
			break
		}
		ch := s[i]
		if ch == ';' {
			genLine++
			genCol = 0
			i++
			continue
		}
		if ch == ',' {
			i++
			continue
		}
		var vals []int
		for i < len(s) && s[i] != ',' && s[i] != ';' {
			v, shift := 0, uint(0)
			for {
				if i >= len(s) {
					return nil, "truncated VLQ at end of mappings"
				}
				d := strings.IndexByte(b64, s[i])
				if d < 0 {
					return nil, fmt.Sprintf("invalid base64 character %q in mappings", s[i])
				}
				i++
				v |= (d & 31) << shift
				shift += 5
				if d&32 == 0 {
					break
				}
				if shift > 40 {
					return nil, "VLQ value too long"
				}
			}
			if v&1 != 0 {
				v = -(v >> 1)
			} else {
				v >>= 1
			}
			vals = append(vals, v)
		}
		if len(vals) != 1 && len(vals) != 4 && len(vals) != 5 {
			return nil, fmt.Sprintf("segment with %d fields", len(vals))
		}
		prevCol := genCol
		genCol += vals[0]
		seg := smSeg{genLine: genLine, genCol: genCol}
		if genCol < 0 {
			return nil, "negative generated column"
		}
		if n := len(m.segs); n > 0 && m.segs[n-1].genLine == genLine && genCol < prevCol {
			return nil, fmt.Sprintf("mappings not sorted by generated position on generated line %d (column %d after %d)", genLine, genCol, prevCol)
		}
		if len(vals) >= 4 {
			src += vals[1]
			line += vals[2]
			col += vals[3]
			seg.hasSrc, seg.src, seg.line, seg.col = true, src, line, col
			if src < 0 || src >= len(m.Sources) {
				return nil, fmt.Sprintf("source index %d out of range (%d sources)", src, len(m.Sources))
			}
			if line < 0 || col < 0 {
				return nil, fmt.Sprintf("negative original position %d:%d", line, col)
			}
		}
		if len(vals) == 5 {
			name += vals[4]
			seg.hasName, seg.name = true, name
			if name < 0 || name >= len(m.Names) {
				return nil, fmt.Sprintf("name index %d out of range (%d names)", name, len(m.Names))
			}
		}
		m.segs = append(m.segs, seg)
	}
	return m, ""
}

// ---- text as lines of UTF-16 code units

// smLines splits text into lines. Original JS text: LF, CRLF, CR, U+2028 and U+2029 end a line (ECMAScript
// LineTerminator, which is what consumers and esbuild's line offset tables use); generated text and CSS: LF, CRLF, CR.
func smLines(text string, jsTerminators bool) [][]uint16 {
	var lines [][]uint16
	u := utf16.Encode([]rune(text))
	start := 0
	for i := 0; i < len(u); i++ {
		c := u[i]
		if c == '\n' || c == '\r' || (jsTerminators && (c == 0x2028 || c == 0x2029)) {
			lines = append(lines, u[start:i])
			if c == '\r' && i+1 < len(u) && u[i+1] == '\n' {
				i++
			}
			start = i + 1
		}
	}
	return append(lines, u[start:])
}

func smIdentChar(c uint16) bool {
	return c == '_' || c == '$' || (c >= '0' && c <= '9') || (c >= 'a' && c <= 'z') || (c >= 'A' && c <= 'Z')
}

// cssIdentChar additionally treats '-' as part of a name
func smTokenAt(line []uint16, col int, css bool) (kind, text string, mid bool) {
	if col >= len(line) {
		return "eol", "", false
	}
	c := line[col]
	isId := func(c uint16) bool { return smIdentChar(c) || (css && c == '-') }
	if isId(c) {
		mid = col > 0 && isId(line[col-1])
		j := col
		for j < len(line) && isId(line[j]) {
			j++
		}
		return "word", string(utf16.Decode(line[col:j])), mid
	}
	if c == '\'' || c == '"' || c == '`' {
		j := col + 1
		for j < len(line) && line[j] != c {
			j++
		}
		return "str", string(utf16.Decode(line[col+1 : j])), false
	}
	if c == ' ' || c == '\t' {
		return "space", "", false
	}
	return "punct", string(utf16.Decode(line[col : col+1])), false
}

var (
	smIdentMarker  = regexp.MustCompile(`^m\d+_$`)
	smNumMarker    = regexp.MustCompile(`^9\d{3,}$`)
	smStrMarker    = regexp.MustCompile(`^[ST]\d+$`)
	smCustomMarker = regexp.MustCompile(`^--m\d+_$`)
)

type smSource struct {
	text string
	css  bool
}

// smProblem describes one false mapping; known(p) == true means "recorded finding, keep checking the other mappings"
type smProblem struct {
	class             string // "name", "orig-space", ...
	text              string
	name              string // recorded name (class "name")
	genTok, origTok   string
	origLine, origCol int
	source            string // "sources" entry of the mapping (class "name")
}

type smStats struct {
	mappings, markerChecked, nameChecked, contentChecked int
}

// smVerify checks one generated file against its map. resolve maps a "sources" entry to the original text.
// Returns "" or the description of the first false mapping.
func smVerify(gen string, genCSS bool, m *smap, resolve func(string) (smSource, bool), wantContent bool, equiv map[string]string, st *smStats, known func(p smProblem) bool) string {
	glines := smLines(gen, !genCSS)
	type srcInfo struct {
		lines [][]uint16
		css   bool
		ok    bool
	}
	srcs := make([]srcInfo, len(m.Sources))
	for i, s := range m.Sources {
		so, ok := resolve(s)
		if !ok {
			return fmt.Sprintf("sources[%d] = %q does not name an input file", i, s)
		}
		srcs[i] = srcInfo{smLines(so.text, !so.css), so.css, true}
		if wantContent {
			if m.SourcesContent == nil || m.SourcesContent[i] == nil {
				return fmt.Sprintf("sourcesContent[%d] is missing", i)
			}
			if *m.SourcesContent[i] != so.text {
				return fmt.Sprintf("sourcesContent[%d] differs from the text of %q", i, s)
			}
			st.contentChecked++
		} else if m.SourcesContent != nil {
			for _, sc := range m.SourcesContent {
				if sc != nil {
					return "sourcesContent present although sources content was excluded"
				}
			}
		}
	}
	canon := func(s string) string {
		if e, ok := equiv[s]; ok {
			return e
		}
		return s
	}
	for segi, sg := range m.segs {
		st.mappings++
		if sg.genLine >= len(glines) {
			return fmt.Sprintf("mapping for generated line %d but the file has %d lines", sg.genLine, len(glines))
		}
		gl := glines[sg.genLine]
		if sg.genCol > len(gl) {
			return fmt.Sprintf("generated position %d:%d is past the end of the line (length %d)", sg.genLine, sg.genCol, len(gl))
		}
		if !sg.hasSrc {
			continue
		}
		si := srcs[sg.src]
		if sg.line >= len(si.lines) {
			return fmt.Sprintf("original position %d:%d of %q: the file has %d lines", sg.line, sg.col, m.Sources[sg.src], len(si.lines))
		}
		ol := si.lines[sg.line]
		if sg.col > len(ol) {
			return fmt.Sprintf("original position %d:%d of %q is past the end of the line (length %d)", sg.line, sg.col, m.Sources[sg.src], len(ol))
		}
		// the generated token: mappings are recorded before indentation is printed, so skip blanks
		// esbuild also repeats the previous original position at the start of every generated line ("continuation"
		// mappings); such a mapping sits on white space and is followed by the token's own mapping: no token
		// starts at its position, so only the range and token-start conditions apply to it.
		gc := sg.genCol
		for gc < len(gl) && (gl[gc] == ' ' || gl[gc] == '\t') {
			gc++
		}
		continuation := false
		if gc != sg.genCol {
			if gc >= len(gl) {
				continuation = true
			} else if segi+1 < len(m.segs) && m.segs[segi+1].genLine == sg.genLine && m.segs[segi+1].genCol <= gc {
				continuation = true
			}
		}
		gk, gt, gmid := smTokenAt(gl, gc, genCSS)
		ok, ot, omid := smTokenAt(ol, sg.col, si.css)
		where := fmt.Sprintf("generated %d:%d (%s %q) -> %s %d:%d (%s %q)", sg.genLine, sg.genCol, gk, gt, m.Sources[sg.src], sg.line, sg.col, ok, ot)
		if gmid {
			return "generated position is inside a token: " + where
		}
		if omid {
			return "original position is inside a token: " + where
		}
		if ok == "space" {
			p := smProblem{class: "orig-space", text: "original position is on white space: " + where, genTok: gt, origTok: ot, origLine: sg.line, origCol: sg.col}
			if known != nil && known(p) {
				continue
			}
			return p.text
		}
		isMarker := false
		if continuation {
			continue
		}
		if genCSS && gk == "punct" && (gt == "." || gt == "#") && ok == "punct" && ot == gt {
			// a class or id selector: compare the names that follow
			_, gn, _ := smTokenAt(gl, gc+1, true)
			_, on, _ := smTokenAt(ol, sg.col+1, true)
			if smIdentMarker.MatchString(gn) {
				isMarker = true
				if on != gn {
					return "marker selector maps to a different original selector: " + where + " names " + gn + " / " + on
				}
			}
		}
		switch gk {
		case "word":
			if smIdentMarker.MatchString(gt) || smNumMarker.MatchString(gt) || smCustomMarker.MatchString(gt) {
				isMarker = true
				if ok != "word" || canon(ot) != canon(gt) {
					p := smProblem{class: "marker", text: "marker token maps to a different original token: " + where, genTok: gt, origTok: ot, origLine: sg.line, origCol: sg.col}
					if known != nil && known(p) {
						continue
					}
					return p.text
				}
			}
		case "str":
			if smStrMarker.MatchString(gt) {
				isMarker = true
				if ok != "str" || ot != gt {
					return "marker string maps to a different original token: " + where
				}
			}
		}
		if isMarker {
			st.markerChecked++
		}
		if sg.hasName {
			st.nameChecked++
			if ok != "word" || canon(ot) != canon(m.Names[sg.name]) {
				p := smProblem{class: "name", text: fmt.Sprintf("recorded name %q is not the original identifier: %s", m.Names[sg.name], where), name: m.Names[sg.name], genTok: gt, origTok: ot, origLine: sg.line, origCol: sg.col, source: m.Sources[sg.src]}
				if known != nil && known(p) {
					continue
				}
				return p.text
			}
		}
	}
	return ""
}

var smInlineRe = regexp.MustCompile(`(?://|/\*)# sourceMappingURL=data:application/json;base64,([A-Za-z0-9+/=]+)`)
var smLinkRe = regexp.MustCompile(`(?://|/\*)# sourceMappingURL=([^\s*]+)`)

func smInlineMap(gen string) ([]byte, bool) {
	g := smInlineRe.FindAllStringSubmatch(gen, -1)
	if len(g) == 0 {
		return nil, false
	}
	b, err := base64.StdEncoding.DecodeString(g[len(g)-1][1])
	if err != nil {
		return nil, false
	}
	return b, true
}
