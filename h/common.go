package main

// Shared machinery: evidence (E8), violations/replays, known findings, parallel
// deterministic index-space runner (E1).

import (
	"crypto/sha256"
	"encoding/hex"
	"encoding/json"
	"fmt"
	"os"
	"path/filepath"
	"runtime"
	"sort"
	"strconv"
	"strings"
	"sync"
	"sync/atomic"
	"time"
)

const verifRoot = "/verif"

type Check struct {
	ID        string
	Tier      string
	Level     string
	Seed      int
	start     time.Time
	deadline  time.Time
	evals     uint64
	mu        sync.Mutex
	distinct  map[[16]byte]struct{}
	samples   []interface{}
	sub       map[string]uint64
	viol      int
	known     map[string]bool // known finding keys seen
	Rule      string
	Assump    []string
	Exhaust   bool
	capped    bool
	extra     map[string]interface{}
	findings  []knownFinding
	violKeys  map[string]bool
	maxReplay int
	shardK    int // this process handles shard shardK of shardN (child mode), default 0/1
	shardN    int
	partial   string // child mode: write partial results here instead of evidence
	replayKey string // replay mode (--replay file): only the violation with this key is looked for
	violLog   []map[string]interface{}
	distKeys  bool
}

type knownFinding struct {
	Property string `json:"property"`
	Status   string `json:"status"` // "known" | "fixed"
	Key      string `json:"key"`
	What     string `json:"what"`
	Commit   string `json:"commit,omitempty"`
}

func NewCheck(id, tier, level string) *Check {
	c := &Check{ID: id, Tier: tier, Level: level, start: time.Now(), distinct: map[[16]byte]struct{}{},
		sub: map[string]uint64{}, known: map[string]bool{}, Exhaust: true, extra: map[string]interface{}{}, violKeys: map[string]bool{}, maxReplay: 20}
	if s := os.Getenv("VERIF_SEED"); s != "" {
		c.Seed, _ = strconv.Atoi(s)
	}
	budget := 180 * time.Second
	if tier == "thorough" {
		budget = 25 * time.Minute
	}
	if s := os.Getenv("VERIF_BUDGET_S"); s != "" {
		if n, err := strconv.Atoi(s); err == nil {
			budget = time.Duration(n) * time.Second
		}
	}
	c.deadline = c.start.Add(budget)
	c.shardN = 1
	if s := argVal("--shard", ""); s != "" {
		fmt.Sscanf(s, "%d/%d", &c.shardK, &c.shardN)
		c.partial = argVal("--partial", "")
	}
	// --replay <file>: re-run the enumeration of the tier recorded in the replay file and report only the
	// violation with the recorded key (the key identifies the case; children inherit it through the environment)
	if rp := argVal("--replay", ""); rp != "" {
		var pl struct {
			Key  string `json:"key"`
			Tier string `json:"tier"`
		}
		b, err := os.ReadFile(rp)
		if err != nil || json.Unmarshal(b, &pl) != nil || pl.Key == "" {
			fatalf("cannot read replay file %s", rp)
		}
		os.Setenv("VERIF_REPLAY_KEY", pl.Key)
		if pl.Tier == "thorough" || pl.Tier == "quick" {
			c.Tier = pl.Tier
		}
	}
	c.replayKey = os.Getenv("VERIF_REPLAY_KEY")
	data, err := os.ReadFile(filepath.Join(verifRoot, "known_findings.json"))
	if err == nil {
		var all []knownFinding
		if json.Unmarshal(data, &all) == nil {
			for _, f := range all {
				if f.Property == id {
					c.findings = append(c.findings, f)
				}
			}
		}
	}
	return c
}

// Expired reports whether the internal deadline passed; the run then ends with
// exit 0 and exhaustive:false (never a verdict).
func (c *Check) Expired() bool {
	if time.Now().After(c.deadline) {
		c.mu.Lock()
		c.capped = true
		c.Exhaust = false
		c.mu.Unlock()
		return true
	}
	return false
}

func (c *Check) Eval(n uint64) { atomic.AddUint64(&c.evals, n) }

func (c *Check) Sub(name string, n uint64) {
	c.mu.Lock()
	c.sub[name] += n
	c.mu.Unlock()
}

// Distinct records a distinct non-trivial outcome (hash of the given parts).
func (c *Check) Distinct(parts ...string) {
	h := sha256.New()
	for _, p := range parts {
		h.Write([]byte(p))
		h.Write([]byte{0})
	}
	var k [16]byte
	copy(k[:], h.Sum(nil))
	c.mu.Lock()
	c.distinct[k] = struct{}{}
	c.mu.Unlock()
}

func (c *Check) Sample(s interface{}) {
	c.mu.Lock()
	if len(c.samples) < 12 {
		c.samples = append(c.samples, s)
	}
	c.mu.Unlock()
}

func (c *Check) Set(k string, v interface{}) {
	c.mu.Lock()
	c.extra[k] = v
	c.mu.Unlock()
}

// Violation records a counterexample. key identifies the failing input / history for the
// known-findings file; payload is written as a replay file.
func (c *Check) Violation(key string, payload map[string]interface{}) {
	c.mu.Lock()
	defer c.mu.Unlock()
	if c.replayKey != "" && key != c.replayKey {
		return
	}
	payload["tier"] = c.Tier
	if c.partial != "" {
		// child mode: hand everything to the parent, which matches it against the known findings
		if c.violKeys[key] {
			return
		}
		c.violKeys[key] = true
		payload["key"] = key
		if len(c.violLog) < 200 {
			c.violLog = append(c.violLog, payload)
		}
		c.viol++
		return
	}
	for _, f := range c.findings {
		if f.Status == "known" && f.Key == key {
			if !c.known[key] {
				c.known[key] = true
				fmt.Printf("KNOWN-FINDING: property=%s %s\n", c.ID, f.What)
			}
			return
		}
	}
	if c.violKeys[key] {
		return
	}
	c.violKeys[key] = true
	c.viol++
	if p := os.Getenv("VERIF_DUMP"); p != "" {
		if f, err := os.OpenFile(p, os.O_APPEND|os.O_CREATE|os.O_WRONLY, 0o644); err == nil {
			payload["key"] = key
			b, _ := json.Marshal(payload)
			f.Write(append(b, '\n'))
			f.Close()
		}
	}
	if c.viol > c.maxReplay {
		return
	}
	dir := filepath.Join(verifRoot, "replays", c.ID)
	if os.Getenv("VERIF_NO_EVIDENCE") != "" {
		// seeded-change runs from a scratch tree: keep the committed replays and evidence untouched
		dir = filepath.Join(os.TempDir(), "verif-seed-replays", c.ID)
	}
	os.MkdirAll(dir, 0o755)
	path := filepath.Join(dir, fmt.Sprintf("%d.json", c.viol))
	payload["property"] = c.ID
	payload["key"] = key
	data, _ := json.MarshalIndent(payload, "", " ")
	os.WriteFile(path, data, 0o644)
	fmt.Printf("VIOLATION property=%s replay=%s\n", c.ID, path)
	if c.viol <= 3 {
		s := string(data)
		if len(s) > 3000 {
			s = s[:3000] + "…"
		}
		fmt.Println(s)
	}
}

// Known reports whether key is a recorded (status "known") finding; the first use prints its KNOWN-FINDING line.
func (c *Check) Known(key string) bool {
	c.mu.Lock()
	defer c.mu.Unlock()
	for _, f := range c.findings {
		if f.Status == "known" && f.Key == key {
			if !c.known[key] {
				c.known[key] = true
				fmt.Printf("KNOWN-FINDING: property=%s %s\n", c.ID, f.What)
			}
			return true
		}
	}
	return false
}

func (c *Check) Violations() int { c.mu.Lock(); defer c.mu.Unlock(); return c.viol }

// Finish writes the evidence file and returns the exit code.
func (c *Check) Finish() int {
	c.mu.Lock()
	defer c.mu.Unlock()
	cov := map[string]interface{}{
		"evaluations":         c.evals,
		"distinct_nontrivial": len(c.distinct),
		"rule":                c.Rule,
		"samples":             c.samples,
		"exhaustive":          c.Exhaust,
		"sub_checks":          c.sub,
	}
	if c.capped {
		cov["cap_hit"] = "internal deadline reached; counts are what was covered below it"
	}
	for k, v := range c.extra {
		cov[k] = v
	}
	if len(c.samples) == 0 {
		cov["samples"] = []interface{}{"(none)"}
	}
	if c.Assump == nil {
		c.Assump = []string{}
	}
	kf := []string{}
	for k := range c.known {
		kf = append(kf, k)
	}
	sort.Strings(kf)
	cov["known_findings_seen"] = kf
	ev := map[string]interface{}{
		"property_id": c.ID,
		"tier":        c.Tier,
		"seed":        c.Seed,
		"level":       c.Level,
		"coverage":    cov,
		"assumptions": c.Assump,
		"wall_s":      time.Since(c.start).Seconds(),
		"violations":  c.viol,
	}
	if c.replayKey != "" {
		// replay mode never rewrites the evidence file
		if c.viol > 0 {
			fmt.Printf("REPLAY: violation %q reproduced\n", c.replayKey)
			return 1
		}
		fmt.Printf("REPLAY: violation %q not reproduced (evaluations=%d)\n", c.replayKey, c.evals)
		return 0
	}
	data, _ := json.MarshalIndent(ev, "", " ")
	if os.Getenv("VERIF_NO_EVIDENCE") == "" {
		os.MkdirAll(filepath.Join(verifRoot, "evidence"), 0o755)
		os.WriteFile(filepath.Join(verifRoot, "evidence", c.ID+".json"), data, 0o644)
	}
	fmt.Printf("%s tier=%s evaluations=%d distinct=%d violations=%d exhaustive=%v wall=%.1fs sub=%v\n",
		c.ID, c.Tier, c.evals, len(c.distinct), c.viol, c.Exhaust, time.Since(c.start).Seconds(), c.sub)
	if c.viol > 0 {
		return 1
	}
	return 0
}

func NumWorkers() int {
	n := runtime.NumCPU()
	if s := os.Getenv("VERIF_WORKERS"); s != "" {
		if v, err := strconv.Atoi(s); err == nil && v > 0 {
			n = v
		}
	}
	return n
}

// ForEach evaluates fn for every index in [0,n) in parallel (index i handled by worker i%W,
// ascending), stopping early only at the deadline. Returns number evaluated.
func (c *Check) ForEach(n uint64, fn func(w int, i uint64)) uint64 {
	W := NumWorkers()
	if c.shardN > 1 {
		return c.forEachShard(n, fn)
	}
	var done uint64
	var wg sync.WaitGroup
	for w := 0; w < W; w++ {
		wg.Add(1)
		go func(w int) {
			defer wg.Done()
			cnt := 0
			last := time.Now()
			for i := uint64(w); i < n; i += uint64(W) {
				// deadline test every 64 items or every second, whichever comes first
				if (cnt&63 == 0 || time.Since(last) > time.Second) && c.Expired() {
					return
				}
				if cnt&7 == 0 {
					last = time.Now()
				}
				cnt++
				fn(w, i)
				atomic.AddUint64(&done, 1)
			}
		}(w)
	}
	wg.Wait()
	if done < n {
		c.mu.Lock()
		c.Exhaust = false
		c.mu.Unlock()
	}
	return done
}

func shortHash(s string) string {
	h := sha256.Sum256([]byte(s))
	return hex.EncodeToString(h[:6])
}

func trunc(s string, n int) string {
	if len(s) > n {
		return s[:n] + "…"
	}
	return s
}

func jsonStr(v interface{}) string {
	b, _ := json.Marshal(v)
	return string(b)
}

func fatalf(format string, a ...interface{}) {
	fmt.Fprintf(os.Stderr, "INFRASTRUCTURE ERROR: "+format+"\n", a...)
	os.Exit(2)
}

func hasArg(name string) bool {
	for _, a := range os.Args {
		if a == name {
			return true
		}
	}
	return false
}

func argVal(name, def string) string {
	for i, a := range os.Args {
		if a == name && i+1 < len(os.Args) {
			return os.Args[i+1]
		}
		if strings.HasPrefix(a, name+"=") {
			return a[len(name)+1:]
		}
	}
	return def
}

// forEachShard: child-process mode; a single goroutine handles indices i with i % shardN == shardK.
func (c *Check) forEachShard(n uint64, fn func(w int, i uint64)) uint64 {
	var done uint64
	cnt := 0
	for i := uint64(c.shardK); i < n; i += uint64(c.shardN) {
		if cnt&63 == 0 && c.Expired() {
			break
		}
		cnt++
		fn(0, i)
		done++
	}
	return done
}

type partialResult struct {
	Evals    uint64                   `json:"evals"`
	Sub      map[string]uint64        `json:"sub"`
	Distinct []string                 `json:"distinct"`
	Viol     []map[string]interface{} `json:"viol"`
	Capped   bool                     `json:"capped"`
	Extra    map[string]interface{}   `json:"extra"`
}

// FinishPartial (child mode) writes the shard's results for the parent to merge.
func (c *Check) FinishPartial() {
	c.mu.Lock()
	defer c.mu.Unlock()
	p := partialResult{Evals: c.evals, Sub: c.sub, Viol: c.violLog, Capped: c.capped, Extra: c.extra}
	for k := range c.distinct {
		p.Distinct = append(p.Distinct, hex.EncodeToString(k[:]))
	}
	data, _ := json.Marshal(p)
	os.WriteFile(c.partial, data, 0o644)
}

// MergePartial (parent) folds a child's results in.
func (c *Check) MergePartial(path string) bool {
	data, err := os.ReadFile(path)
	if err != nil {
		return false
	}
	var p partialResult
	if json.Unmarshal(data, &p) != nil {
		return false
	}
	c.Eval(p.Evals)
	for k, v := range p.Sub {
		c.Sub(k, v)
	}
	c.mu.Lock()
	for _, d := range p.Distinct {
		var k [16]byte
		b, _ := hex.DecodeString(d)
		copy(k[:], b)
		c.distinct[k] = struct{}{}
	}
	if p.Capped {
		c.capped = true
		c.Exhaust = false
	}
	for k, v := range p.Extra {
		if _, ok := c.extra[k]; !ok {
			c.extra[k] = v
		}
	}
	c.mu.Unlock()
	for _, v := range p.Viol {
		key, _ := v["key"].(string)
		c.Violation(key, v)
	}
	return true
}
