'use strict';
// evalModuleGraph: write a file tree into a fresh scratch directory and load its entry with Node's
// native loaders (import() / require()) or as a classic script; return the global log, the export
// surface and the thrown error class.
const fs = require('fs');
const path = require('path');
const vm = require('vm');
const { pathToFileURL } = require('url');
const Module = require('module');

let root = null;
let counter = 0;
function scratch() {
  if (!root) {
    const base = fs.existsSync('/dev/shm') ? '/dev/shm' : require('os').tmpdir();
    root = fs.mkdtempSync(path.join(base, 'verif-node-'));
    process.on('exit', () => { try { fs.rmSync(root, { recursive: true, force: true }); } catch (_) {} });
  }
  const d = path.join(root, String(counter++));
  fs.mkdirSync(d, { recursive: true });
  return d;
}

exports.register = function (ops, lib) {
  const { ser, errClass } = lib;
  // namespace objects (native: exotic Module objects; bundles: objects with getters) are compared by value
  function plain(v, depth) {
    if (v === null || typeof v !== 'object' || depth > 2) return v;
    const tag = Object.prototype.toString.call(v);
    let hasAccessor = false;
    for (const k of Object.keys(v)) { const d = Object.getOwnPropertyDescriptor(v, k); if (d && d.get) { hasAccessor = true; break; } }
    if (tag === '[object Module]' || hasAccessor) {
      const o = {};
      for (const k of Object.keys(v).sort()) { if (k === '__esModule') continue; try { o[k] = plain(v[k], depth + 1); } catch (e) { o[k] = 'throws:' + errClass(e); } }
      return o;
    }
    return v;
  }
  async function loadOne(c) {
    const dir = scratch();
    for (const rel of Object.keys(c.files)) {
      const p = path.join(dir, rel);
      fs.mkdirSync(path.dirname(p), { recursive: true });
      if (c.binary && c.binary[rel]) fs.writeFileSync(p, Buffer.from(c.files[rel], 'base64'));
      else fs.writeFileSync(p, c.files[rel]);
    }
    const log = [];
    globalThis.log = (...a) => { log.push(a.map(x => ser(x)).join(' ')); };
    globalThis.__pending = [];
    const entry = path.join(dir, c.entry);
    let exp = null, err = null;
    try {
      if (c.how === 'import-many') {
        exp = {};
        for (const e of c.entries) {
          log.push('LOAD ' + e);
          const ns = await import(pathToFileURL(path.join(dir, e)).href);
          exp[e] = ns;
        }
      } else if (c.how === 'import') {
        const ns = await import(pathToFileURL(entry).href);
        exp = ns;
      } else if (c.how === 'require') {
        const req = Module.createRequire(path.join(dir, 'noop.js'));
        exp = req(entry);
      } else if (c.how === 'script') {
        try { globalThis[c.globalName] = undefined; } catch (_) {}
        vm.runInThisContext(fs.readFileSync(entry, 'utf8'), { filename: entry });
        exp = globalThis[c.globalName];
      }
    } catch (e) {
      err = errClass(e) + (e && typeof e.message === 'string' && /^(m:|thrown)/.test(e.message) ? ':' + e.message : '');
    }
    // let pending promises (dynamic imports inside CJS, .then callbacks) settle
    for (let i = 0; i < 3; i++) {
      try { await Promise.all(globalThis.__pending); } catch (e) { log.push('pending-rejected:' + errClass(e)); }
      await new Promise(r => setImmediate(r));
    }
    let surface = null;
    if (exp !== null && exp !== undefined) {
      try {
        const t = typeof exp;
        if (t !== 'object' && t !== 'function') surface = 'value:' + ser(exp);
        else {
          const keys = [];
          for (const k of Reflect.ownKeys(exp)) if (typeof k === 'string') keys.push(k);
          keys.sort();
          const parts = [];
          for (const k of keys) {
            if (c.observe && !c.observe.includes(k)) continue;
            if (t === 'function' && (k === 'name' || k === 'length' || k === 'arguments' || k === 'caller' || k === 'prototype')) continue;
            let v; try { v = exp[k]; } catch (e) { v = 'throws:' + errClass(e); }
            parts.push(k + '=' + ser(plain(v, 0)));
          }
          surface = (t === 'function' ? 'fn;' : '') + parts.join(';');
          if (c.wantEsModuleFlag) surface += ';__esModule=' + String(!!exp.__esModule);
        }
      } catch (e) { surface = 'surface-throws:' + errClass(e); }
    }
    try { fs.rmSync(dir, { recursive: true, force: true }); } catch (_) {}
    return { log, surface, err };
  }
  ops.graph = async (req) => {
    const r = [];
    for (const c of req.cases) r.push(await loadOne(c));
    return { r };
  };
};
