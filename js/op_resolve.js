'use strict';
// resolve: Node's own resolvers on a real tree. For each query {from, spec, kind} returns the real path or the error code.
const fs = require('fs');
const path = require('path');
const Module = require('module');
const { pathToFileURL, fileURLToPath } = require('url');

let root = null, counter = 0;
function scratch() {
  if (!root) {
    const base = fs.existsSync('/dev/shm') ? '/dev/shm' : require('os').tmpdir();
    root = fs.mkdtempSync(path.join(base, 'verif-res-'));
    process.on('exit', () => { try { fs.rmSync(root, { recursive: true, force: true }); } catch (_) {} });
  }
  const d = path.join(root, String(counter++));
  fs.mkdirSync(d, { recursive: true });
  return d;
}

exports.register = function (ops) {
  ops.resolve = async (req) => {
    const out = [];
    for (const c of req.cases) {
      const dir = fs.realpathSync(scratch());
      for (const rel of Object.keys(c.files)) {
        const p = path.join(dir, rel);
        fs.mkdirSync(path.dirname(p), { recursive: true });
        const v = c.files[rel];
        if (v.startsWith('SYMLINK:')) fs.symlinkSync(v.slice(8), p);
        else fs.writeFileSync(p, v);
      }
      const helpers = {};
      const res = [];
      for (const q of c.queries) {
        const fromDir = path.join(dir, q.from);
        let r;
        try {
          if (q.kind === 'require') {
            const rq = Module.createRequire(path.join(fromDir, '__importer.js'));
            r = { path: path.relative(dir, fs.realpathSync(rq.resolve(q.spec))) };
          } else {
            if (!helpers[q.from]) {
              const hp = path.join(fromDir, '__verif_helper_' + counter + '.mjs');
              fs.mkdirSync(fromDir, { recursive: true });
              fs.writeFileSync(hp, 'export const r = (s) => import.meta.resolve(s);\n');
              helpers[q.from] = (await import(pathToFileURL(hp).href)).r;
            }
            const url = helpers[q.from](q.spec);
            if (!url.startsWith('file:')) r = { path: url };
            else {
              const u = new URL(url);
              const p = fileURLToPath(u);
              r = { path: path.relative(dir, fs.existsSync(p) ? fs.realpathSync(p) : p), exists: fs.existsSync(p) && fs.statSync(p).isFile(), search: u.search + u.hash };
            }
          }
          // second hop: resolve q.then from the file the first hop resolved to (Node loads modules under their real
          // path, so the lookup starts from there)
          if (q.then && r && r.path && !r.path.startsWith('node:')) {
            const first = fs.realpathSync(path.join(dir, r.path));
            if (q.kind === 'require') {
              r = { path: path.relative(dir, fs.realpathSync(Module.createRequire(first).resolve(q.then))) };
            } else {
              const hd = path.dirname(first);
              const hp = path.join(hd, '__verif_helper2_' + (counter++) + '.mjs');
              fs.writeFileSync(hp, 'export const r = (s) => import.meta.resolve(s);\n');
              const url = (await import(pathToFileURL(hp).href)).r(q.then);
              fs.rmSync(hp);
              const p2 = fileURLToPath(new URL(url));
              r = { path: path.relative(dir, fs.existsSync(p2) ? fs.realpathSync(p2) : p2), exists: fs.existsSync(p2) && fs.statSync(p2).isFile(), search: '' };
            }
          }
        } catch (e) {
          r = { code: e && e.code ? String(e.code) : String(e && e.name) };
        }
        res.push(r);
      }
      out.push(res);
      try { fs.rmSync(dir, { recursive: true, force: true }); } catch (_) {}
    }
    return { r: out };
  };
};
