'use strict';
// E7: Chrome 147 headless as the CSS cascade/value engine. JSON lines over stdio.
// op styles: {cases:[{variants:[css...]}]} -> {r:[[obs...]...]} where obs is the computed style of every
// element of a fixed DOM universe x a fixed property list, in two iframes of different widths
// (so width-based media queries take both truth values).
const readline = require('readline');
const fs = require('fs');
const path = require('path');

// Orphan guard: a generated program may spin forever inside vm; if the harness that owns this process dies,
// nobody is left to kill it. A worker thread notices the re-parenting and kills the process.
try {
  new (require('worker_threads').Worker)('const pp = ' + process.ppid + '; setInterval(() => { if (process.ppid !== pp) process.kill(process.pid, "SIGKILL"); }, 2000);', { eval: true }).unref();
} catch (_) {}
const puppeteer = require('/root/.nvm/versions/node/v20.20.2/lib/node_modules/puppeteer');

const DOM = `
<div id="i1" class="a" x="y"><span class="b" id="i2">s1</span><span class="a b">s2</span><p class="c" x>p1</p><p id="i3">p2</p><p class="a c">p3</p>
  <div class="b"><span>deep1</span><a class="a" href="#">link</a><div class="c" id="i4"><span class="c">deep2</span></div></div>
</div>
<div class="a b c" id="i5"><p>q1</p><a class="b">link2</a></div>
<ul class="a"><li class="b">l1</li><li>l2</li></ul>`;

const PROPS = ['color', 'background-color', 'margin-top', 'margin-right', 'margin-bottom', 'margin-left', 'padding-top', 'padding-right', 'padding-bottom', 'padding-left',
  'border-top-width', 'border-right-width', 'border-bottom-width', 'border-left-width', 'border-top-style', 'border-left-style', 'border-top-color', 'border-left-color', 'border-right-color', 'border-bottom-color',
  'border-top-left-radius', 'border-top-right-radius', 'border-bottom-right-radius', 'border-bottom-left-radius', 'top', 'right', 'bottom', 'left', 'position', 'display', 'width', 'height', 'min-width', 'max-width',
  'font-size', 'font-weight', 'font-style', 'font-family', 'line-height', 'font-variant-caps', 'font-stretch', 'opacity', 'z-index', 'transform', 'transition-property', 'transition-duration', 'transition-delay', 'transition-timing-function',
  'list-style-type', 'list-style-position', 'background-image', 'background-position-x', 'background-position-y', 'background-size', 'background-repeat', 'outline-color', 'outline-width', 'outline-style', 'text-decoration-line', 'text-decoration-color',
  'letter-spacing', 'box-shadow', 'animation-name', 'animation-duration', 'content', 'flex-grow', 'flex-shrink', 'flex-basis', 'gap', 'column-gap', 'row-gap', 'grid-template-columns', 'inset-inline-start', 'margin-inline-start', 'aspect-ratio', 'accent-color', 'caret-color', 'fill', 'stroke',
  '--v1', '--v2', '--v3', 'clip-path', 'filter', 'text-shadow', 'overflow-x', 'overflow-y', 'visibility', 'cursor', 'white-space', 'text-align', 'vertical-align', 'border-collapse', 'scroll-margin-top', 'tab-size', 'text-indent', 'word-spacing', 'rotate', 'scale', 'translate',
  'appearance', 'backdrop-filter', 'background-clip', 'box-decoration-break', 'font-kerning', 'hyphens', 'mask-image', 'mask-size', 'mask-repeat', 'print-color-adjust', 'text-emphasis-style', 'text-orientation', 'text-size-adjust', 'user-select', 'min-height', 'max-height'];


// Colour normal form: every colour function in a computed value is converted by Chrome itself to sRGB
// (through color-mix(in srgb, X, X), which does not clip) and printed as C(r,g,b,a) on the 8-bit grid when
// it is inside the sRGB gamut, or CW(r,g,b,a) with 3 decimals when not. The Go side compares C() within 1 unit.
const NORM_SRC = `
  const __cache = new Map();
  function __conv(doc, col) {
    let r = __cache.get(col);
    if (r !== undefined) return r;
    const probe = doc.getElementById('probe');
    probe.style.color = '';
    probe.style.color = 'color-mix(in srgb, ' + col + ', ' + col + ')';
    const cv = probe.style.color === '' ? '' : getComputedStyle(probe).color;
    const m = /^color\\(srgb ([-\\d.e]+|none) ([-\\d.e]+|none) ([-\\d.e]+|none)(?: \\/ ([-\\d.e]+|none))?\\)$/.exec(cv);
    if (!m) r = col;
    else {
      const f = x => x === undefined ? 1 : x === 'none' ? 0 : +x;
      const [cr, cg, cb, ca] = [f(m[1]), f(m[2]), f(m[3]), f(m[4])];
      const inG = x => x >= -0.002 && x <= 1.002;
      if (inG(cr) && inG(cg) && inG(cb)) r = 'C(' + Math.round(cr * 255) + ',' + Math.round(cg * 255) + ',' + Math.round(cb * 255) + ',' + (Math.round(ca * 200) / 200) + ')';
      else r = 'CW(' + cr.toFixed(3) + ',' + cg.toFixed(3) + ',' + cb.toFixed(3) + ',' + (Math.round(ca * 200) / 200) + ')';
    }
    __cache.set(col, r);
    return r;
  }
  function __norm(doc, v) {
    if (v.indexOf('(') < 0) return v;
    const re = /\\b(rgba?|hsla?|hwb|lab|lch|oklab|oklch|color)\\(/g;
    let out = '', last = 0, m;
    while ((m = re.exec(v))) {
      let depth = 0, j = m.index + m[0].length - 1;
      for (; j < v.length; j++) { if (v[j] === '(') depth++; else if (v[j] === ')') { depth--; if (depth === 0) break; } }
      if (j >= v.length) break;
      out += v.slice(last, m.index) + __conv(doc, v.slice(m.index, j + 1));
      last = j + 1; re.lastIndex = j + 1;
    }
    return out + v.slice(last);
  }
  function __settle(d) {
    // transitions only start at a style flush: force one, then cancel what started (twice: cancelling can itself
    // change inherited values on descendants)
    for (let round = 0; round < 2; round++) {
      void d.defaultView.getComputedStyle(d.body).color;
      for (const el of d.body.querySelectorAll('*')) void d.defaultView.getComputedStyle(el).opacity;
      __settle1(d);
    }
  }
  function __settle1(d) {
    for (const a of d.getAnimations()) { try { if (a.constructor.name === 'CSSTransition') a.cancel(); else { a.pause(); a.currentTime = 500; } } catch (_) {} }
  }
`;

let browser = null, page = null;

async function init() {
  browser = await puppeteer.launch({ headless: 'shell', pipe: true, args: ['--no-sandbox', '--disable-gpu', '--allow-file-access-from-files', '--enable-begin-frame-control', '--run-all-compositor-stages-before-draw'] });
  page = await browser.newPage();
  await page.setViewport({ width: 1200, height: 900 });
  await setupPage();
}

async function setupPage() {
  await page.setContent('<!doctype html><html><body style="margin:0"><i id="probe"></i><iframe id="f1" scrolling="no" style="width:400px;height:300px;border:0"></iframe><iframe id="f2" scrolling="no" style="width:900px;height:300px;border:0"></iframe></body></html>');
  await page.evaluate((dom) => {
    for (const id of ['f1', 'f2']) {
      const d = document.getElementById(id).contentDocument;
      d.open(); d.write('<!doctype html><html><head></head><body>' + dom + '</body></html>'); d.close();
    }
  }, DOM);
}

async function stylesFor(variants) {
  return await page.evaluate((variants, PROPS, NORM_SRC) => {
    if (!window.__norm) (0, eval)(NORM_SRC + '; window.__norm = __norm; window.__settle = __settle;');
    const out = [];
    for (const css of variants) {
      const parts = [];
      for (const id of ['f1', 'f2']) {
        const d = document.getElementById(id).contentDocument;
        // a constructed style sheet: a <style> element's text would become rendered content under rules such as ":not(.a) { display: grid }"
        let sh = d.__sheet;
        if (!sh) { sh = d.__sheet = new d.defaultView.CSSStyleSheet(); d.adoptedStyleSheets = [sh]; }
        sh.replaceSync(css);
        window.__settle(d);
        const els = d.body.querySelectorAll('*');
        let ei = 0;
        for (const el of els) {
          const cs = d.defaultView.getComputedStyle(el);
          const row = [];
          for (const p of PROPS) row.push(window.__norm(document, cs.getPropertyValue(p)));
          // pseudo elements
          const b = d.defaultView.getComputedStyle(el, '::before');
          row.push(b.getPropertyValue('content'), window.__norm(document, b.getPropertyValue('color')));
          parts.push(id + '#' + (ei++) + ':' + row.join('|'));
        }
      }
      out.push(parts.join('\n'));
    }
    // transfer only what differs: "=" stands for "identical to variant 0"
    let anyDiff = false;
    for (let k = 1; k < out.length; k++) { if (out[k] === out[0]) out[k] = '='; else anyDiff = true; }
    if (!anyDiff && out.length > 1) out[0] = '=';
    return out;
  }, variants, PROPS, NORM_SRC);
}

// op files: {cases:[{files:{rel:content}, links:[rel...], inline:[css...]}]}: each case = one document loaded from file:// with the
// given <link> style sheets (native @import) and, as further variants, documents with the inline sheets.
let fileRoot = null, fileCounter = 0;
async function filesCase(c) {
  if (!fileRoot) {
    const base = fs.existsSync('/dev/shm') ? '/dev/shm' : require('os').tmpdir();
    fileRoot = fs.mkdtempSync(path.join(base, 'verif-chrome-'));
    process.on('exit', () => { try { fs.rmSync(fileRoot, { recursive: true, force: true }); } catch (_) {} });
  }
  const dir = path.join(fileRoot, String(fileCounter++));
  fs.mkdirSync(dir, { recursive: true });
  for (const rel of Object.keys(c.files)) {
    const p = path.join(dir, rel);
    fs.mkdirSync(path.dirname(p), { recursive: true });
    fs.writeFileSync(p, c.files[rel]);
  }
  const docs = [];
  docs.push('<!doctype html><html><head>' + c.links.map(l => '<link rel="stylesheet" href="' + l + '">').join('') + '</head><body>' + DOM + '</body></html>');
  c.inline.forEach((css, i) => {
    fs.writeFileSync(path.join(dir, '__bundle' + i + '.css'), css);
    docs.push('<!doctype html><html><head><link rel="stylesheet" href="__bundle' + i + '.css"></head><body>' + DOM + '</body></html>');
  });
  const out = [];
  const p2 = await browser.newPage();
  for (let i = 0; i < docs.length; i++) {
    const f = path.join(dir, 'doc' + i + '.html');
    fs.writeFileSync(f, docs[i]);
    const obs = [];
    for (const w of [400, 900]) {
      await p2.setViewport({ width: w, height: 600 });
      await p2.goto('file://' + f, { waitUntil: 'load' });
      obs.push(await p2.evaluate((PROPS, NORM_SRC) => {
        if (!window.__norm) (0, eval)(NORM_SRC + '; window.__norm = __norm; window.__settle = __settle;');
        if (!document.getElementById('probe')) { const pr = document.createElement('i'); pr.id = 'probe'; document.head.appendChild(pr); }
        window.__settle(document);
        const parts = [];
        let ei = 0;
        for (const el of document.body.querySelectorAll('*')) {
          const cs = getComputedStyle(el);
          parts.push('w#' + (ei++) + ':' + PROPS.map(p => window.__norm(document, cs.getPropertyValue(p))).join('|'));
        }
        return parts.join('\n');
      }, PROPS, NORM_SRC));
    }
    out.push(obs.join('\n===\n'));
  }
  await p2.close();
  try { fs.rmSync(dir, { recursive: true, force: true }); } catch (_) {}
  return out;
}

const ops = {
  ping: async () => ({ ok: true, version: await browser.version() }),
  props: async () => ({ props: PROPS }),
  styles: async (req) => {
    const r = [];
    for (const c of req.cases) r.push(await stylesFor(c.variants));
    return { r };
  },
  files: async (req) => {
    const r = [];
    for (const c of req.cases) r.push(await filesCase(c));
    return { r };
  },
};

(async () => {
  try { await init(); } catch (e) { process.stdout.write(JSON.stringify({ infraError: 'chrome launch failed: ' + String(e) }) + '\n'); process.exit(3); }
  const rl = readline.createInterface({ input: process.stdin, terminal: false, crlfDelay: Infinity });
  let chain = Promise.resolve();
  rl.on('line', (line) => {
    chain = chain.then(async () => {
      let resp;
      try {
        const req = JSON.parse(line);
        const op = ops[req.op];
        resp = op ? await op(req) : { infraError: 'unknown op ' + req.op };
      } catch (e) {
        resp = { infraError: String(e && e.stack || e) };
        try { await setupPage(); } catch (_) {}
      }
      process.stdout.write(JSON.stringify(resp) + '\n');
    });
  });
  rl.on('close', () => { chain.then(async () => { try { await browser.close(); } catch (_) {} process.exit(0); }); });
})();
