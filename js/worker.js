'use strict';
// E4: persistent JS oracle worker. One JSON request per line on stdin, one JSON response per line.
const vm = require('vm');
const fs = require('fs');
const path = require('path');
const readline = require('readline');

// Orphan guard: a generated program may spin forever inside vm; if the harness that owns this process dies,
// nobody is left to kill it. A worker thread notices the re-parenting and kills the process.
try {
  new (require('worker_threads').Worker)('const pp = ' + process.ppid + '; setInterval(() => { if (process.ppid !== pp) process.kill(process.pid, "SIGKILL"); }, 2000);', { eval: true }).unref();
} catch (_) {}

const hasSTM = typeof vm.SourceTextModule === 'function';

function errClass(e) {
  try {
    if (e && typeof e === 'object' && typeof e.name === 'string') return e.name;
    if (e && e.constructor && e.constructor.name) return e.constructor.name;
  } catch (_) {}
  return typeof e;
}

// ---------------------------------------------------------------- syntax
function syntaxOne(c) {
  try {
    if (c.goal === 'module') {
      if (!hasSTM) return { ok: false, err: 'no SourceTextModule', infra: true };
      new vm.SourceTextModule(c.code);
    } else if (c.goal === 'function') {
      new vm.Script('(function(){' + c.code + '\n})');
    } else if (c.goal === 'cjs') {
      new vm.Script('(function(exports,require,module,__filename,__dirname){' + c.code + '\n})');
    } else {
      new vm.Script(c.code);
    }
    return { ok: true };
  } catch (e) {
    return { ok: false, err: String(e && e.message).slice(0, 200), cls: errClass(e) };
  }
}

// ---------------------------------------------------------------- universal logging proxy
const uNames = new WeakMap();
let noNames = false;
let quietU = false; // do not log meta-object operations that lowering legitimately performs differently (ownKeys, .call/.apply lookups)
function primOf(name) { let h = 0; for (let i = 0; i < name.length; i++) h = (h * 31 + name.charCodeAt(i)) % 89; return h + 2; }
function mkU(name, log, opts) {
  if (name.length > 60) name = name.slice(0, 28) + '~' + name.slice(-28);
  opts = opts || {};
  const target = (function () {}).bind();
  const sub = (n) => mkU(n, log, {});
  const h = {
    get(t, k) {
      if (k === Symbol.toPrimitive) return (hint) => { log.push(name + ':prim:' + hint); return primOf(name); };
      if (k === Symbol.iterator) return function* () { log.push(name + ':iter'); yield sub(name + '[i0]'); yield sub(name + '[i1]'); };
      if (typeof k === 'symbol') return undefined;
      if (k === 'then' || k === '__tag') return undefined;
      if (quietU && (k === 'call' || k === 'apply' || k === 'bind')) return Function.prototype[k];
      log.push('get ' + name + '.' + k);
      if (opts.nullish === k) return undefined;
      return sub(name + '.' + k);
    },
    set(t, k, v) { log.push('set ' + name + '.' + String(k) + '=' + ser(v)); return true; },
    has(t, k) { log.push('has ' + name + '.' + String(k)); return true; },
    deleteProperty(t, k) { log.push('delete ' + name + '.' + String(k)); return true; },
    apply(t, thisArg, args) { log.push('call ' + name + ' this=' + ser(thisArg) + ' args=' + args.map(x => ser(x)).join(',')); return sub(name + '()'); },
    construct(t, args, nt) { log.push('new ' + name + ' args=' + args.map(x => ser(x)).join(',') + (nt === px ? '' : ' nt=' + ser(nt))); return sub('new ' + name); },
    ownKeys() { if (!quietU) log.push('keys ' + name); return ['k1', 'k2']; },
    getOwnPropertyDescriptor(t, k) { if (k === 'k1' || k === 'k2') return { value: sub(name + '.' + k), enumerable: true, configurable: true, writable: true }; return undefined; },
    getPrototypeOf() { return Function.prototype; },
    defineProperty(t, k, d) { log.push('define ' + name + '.' + String(k)); return true; },
  };
  const px = new Proxy(target, h);
  uNames.set(px, name);
  return px;
}

// ---------------------------------------------------------------- canonical serialisation
function ser(v, depth, seen) {
  depth = depth || 0;
  const t = typeof v;
  if ((t === 'function' || t === 'object') && v !== null && uNames.has(v)) return 'U<' + uNames.get(v) + '>';
  if (v === null) return 'null';
  if (t === 'undefined') return 'undefined';
  if (t === 'number') return Object.is(v, -0) ? '-0' : 'n:' + String(v);
  if (t === 'string') return JSON.stringify(v).replace(/[\u007f-￿]/g, c => '\\u' + c.charCodeAt(0).toString(16).padStart(4, '0'));
  if (t === 'boolean') return String(v);
  if (t === 'bigint') return 'big:' + String(v);
  if (t === 'symbol') return 'sym:' + String(v.description);
  if (t === 'function') {
    let tag = v.__tag;
    return tag !== undefined ? 'fn#' + tag : 'fn';
  }
  if (depth > 4) return 'deep';
  seen = seen || [];
  if (seen.indexOf(v) >= 0) return 'cycle';
  seen.push(v);
  let out;
  try {
    if (Array.isArray(v)) {
      const parts = [];
      for (let i = 0; i < v.length && i < 64; i++) parts.push(i in v ? ser(v[i], depth + 1, seen) : 'hole');
      out = '[' + parts.join(',') + ']';
    } else if (v instanceof Error || (v && typeof v.message === 'string' && typeof v.stack === 'string')) {
      out = 'err:' + errClass(v);
    } else if (v instanceof RegExp || Object.prototype.toString.call(v) === '[object RegExp]') {
      out = 're:' + v.source + '/' + v.flags;
    } else if (Object.prototype.toString.call(v) === '[object Promise]') {
      out = 'promise';
    } else {
      let proto = Object.getPrototypeOf(v);
      let cn = '';
      if (proto === null) cn = 'null-proto';
      else if (noNames) cn = proto === Object.prototype ? '' : 'inst';
      else if (proto !== Object.prototype && proto.constructor && proto.constructor.name && proto.constructor.name !== 'Object') cn = proto.constructor.name;
      const keys = Reflect.ownKeys(v);
      const parts = [];
      for (const k of keys.slice(0, 64)) {
        const d = Object.getOwnPropertyDescriptor(v, k);
        const kn = typeof k === 'symbol' ? 'sym:' + String(k.description) : JSON.stringify(k);
        if (d.get || d.set) parts.push(kn + ':accessor' + (d.enumerable ? '' : '!e'));
        else parts.push(kn + ':' + ser(d.value, depth + 1, seen) + (d.enumerable ? '' : '!e'));
      }
      if (Object.prototype.toString.call(v) !== '[object Object]') cn += Object.prototype.toString.call(v);
      out = cn + '{' + parts.join(',') + '}';
    }
  } catch (e) {
    out = 'ser-throw:' + errClass(e);
  }
  seen.pop();
  return out;
}

function thrown(e) {
  const t = typeof e;
  if (t === 'function' || (t !== 'object') || e === null || uNames.has(e)) return ser(e);
  if (typeof e.message === 'string' && typeof e.name === 'string') return errClass(e);
  return ser(e);
}

// ---------------------------------------------------------------- run
// A case: { codes: [code...], mode: 'script'|'module'|'cjs', calls: [[args...]...], argSpec, fresh }
// Each code, when evaluated, must set globalThis.__f (a function taking (H, ...args)) or, if
// absent, the evaluation itself is the observation. H = helper object with probes.
// Observation per code = string.
let sharedCtx = null;
const callScript = new vm.Script('globalThis.__call()');
function newCtx() {
  const sandbox = { console: { log() {}, error() {}, warn() {}, info() {}, debug() {} } };
  const ctx = vm.createContext(sandbox);
  vm.runInContext('globalThis.globalThis = globalThis; Function.prototype.toString = function toString() { return "function(){[src]}" }; Object.defineProperty(Error.prototype, "stack", {get(){return ""}, set(){}, configurable:true}); Error.captureStackTrace = function(){};', ctx);
  return ctx;
}

function makeArgs(spec, log) {
  // spec: array of arg descriptors
  return spec.map((s, idx) => {
    if (s === null || typeof s !== 'object') return s;
    if (s.t === 'undef') return undefined;
    if (s.t === 'U') return mkU(s.n, log, s);
    if (s.t === 'num') return Number(s.v);
    if (s.t === 'big') return BigInt(s.v);
    if (s.t === 'str') return s.v;
    if (s.t === 'obj') {
      // object with logging valueOf/toString
      const o = { valueOf() { log.push('valueOf' + idx); return s.v; }, toString() { log.push('toString' + idx); return String(s.v); } };
      if (s.props) for (const k of Object.keys(s.props)) o[k] = s.props[k];
      return o;
    }
    if (s.t === 'plain') return JSON.parse(JSON.stringify(s.v));
    if (s.t === 'fn') { const f = function () { log.push('call' + idx + '(' + Array.prototype.map.call(arguments, x => ser(x)).join(',') + ')' + (new.target ? 'new' : '')); return s.v; }; f.__tag = 'arg' + idx; return f; }
    if (s.t === 'arr') return JSON.parse(JSON.stringify(s.v));
    return undefined;
  });
}

function makeH(log) {
  const H = {
    // p(i, v): log i, return v
    p(i, v) { log.push('p' + i); return v; },
    log(...a) { log.push('log(' + a.map(x => ser(x)).join(',') + ')'); },
    // o(i, v): object whose valueOf logs
    o(i, v) { return { valueOf() { log.push('v' + i); return v; }, toString() { log.push('s' + i); return String(v); } }; },
    // f(i, v): function that logs its call and returns v
    f(i, v) { const fn = function (...a) { log.push('f' + i + '(' + a.map(x => ser(x)).join(',') + ')' + (new.target ? 'N' : '') ); return v; }; fn.__tag = i; return fn; },
    // k(i,v): key probe (logs when converted to property key)
    k(i, v) { return { toString() { log.push('k' + i); return v; } }; },
  };
  return H;
}

function runOne(code, c) {
  const mode = c.mode || 'script';
  const ctx = (c.fresh || !sharedCtx) ? newCtx() : sharedCtx;
  if (!c.fresh) sharedCtx = ctx;
  const out = [];
  let f;
  const g = vm.runInContext('globalThis', ctx);
  delete g.__f;
  const evalLog = [];
  g.__H = makeH(evalLog);
  if (c.prelude) vm.runInContext(c.prelude, ctx);
  try {
    if (mode === 'cjs') {
      const fn = vm.runInContext('(function(exports,require,module){' + code + '\n})', ctx);
      const module = { exports: {} };
      fn.call(module.exports, module.exports, function (n) { throw new Error('require ' + n); }, module);
      out.push('exports=' + ser(module.exports));
    } else {
      const r = vm.runInContext(code, ctx);
      if (c.completion) out.push('completion=' + ser(r));
    }
  } catch (e) {
    out.push('eval-throw:' + errClass(e) + (c.msg ? ':' + String(e && e.message) : ''));
  }
  if (evalLog.length) out.push('evallog=' + evalLog.join(','));
  f = g.__f;
  if (typeof f === 'function' && c.calls) {
    for (const spec of c.calls) {
      const log = [];
      const H = makeH(log);
      let res;
      try {
        const args = makeArgs(spec, log);
        const r = f.apply(mkU('T', log), [H].concat(args));
        res = 'ret=' + ser(r);
      } catch (e) {
        if (e && e.code === 'ERR_SCRIPT_EXECUTION_TIMEOUT') res = 'TIMEOUT';
        else res = 'throw=' + thrown(e);
      }
      out.push(log.join(',') + '|' + res);
    }
  }
  return out.join('\n');
}

// async variant: __f returns a promise; wait for settle with a microtask/macrotask drain.
async function runOneAsync(code, c) {
  const ctx = newCtx();
  const g = vm.runInContext('globalThis', ctx);
  const out = [];
  const evalLog = [];
  g.__H = makeH(evalLog);
  try {
    vm.runInContext(code, ctx);
  } catch (e) {
    out.push('eval-throw:' + errClass(e));
  }
  if (evalLog.length) out.push('evallog=' + evalLog.join(','));
  const f = g.__f;
  if (typeof f === 'function' && c.calls) {
    for (const spec of c.calls) {
      const log = [];
      const H = makeH(log);
      let res;
      try {
        const args = makeArgs(spec, log);
        let r = f.apply(mkU('T', log), [H].concat(args));
        if (r && typeof r.then === 'function') {
          r = await Promise.race([r, new Promise((_, rej) => setTimeout(() => rej(new Error('verif-timeout')), 2000))]);
          res = 'aret=' + ser(r);
        } else res = 'ret=' + ser(r);
      } catch (e) {
        res = 'throw=' + thrown(e);
      }
      // let pending microtasks settle
      await new Promise(r => setImmediate(r));
      out.push(log.join(',') + '|' + res);
    }
  }
  return out.join('\n');
}

const ops = {
  ping: async () => ({ ok: true, version: process.version }),
  syntax: async (req) => ({ r: req.cases.map(syntaxOne) }),
  run: async (req) => {
    const r = [];
    for (const c of req.cases) {
      const obs = [];
      noNames = !!c.noNames;
      quietU = !!c.quiet;
      for (const code of c.codes) obs.push(c.async ? await runOneAsync(code, c) : runOne(code, c));
      r.push(obs);
    }
    return { r };
  },
};

// extension modules register more ops
for (const f of fs.readdirSync(__dirname)) {
  if (/^op_.*\.js$/.test(f)) {
    const m = require(path.join(__dirname, f));
    if (typeof m.register === 'function') m.register(ops, { ser, errClass, newCtx, makeH, makeArgs, vm });
  }
}

process.on('unhandledRejection', () => {});
const rl = readline.createInterface({ input: process.stdin, terminal: false, crlfDelay: Infinity });
let chain = Promise.resolve();
rl.on('line', (line) => {
  chain = chain.then(async () => {
    let resp;
    try {
      const req = JSON.parse(line);
      const op = ops[req.op];
      if (!op) resp = { infraError: 'unknown op ' + req.op };
      else resp = await op(req);
    } catch (e) {
      resp = { infraError: String(e && e.stack || e) };
    }
    process.stdout.write(JSON.stringify(resp) + '\n');
  });
});
rl.on('close', () => { chain.then(() => process.exit(0)); });
