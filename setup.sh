#!/bin/bash
# Run once after a fresh restore (offline): pre-warm the Go build cache and sanity-check the oracles.
set -e
cd /verif
export GOFLAGS=-mod=mod GOPROXY=off GOSUMDB=off GOTOOLCHAIN=local
mkdir -p .build evidence replays
./build.sh
echo '{"op":"ping"}' | /root/.nvm/versions/node/v20.20.2/bin/node --experimental-vm-modules js/worker.js
./sched/build.sh
RACE=1 ./sched/build.sh
echo setup ok
