#!/bin/bash
# usage: seedcheck.sh <ID> <patch> [check-id]  -- applies a seeded patch to /repo, runs the quick check, reverts
# with SEED_TREE=<worktree that already contains the change> nothing in /repo is touched: the harness is built from
# that tree into a private build directory
ID=$1; P=$2; CK=${3:-$1}
if [ -n "$SEED_TREE" ]; then
  cd /verif
  export VERIF_REPO=$SEED_TREE VERIF_BUILD=/tmp/seedbuild-$ID
  mkdir -p $VERIF_BUILD
  VERIF_NO_EVIDENCE=1 VERIF_BUDGET_S=${VERIF_BUDGET_S:-300} ./check $CK --tier ${TIER:-quick} 2>&1 | grep -E "^(VIOLATION|C[0-9]+ tier|INFRA)" | head -${N:-4} | cut -c1-220
  rm -rf $VERIF_BUILD
  exit 0
fi
cd /repo && git apply "$P" || { echo "patch does not apply"; exit 3; }
cd /verif
VERIF_BUDGET_S=${VERIF_BUDGET_S:-300} ./check $CK --tier ${TIER:-quick} 2>&1 | grep -E "^(VIOLATION|C[0-9]+ tier|INFRA)" | head -${N:-4} | cut -c1-220
git -C /repo checkout -- .
git -C /repo status --short | head -3
