#!/bin/bash
# usage: seedcheck.sh <ID> <patch> [check-id]  -- applies a seeded patch to /repo, runs the quick check, reverts
ID=$1; P=$2; CK=${3:-$1}
cd /repo && git apply "$P" || { echo "patch does not apply"; exit 3; }
cd /verif
VERIF_BUDGET_S=${VERIF_BUDGET_S:-300} ./check $CK --tier ${TIER:-quick} 2>&1 | grep -E "^(VIOLATION|C[0-9]+ tier|INFRA)" | head -${N:-4} | cut -c1-220
git -C /repo checkout -- .
git -C /repo status --short | head -3
