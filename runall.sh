#!/bin/bash
# runs every registered quick check sequentially; prints one status line each
cd /verif
for id in $(python3 -c "import json;print(' '.join(c['property_id'] for c in json.load(open('MANIFEST.json'))['checks']))"); do
  if [ -n "$1" ] && ! echo " $* " | grep -q " $id "; then continue; fi
  s=$(date +%s)
  out=$(./check $id --tier quick 2>&1); rc=$?
  e=$(date +%s)
  echo "$id rc=$rc $((e-s))s $(echo "$out" | grep -c '^VIOLATION') violations; $(echo "$out" | grep -c '^KNOWN-FINDING') known; $(echo "$out" | grep "^$id tier" | cut -c1-120)"
done
