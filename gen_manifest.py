#!/usr/bin/env python3
# Generates MANIFEST.json from the table below (kept in one place so it stays valid).
import json
EXPL="exploration"
checks = {
 "C01": dict(level=EXPL, ref="§C01", tech="bounded-exhaustive enumeration of expression/statement trees and literal alphabets, differential execution in V8 (input vs output)",
   text="every expression tree of the stated depth over the full operator table in every statement context, every statement skeleton of depth<=2, all 65536 UTF-16 code units and all words<=3 over class representatives, every float64 exponent x mantissa pattern, regex bodies<=3 atoms: esbuild's output under 7 formatting configurations is executed in V8 next to the input with logging proxies; any difference in call log, result or thrown class is a violation",
   note="V8 (Node 20) is the reference semantics; source text of functions and stack traces are never observed; JSX sub-space not yet built"),
 "C02": dict(level=EXPL, ref="§C02", tech="bounded-exhaustive enumeration of module graphs (shapes x module kinds x edge kinds), differential execution: Node's native ESM/CJS loaders vs the bundle loaded per format",
   text="all graphs of <=3 modules over 10 shapes x {.mjs,.cjs} x 12 edge kinds x CJS export styles x throwing variants are loaded natively by Node and as esm/cjs/iife bundles (node/browser/neutral, minified or not); evaluation log, live bindings, interop shapes, thrown error classes and the entry's export surface must agree; asset loaders (binary/base64/dataurl/text/json) over all single bytes and byte-class words must yield exactly the file's bytes/text/JSON value",
   note="Node 20 native loaders are the reference; documented limitations excluded by construction (sibling TLA, CJS requiring ESM, mutation of CJS exports after evaluation, racing independent async chains)"),
 "C03": dict(level=EXPL, ref="§C03", tech="bounded-exhaustive enumeration (operators x boundary grid^2 fold table; trees/patterns with probes x 8 minify subsets), differential execution in V8",
   text="complete constant-folding table over a 46-56 value boundary grid for all binary/unary/conditional operators compared with V8's own evaluation; expression trees, statement skeletons and ~560 minifier trigger patterns with side-effect probes under 8 minify flag subsets (+define/pure/drop/drop-labels against generator-side references)",
   note="V8 (Node 20) is the reference semantics; documented minifier assumptions (function names without keep-names, TDZ) are not observed"),
 "C04": dict(level=EXPL, ref="§C04", tech="bounded-exhaustive enumeration of unused top-level statements (singles and pairs over a ~150 statement alphabet) x tree-shaking modes, differential execution against native loading",
   text="every unused statement of the alphabet (hidden probes in every syntactic position the purity analysis inspects) is added to a module with used exports, singly and in pairs; bundles with tree shaking default/true/false x esm/cjs/iife x minify must produce the native evaluation log, error class and export surface; annotation cases allow exactly the generator-marked lines to disappear",
   note="Node 20 native execution is the reference; strict-mode loss when converting ESM to cjs/iife is outside this property"),
 "C05": dict(level=EXPL, ref="§C05", tech="bounded-exhaustive enumeration of lowerable constructs in all positions x targets, differential execution (native Node 22 vs lowered output)",
   text="every operator/construct of the table in every statement context, lowering-relevant (parent,slot,child) pairs, ~130 lowering templates x operand trees; each program runs natively in Node 22 and its esbuild output for es2015..es2022/esnext/minified/each single feature unsupported runs in the same engine; call logs (universal logging proxies), this/arguments/super observations, results and thrown classes must agree; ten genuine lowering deviations are recorded as known findings with exact classifiers",
   note="Node 22 is the native reference; microtask turn counts, ES5, decorators and `using` excluded; meta-object-protocol details (ownKeys order, .call lookups on proxies) are not observed"),
 "C14": dict(level=EXPL, ref="§C14", tech="bounded-exhaustive enumeration of feature programs x targets; the target engine itself (7 installed Node versions) parses every output; lexical detectors for overrides",
   text="operator table x contexts, lowering templates, statement hazards and minifier trigger patterns x {node10..node22 exact versions, es2015..es2024} x {plain, minify, iife, esm}: the named engine (witness engine for ES years) must accept each output; supported:false => feature absent lexically, all-supported es2015 == esnext; bundles with helpers/wrappers per target x format x minify",
   note="ES-year targets are witnessed by the oldest installed engine implementing at least that year; es2015-17 partly by lexical detectors"),
 "C16": dict(level=EXPL, ref="§C16", tech="bounded-exhaustive enumeration of byte/token words, corpus single-token mutants, nesting words and config-file matrices; subprocess workers with journal",
   text="all byte words<=3 over 38 byte classes x 7 loaders, token words, every test-suite input literal under every loader plus its single-token deletions/duplications/swaps, nesting words w^n, source-map payload grammar, package.json/tsconfig.json key x value-kind matrix through real bundles: the call returns, no panic/internal-error text, worker processes survive, canary build succeeds",
   note="inputs above tens of kilobytes / nesting above 20000 not explored; hang = no answer within 120 s"),
 "C06": dict(level=EXPL, ref="§C06", tech="bounded-exhaustive enumeration of type positions x type forms (byte equality of typed vs untyped twin), js-vs-ts loader equality over the JS space, enum constant-expression grammar executed against reference emit",
   text="80 type positions x (113 type forms + hole-forms nested once) x {ts,tsx,mts}: Transform(typed)==Transform(untyped twin), also minified; the C01 expression/statement space and 43 contextual keywords x 27 follower contexts compile identically under js/ts and jsx/tsx; all enum initialisers of depth<=2 over the constant-expression grammar (regular, const, cross-module inlined) plus namespace/parameter-property/class-field-semantics cases executed in V8 against TypeScript's reference emit",
   note="typed programs are valid TypeScript by construction (no independent TS parser available offline); experimentalDecorators not covered; `a<b>(c)` token runs and unused imports excluded as documented"),
 "C08": dict(level="model_checking", ref="§C08", tech="stateless model checking of the real code: source-instrumented cooperative scheduler (every go statement, mutex, wait group, once, atomic, channel op, sleep) + deviation-bounded DFS over schedules, sharded over 16 processes",
   text="the real api.Build, re-compiled from /repo's working tree through an automatic instrumenter, runs under a scheduler that owns all goroutine interleavings; all schedules within the deviation bound (quick 1, thorough 2: preemptions and non-default picks at blocking points) around three default policies are executed for four module graphs (splitting+CSS+assets, mangle-props with three entries, failing entries+warnings, inject+glob); every execution must yield the identical observation (outputs, hashes, metafile, mangle cache, ordered diagnostics); deadlocks and panics are violations; a found difference is replayed before it is reported",
   note="sequentially consistent scheduler (no weak memory); Go map iteration order not controlled (replay divergence is an infrastructure error, not a verdict); serve_other.go is outside the instrumented set"),
 "C18": dict(level=EXPL, ref="§C18", tech="exhaustive enumeration of build families x option variants x single-point edits; all pairs of builds compared (equal hashed path => equal bytes), reference closure and placeholder scan per build",
   text="7 build families x 12 option variants x every single-point edit of every input file (code, comment-only, whitespace-only, legal-comment-only, JSON value, asset byte): for every hashed output path all builds emitting it must agree byte-for-byte (this decides 'name changes when content or anything referenced changes' through its contrapositive, including .map and .LEGAL.txt siblings); all import/url()/sourceMappingURL/legal links resolve inside the same build; no placeholder pattern survives",
   note="families are hand-built; larger graphs (many chunks, cycles of dynamic imports) only as far as the splitting family goes"),
 "C19": dict(level=EXPL, ref="§C19", tech="exhaustive enumeration of build families x option variants; metafile decided against the emitted bytes (independent scanners for import/export/@import/url())",
   text="7 hand-built families covering externals, JSON, CJS, dynamic imports, tree-shaken modules, CSS @import/url()/data URLs, splitting, legal comments, glob imports, inject, copy/file loader entries x 11 option variants (minify, source maps, hashed/long name templates, public path, formats) plus the C02 graph family: outputs keys and byte sizes, entry points, per-output imports and exports, inputs with sizes and resolved imports, bytesInOutput sums and marker-based contribution",
   note="regex scanners are exact only for esbuild's regular output of the generated programs; data-URL inlined assets are not attributed by markers"),
 "C20": dict(level="model_checking", ref="§C20", tech="stateless model checking of the real pkg/api context code under the instrumented cooperative scheduler; all op-words<=2 per client thread x deviation-bounded schedules; interval invariants on a ground-truth event log",
   text="224 harnesses (every pair of words of <=2 operations over {Rebuild, Cancel, Dispose, Edit} for 2 client threads, 3 single-operation threads, injected failures of each callback kind) run against one real build context whose modules come from plugin callbacks; all schedules within the deviation bound (quick 1, thorough 2) at choice points in pkg/api, config, helpers and the callbacks, two default policies; invariants: no deadlock/panic, every Rebuild returns empty-after-dispose / cancelled / exactly one build's result (no mixture, equals what that build's end callback saw, not stale, reflects earlier edits when started after the call), Cancel/Dispose return only after the active build ended, nothing runs after Dispose returned, start callbacks finish before resolve/load, each module loaded once per build, end callbacks once",
   note="sequentially consistent scheduler; Serve over sockets, Watch polling and the stdio service loop (cmd/esbuild) are not part of the explored harnesses yet; the first schedule of every harness is replayed to validate determinism"),
 "C10": dict(level=EXPL, ref="§C10", tech="bounded-exhaustive enumeration of entry/shared-module incidence matrices x all subsets and orders of entry points, differential execution against native multi-entry loading + static chunk-graph checks",
   text="k in {2,3} entries x m<=3 shared modules x every incidence matrix over {none, static, dynamic, re-export, side-effect import} (strided in quick), shared chains, entry-as-dependency; splitting builds (default/minify/name templates) are written out and every non-empty subset and order of entry points is loaded into one realm and compared per module with native loading of the sources in the same order; chunk import graph must be acyclic and closed",
   note="Node 20 native ESM is the reference; cross-module order of top-level code not compared (documented); public-path builds not executed"),
 "C13": dict(level=EXPL, ref="§C13", tech="bounded-exhaustive enumeration of token words (small-scope model checking of the lexer/parser/printer state machine) with V8 as reference grammar",
   text="all token words up to length 3 (thorough 4) over a 100+ token context-sensitive alphabet; each word is run through the real esbuild and decided against V8 (accept/reject agreement, output validity per goal under 5 configurations, fixed point T(T(x))==T(x))",
   note="V8 of Node 20 is the reference grammar; inputs V8 rejects are outside the quantifier"),
}
m = {
 "version": 1,
 "setup_cmd": "./setup.sh",
 "hooks": {"guard": "verif", "enable": "go build -tags verif -overlay /verif/.build/overlay.json (harness packages are overlaid into /repo/internal/verifh; hook files in /repo are guarded by //go:build verif)",
   "baseline_off_cmd": "cd /repo && GOFLAGS=-mod=mod go test -vet=off -count=1 -timeout 25m ./...", "source_commits": [], "add_only": True},
 "engines": [
  {"name": "verifh", "path": "/verif/h", "serves_properties": sorted(checks), "kind_free_text": "Go bounded-exhaustive enumerators + drivers over the real esbuild API, built by overlay from /repo's working tree"},
  {"name": "vsync+instr+explore", "path": "/verif/sched", "serves_properties": ["C08", "C20"], "kind_free_text": "source instrumenter (go/ast) + cooperative scheduler runtime + deviation-bounded DFS explorer for the real esbuild code"},
  {"name": "noderun", "path": "/verif/js/worker.js", "serves_properties": sorted(checks), "kind_free_text": "persistent V8 oracle workers (syntax check, execution with probe log and universal logging proxies)"},
 ],
 "checks": [], "not_applicable": [],
 "notes": "work in progress; properties not yet listed under checks are being built (see not_applicable reasons)"
}
for pid in sorted(checks):
    c = checks[pid]
    m["checks"].append({"property_id": pid, "quick_cmd": f"./check {pid} --tier quick", "thorough_cmd": f"./check {pid} --tier thorough",
      "evidence_file": f"/verif/evidence/{pid}.json", "replay_cmd_template": f"./check {pid} --replay {{path}}", "engine": "verifh",
      "level_claimed": {"category": c["level"], "text": c["text"], "design_ref": "DESIGN.md " + c["ref"]}, "level_note": c["note"], "technique": c["tech"]})
for i in range(1, 21):
    pid = f"C{i:02d}"
    if pid not in checks:
        m["not_applicable"].append({"property_id": pid, "reason": "check not built yet in this session (planned, see DESIGN.md §3); not claimed until it is clean on the unchanged tree"})
json.dump(m, open("/verif/MANIFEST.json", "w"), indent=1)
print("wrote MANIFEST.json with", len(m["checks"]), "checks")
