#!/usr/bin/env python3
# Generates MANIFEST.json from the table below (kept in one place so it stays valid).
import json
EXPL="exploration"
checks = {
 "C01": dict(level=EXPL, ref="§C01", tech="bounded-exhaustive enumeration of expression/statement trees and literal alphabets, differential execution in V8 (input vs output)",
   text="every expression tree of the stated depth over the full operator table in every statement context, every statement skeleton of depth<=2, all 65536 UTF-16 code units and all words<=3 over class representatives, every float64 exponent x mantissa pattern, regex bodies<=3 atoms: esbuild's output under 7 formatting configurations is executed in V8 next to the input with logging proxies; any difference in call log, result or thrown class is a violation",
   note="V8 (Node 20) is the reference semantics; source text of functions and stack traces are never observed; JSX sub-space not yet built"),
 "C03": dict(level=EXPL, ref="§C03", tech="bounded-exhaustive enumeration (operators x boundary grid^2 fold table; trees/patterns with probes x 8 minify subsets), differential execution in V8",
   text="complete constant-folding table over a 46-56 value boundary grid for all binary/unary/conditional operators compared with V8's own evaluation; expression trees, statement skeletons and ~560 minifier trigger patterns with side-effect probes under 8 minify flag subsets (+define/pure/drop/drop-labels against generator-side references)",
   note="V8 (Node 20) is the reference semantics; documented minifier assumptions (function names without keep-names, TDZ) are not observed"),
 "C13": dict(level=EXPL, ref="§C13", tech="bounded-exhaustive enumeration of token words (small-scope model checking of the lexer/parser/printer state machine) with V8 as reference grammar",
   text="all token words up to length 3 (thorough 4) over a 100+ token context-sensitive alphabet; each word is run through the real esbuild and decided against V8 (accept/reject agreement, output validity per goal under 5 configurations, fixed point T(T(x))==T(x))",
   note="V8 of Node 20 is the reference grammar; inputs V8 rejects are outside the quantifier"),
}
m = {
 "version": 1,
 "setup_cmd": "./setup.sh",
 "hooks": {"guard": "verif", "enable": "go build -tags verif -overlay /verif/.build/overlay.json (harness packages are overlaid into /repo/internal/verifh; hook files in /repo are guarded by //go:build verif)",
   "baseline_off_cmd": "cd /repo && GOFLAGS=-mod=mod go test -vet=off -count=1 -timeout 25m ./...", "source_commits": [], "add_only": True},
 "engines": [
  {"name": "verifh", "path": "/verif/h", "serves_properties": sorted(checks), "kind_free_text": "Go bounded-exhaustive enumerators + drivers over the real esbuild API, built by overlay from /repo's working tree"},
  {"name": "noderun", "path": "/verif/js/worker.js", "serves_properties": sorted(checks), "kind_free_text": "persistent V8 oracle workers (syntax check, execution with probe log and universal logging proxies)"},
 ],
 "checks": [], "not_applicable": [],
 "notes": "work in progress; properties not yet listed under checks are being built (see not_applicable reasons)"
}
for pid in sorted(checks):
    c = checks[pid]
    m["checks"].append({"property_id": pid, "quick_cmd": f"./check {pid} --tier quick", "thorough_cmd": f"./check {pid} --tier thorough",
      "evidence_file": f"/verif/evidence/{pid}.json", "replay_cmd_template": f"./check {pid} --replay {{path}}", "engine": "verifh",
      "level_claimed": {"category": c["level"], "text": c["text"], "design_ref": "DESIGN.md " + c["ref"]}, "level_note": c["note"], "technique": c["tech"]})
for i in range(1, 21):
    pid = f"C{i:02d}"
    if pid not in checks:
        m["not_applicable"].append({"property_id": pid, "reason": "check not built yet in this session (planned, see DESIGN.md §3); not claimed until it is clean on the unchanged tree"})
json.dump(m, open("/verif/MANIFEST.json", "w"), indent=1)
print("wrote MANIFEST.json with", len(m["checks"]), "checks")
