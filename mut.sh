#!/bin/bash
# usage: mut.sh <ID> <file-in-repo> <python-regex-or-literal-old> <new>   -- applies a one-line literal replacement to /repo, runs the quick check, reverts.
ID=$1; F=$2; OLD=$3; NEW=$4
cd /repo
python3 - "$F" "$OLD" "$NEW" <<'PY' || exit 3
import sys
f,old,new=sys.argv[1:4]
s=open(f).read()
if s.count(old)<1: print("pattern not found"); sys.exit(1)
open(f,'w').write(s.replace(old,new,1))
PY
cd /verif
VERIF_BUDGET_S=${VERIF_BUDGET_S:-200} ./check $ID --tier quick 2>&1 | grep -E "^(VIOLATION|C[0-9]+ tier|KNOWN|INFRA)" | head -8
git -C /repo checkout -- .
