#!/bin/bash
# usage: sched/run.sh <C08|C20> [--tier ...]  (called by ./check)
cd /verif
( flock 9; ./sched/build.sh >/dev/null 2>.build/sbuild.err && RACE=1 ./sched/build.sh >/dev/null 2>>.build/sbuild.err ) 9>.build/slock || { cat .build/sbuild.err | tail -20; echo "INFRASTRUCTURE ERROR: scheduler harness build failed"; exit 2; }
exec .build/verifs "$@"
