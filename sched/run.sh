#!/bin/bash
# usage: sched/run.sh <C08|C20> [--tier ...]  (called by ./check)
cd /verif
B=${VERIF_BUILD:-.build}
( flock 9; ./sched/build.sh >/dev/null 2>$B/sbuild.err && RACE=1 ./sched/build.sh >/dev/null 2>>$B/sbuild.err ) 9>$B/slock || { cat $B/sbuild.err | tail -20; echo "INFRASTRUCTURE ERROR: scheduler harness build failed"; exit 2; }
exec $B/verifs "$@"
