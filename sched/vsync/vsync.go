// Package vsync is a drop-in replacement for the parts of "sync" that esbuild uses, plus hooks for
// goroutine creation, channel operations and sleeping. Without an active scheduler (S == nil) every
// operation delegates to the real primitive ("passthrough": used by the free-running -race pass).
// With an active scheduler exactly one managed goroutine runs at a time and every operation is a
// scheduling point whose enabledness is decided by the textbook semantics of the primitive.
package vsync

import (
	"sort"
	"math/rand"
	"fmt"
	"reflect"
	"runtime"
	realsync "sync"
	"time"
)

type Kind uint8

const (
	KStart Kind = iota
	KLock
	KUnlock
	KWGAdd
	KWGWait
	KOnce
	KAtomic
	KSend
	KAfterSend
	KRecv
	KClose
	KSleep
	KSpawn
	KUser
	KExit
)

var kindNames = [...]string{"start", "lock", "unlock", "wg.add", "wg.wait", "once", "atomic", "send", "sent", "recv", "close", "sleep", "spawn", "user", "exit"}

func (k Kind) String() string { return kindNames[k] }

type Op struct {
	Kind Kind
	Obj  int    // object id (creation order)
	Site string // file:line of the hooked operation
	Tag  string // optional user tag (KUser)
}

type Thread struct {
	ID      int
	Name    string
	resume  chan struct{}
	Pending Op
	Done    bool
	wake    time.Duration
	ops     int
	Parent  int
	sched   *Sched
}

type chanState struct {
	id     int
	unbuf  bool
	cap    int
	n      int
	closed bool
}

// Point describes one scheduling decision (for the explorer).
type Point struct {
	Enabled    []int // thread ids in canonical order (current first if enabled, then ascending)
	CurEnabled bool
	Chosen     int // index into Enabled
	Op         Op  // op of the chosen thread
	Sleepers   int // how many of Enabled are sleeping threads (timer deviations)
}

type Sched struct {
	Threads  []*Thread
	cur      *Thread
	yield    chan struct{}
	Choose   func(p *Point) int
	Points   []Point
	chans    map[uintptr]*chanState
	objs     int
	Clock    time.Duration
	Deadlock bool
	Panic    interface{}
	MaxOps   int
	Aborted  bool
	Branch   func(op Op) bool // nil: every point is a choice point; else only points where some enabled thread's op satisfies it
	TraceOn  bool
	Trace    []string
	objIDs   map[interface{}]int
}

// S is the active scheduler (nil = passthrough).
var S *Sched

func site(skip int) string {
	_, file, line, ok := runtime.Caller(skip)
	if !ok {
		return "?"
	}
	// shorten
	for i := len(file) - 1; i >= 0; i-- {
		if file[i] == '/' {
			n := 0
			for j := i - 1; j >= 0; j-- {
				if file[j] == '/' {
					n++
					if n == 1 {
						file = file[j+1:]
						break
					}
				}
			}
			break
		}
	}
	return fmt.Sprintf("%s:%d", file, line)
}

func (s *Sched) newThread(name string, parent int) *Thread {
	t := &Thread{ID: len(s.Threads), Name: name, resume: make(chan struct{}), Parent: parent, sched: s}
	t.Pending = Op{Kind: KStart}
	s.Threads = append(s.Threads, t)
	return t
}

func (s *Sched) newObj() int { s.objs++; return s.objs }

func (s *Sched) enabled(t *Thread) bool {
	if t.Done {
		return false
	}
	switch t.Pending.Kind {
	case KLock:
		m := lockObjs[t.Pending.Obj]
		return m != nil && !m.locked
	case KWGWait:
		w := wgObjs[t.Pending.Obj]
		return w != nil && w.counter == 0
	case KOnce:
		o := onceObjs[t.Pending.Obj]
		return o != nil && !o.running
	case KSend:
		cs := chanByID[t.Pending.Obj]
		if cs.closed {
			return true // will panic, as in Go
		}
		if cs.unbuf {
			if cs.n != 0 {
				return false
			}
			for _, u := range s.Threads {
				if !u.Done && u != t && u.Pending.Kind == KRecv && u.Pending.Obj == cs.id {
					return true
				}
			}
			return false
		}
		return cs.n < cs.cap
	case KRecv:
		cs := chanByID[t.Pending.Obj]
		return cs.n > 0 || cs.closed
	case KSleep:
		return true // choosing a sleeper while others are enabled is a timer deviation (see explorer)
	}
	return true
}

var lockObjs map[int]*Mutex
var wgObjs map[int]*WaitGroup
var onceObjs map[int]*Once
var chanByID map[int]*chanState

type Result struct {
	Deadlock bool
	Blocked  []string
	Panic    interface{}
	Points   []Point
	Threads  int
	Aborted  bool
	Trace    []string
}

// Run executes body under the scheduler. choose picks an index into p.Enabled.
func Run(body func(), choose func(p *Point) int, opts ...func(*Sched)) (res Result) {
	s := &Sched{yield: make(chan struct{}), Choose: choose, chans: map[uintptr]*chanState{}, MaxOps: 2000000, objIDs: map[interface{}]int{}}
	for _, o := range opts {
		o(s)
	}
	lockObjs = map[int]*Mutex{}
	wgObjs = map[int]*WaitGroup{}
	onceObjs = map[int]*Once{}
	chanByID = map[int]*chanState{}
	S = s
	defer func() { S = nil }()
	t0 := s.newThread("main", -1)
	go s.threadMain(t0, body)
	total := 0
	for {
		var en []*Thread
		curEnabled := false
		if s.cur != nil && s.enabled(s.cur) {
			en = append(en, s.cur)
			curEnabled = true
		}
		nonSleep := 0
		for _, t := range s.Threads {
			if t != s.cur && s.enabled(t) {
				en = append(en, t)
			}
		}
		for _, t := range en {
			if t.Pending.Kind != KSleep {
				nonSleep++
			}
		}
		if len(en) == 0 {
			alive := 0
			for _, t := range s.Threads {
				if !t.Done {
					alive++
					res.Blocked = append(res.Blocked, fmt.Sprintf("T%d(%s) blocked at %s %s obj#%d", t.ID, t.Name, t.Pending.Kind, t.Pending.Site, t.Pending.Obj))
				}
			}
			if alive > 0 {
				res.Deadlock = true
			}
			break
		}
		// canonical order: current first (already), then non-sleepers ascending, sleepers last (ascending wake)
		if nonSleep > 0 && nonSleep < len(en) {
			var a, b []*Thread
			for _, t := range en {
				if t.Pending.Kind != KSleep {
					a = append(a, t)
				} else {
					b = append(b, t)
				}
			}
			en = append(a, b...)
			curEnabled = curEnabled && s.cur.Pending.Kind != KSleep
		}
		p := Point{CurEnabled: curEnabled, Sleepers: len(en) - nonSleep}
		for _, t := range en {
			p.Enabled = append(p.Enabled, t.ID)
		}
		idx := 0
		isChoice := len(en) > 1
		if isChoice && s.Branch != nil {
			isChoice = false
			for _, t := range en {
				if s.Branch(t.Pending) {
					isChoice = true
					break
				}
			}
		}
		if isChoice {
			idx = s.Choose(&p)
			if idx < 0 || idx >= len(en) {
				panic(fmt.Sprintf("vsync: chooser returned %d of %d", idx, len(en)))
			}
			p.Chosen = idx
			p.Op = en[idx].Pending
			s.Points = append(s.Points, p)
		}
		t := en[idx]
		if s.TraceOn {
			s.Trace = append(s.Trace, fmt.Sprintf("T%d %s #%d %s", t.ID, t.Pending.Kind, t.Pending.Obj, t.Pending.Site))
		}
		s.apply(t)
		s.cur = t
		total++
		if total > s.MaxOps {
			res.Aborted = true
			break
		}
		t.resume <- struct{}{}
		<-s.yield
		if s.Panic != nil {
			break
		}
	}
	res.Points = s.Points
	res.Panic = s.Panic
	res.Threads = len(s.Threads)
	res.Trace = s.Trace
	return res
}

// apply performs the state change of the granted operation.
func (s *Sched) apply(t *Thread) {
	switch t.Pending.Kind {
	case KLock:
		lockObjs[t.Pending.Obj].locked = true
	case KSend:
		cs := chanByID[t.Pending.Obj]
		if !cs.closed {
			cs.n++
		}
	case KRecv:
		cs := chanByID[t.Pending.Obj]
		if cs.n > 0 {
			cs.n--
		}
	case KSleep:
		if t.wake > s.Clock {
			s.Clock = t.wake
		}
	}
}

func (s *Sched) threadMain(t *Thread, body func()) {
	id := goid()
	managed.Store(id, t)
	<-t.resume
	defer func() {
		managed.Delete(id)
		if r := recover(); r != nil {
			s.Panic = fmt.Sprintf("panic in T%d(%s): %v", t.ID, t.Name, r)
		}
		t.Done = true
		t.Pending = Op{Kind: KExit}
		s.yield <- struct{}{}
	}()
	body()
}

// goid returns the id of the calling goroutine.
func goid() uint64 {
	var buf [40]byte
	n := runtime.Stack(buf[:], false)
	var id uint64
	for i := 10; i < n; i++ { // after "goroutine "
		c := buf[i]
		if c < '0' || c > '9' {
			break
		}
		id = id*10 + uint64(c-'0')
	}
	return id
}

var managed realsync.Map // goroutine id -> *Thread (goroutines started in passthrough mode stay unmanaged)

// me returns the managed thread of the calling goroutine, or nil (then the caller uses the real primitive).
func me() *Thread {
	if S == nil {
		return nil
	}
	if v, ok := managed.Load(goid()); ok {
		t := v.(*Thread)
		if t.sched == S {
			return t
		}
	}
	return nil
}

// point parks the current thread at op until the scheduler grants it.
func point(op Op) {
	s := S
	t := s.cur
	t.Pending = op
	t.ops++
	s.yield <- struct{}{}
	<-t.resume
}

// UserPoint is a scheduling point harnesses may place in plugin callbacks etc.
func UserPoint(tag string) {
	if me() == nil {
		return
	}
	point(Op{Kind: KUser, Site: site(2), Tag: tag})
}

// CurrentThread returns the id of the running managed thread (-1 in passthrough mode).
func CurrentThread() int {
	if S == nil || S.cur == nil {
		return -1
	}
	return S.cur.ID
}

// Now returns the logical clock in controlled mode.
func Now() time.Duration {
	if S == nil {
		return time.Duration(time.Now().UnixNano())
	}
	return S.Clock
}

// ---------------------------------------------------------------- goroutines

func Go(fn func()) {
	if me() == nil {
		go fn()
		return
	}
	s := S
	t := s.newThread(site(2), s.cur.ID)
	go s.threadMain(t, fn)
	point(Op{Kind: KSpawn, Site: t.Name})
}

// ---------------------------------------------------------------- Mutex

type Mutex struct {
	real   realsync.Mutex
	locked bool
	id     int
}

func (m *Mutex) Lock() {
	if me() == nil {
		m.real.Lock()
		return
	}
	if m.id == 0 || lockObjs[m.id] != m {
		m.id = S.newObj()
		lockObjs[m.id] = m
		m.locked = false
	}
	point(Op{Kind: KLock, Obj: m.id, Site: site(2)})
}

func (m *Mutex) Unlock() {
	if me() == nil {
		m.real.Unlock()
		return
	}
	if m.id == 0 || lockObjs[m.id] != m || !m.locked {
		panic("vsync: unlock of unlocked mutex")
	}
	m.locked = false
	point(Op{Kind: KUnlock, Obj: m.id, Site: site(2)})
}

type Locker = realsync.Locker

// ---------------------------------------------------------------- WaitGroup

type WaitGroup struct {
	real    realsync.WaitGroup
	counter int
	id      int
}

func (w *WaitGroup) reg() {
	if w.id == 0 || wgObjs[w.id] != w {
		w.id = S.newObj()
		wgObjs[w.id] = w
		w.counter = 0
	}
}

func (w *WaitGroup) Add(n int) {
	if me() == nil {
		w.real.Add(n)
		return
	}
	w.reg()
	point(Op{Kind: KWGAdd, Obj: w.id, Site: site(2)})
	w.counter += n
	if w.counter < 0 {
		panic("sync: negative WaitGroup counter")
	}
}

func (w *WaitGroup) Done() {
	if me() == nil {
		w.real.Done()
		return
	}
	w.reg()
	point(Op{Kind: KWGAdd, Obj: w.id, Site: site(2)})
	w.counter--
	if w.counter < 0 {
		panic("sync: negative WaitGroup counter")
	}
}

func (w *WaitGroup) Wait() {
	if me() == nil {
		w.real.Wait()
		return
	}
	w.reg()
	point(Op{Kind: KWGWait, Obj: w.id, Site: site(2)})
}

// ---------------------------------------------------------------- Once

type Once struct {
	real    realsync.Once
	done    bool
	running bool
	id      int
	gen     *Sched
}

func (o *Once) Do(f func()) {
	if me() == nil {
		o.real.Do(f)
		return
	}
	// a Once that completed in passthrough mode (process-global warm-up) stays done
	if o.gen != S {
		o.gen = S
		o.id = S.newObj()
		onceObjs[o.id] = o
		o.running = false
	}
	point(Op{Kind: KOnce, Obj: o.id, Site: site(2)})
	if o.done {
		return
	}
	o.running = true
	defer func() { o.running = false; o.done = true }()
	o.real.Do(f)
}

// ---------------------------------------------------------------- channels

func chanState_(ch interface{}) *chanState {
	v := reflect.ValueOf(ch)
	p := v.Pointer()
	cs := S.chans[p]
	if cs == nil {
		cs = &chanState{id: S.newObj(), cap: v.Cap(), n: v.Len()}
		S.chans[p] = cs
		chanByID[cs.id] = cs
	}
	return cs
}

// Buf registers a freshly made buffered channel (resets any state left by a collected channel that
// lived at the same address).
func Buf(ch interface{}) interface{} {
	if me() == nil {
		return ch
	}
	v := reflect.ValueOf(ch)
	delete(S.chans, v.Pointer())
	chanState_(ch)
	return ch
}

// Unbuf registers a channel created by `make(chan T)` (rewritten to capacity 1) as a rendezvous channel.
func Unbuf(ch interface{}) interface{} {
	if me() == nil {
		return ch
	}
	delete(S.chans, reflect.ValueOf(ch).Pointer())
	cs := chanState_(ch)
	cs.unbuf = true
	cs.cap = 1
	return ch
}

func BeforeSend(ch interface{}) {
	if me() == nil {
		return
	}
	cs := chanState_(ch)
	point(Op{Kind: KSend, Obj: cs.id, Site: site(2)})
}

func AfterSend(ch interface{}) {
	if me() == nil {
		return
	}
	cs := chanState_(ch)
	point(Op{Kind: KAfterSend, Obj: cs.id, Site: site(2)})
}

func BeforeRecv(ch interface{}) {
	if me() == nil {
		return
	}
	cs := chanState_(ch)
	point(Op{Kind: KRecv, Obj: cs.id, Site: site(2)})
}

func BeforeClose(ch interface{}) {
	if me() == nil {
		return
	}
	cs := chanState_(ch)
	point(Op{Kind: KClose, Obj: cs.id, Site: site(2)})
	cs.closed = true
}

// ---------------------------------------------------------------- time

func Sleep(d time.Duration) {
	if me() == nil {
		time.Sleep(d)
		return
	}
	S.cur.wake = S.Clock + d
	point(Op{Kind: KSleep, Site: site(2)})
}

// SortedKeys returns the string keys of a map: sorted under the scheduler (replayable), in Go's random map order
// in passthrough mode (what the uninstrumented code does).
func SortedKeys(m interface{}) []string {
	v := reflect.ValueOf(m)
	keys := make([]string, 0, v.Len())
	for _, k := range v.MapKeys() {
		keys = append(keys, k.String())
	}
	if me() != nil {
		sort.Strings(keys)
	}
	return keys
}

// RandInt31n replaces math/rand.Int31n in instrumented code: a fixed answer under the scheduler (so that a
// schedule can be replayed), the real generator in passthrough mode.
func RandInt31n(n int32) int32 {
	if me() == nil {
		return rand.Int31n(n)
	}
	return 0
}

// AtomicPoint is the scheduling point placed before every atomic operation.
func AtomicPoint(addr interface{}) {
	if me() == nil {
		return
	}
	id, ok := S.objIDs[addr]
	if !ok {
		id = S.newObj()
		S.objIDs[addr] = id
	}
	point(Op{Kind: KAtomic, Obj: id, Site: site(3)})
}
