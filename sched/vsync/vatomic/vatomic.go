// Package vatomic replaces the sync/atomic functions esbuild uses; in controlled mode every call is a
// scheduling point followed by the real atomic operation.
package vatomic

import (
	realatomic "sync/atomic"

	"github.com/evanw/esbuild/internal/vsync"
)

func AddInt32(p *int32, d int32) int32    { vsync.AtomicPoint(p); return realatomic.AddInt32(p, d) }
func AddUint32(p *uint32, d uint32) uint32 { vsync.AtomicPoint(p); return realatomic.AddUint32(p, d) }
func LoadInt32(p *int32) int32            { vsync.AtomicPoint(p); return realatomic.LoadInt32(p) }
func LoadUint32(p *uint32) uint32         { vsync.AtomicPoint(p); return realatomic.LoadUint32(p) }
func StoreInt32(p *int32, v int32)        { vsync.AtomicPoint(p); realatomic.StoreInt32(p, v) }
func StoreUint32(p *uint32, v uint32)     { vsync.AtomicPoint(p); realatomic.StoreUint32(p, v) }
