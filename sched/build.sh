#!/bin/bash
# Instruments /repo's current sources and builds the scheduler harness -> /verif/.build/verifs
set -e
export GOFLAGS=-mod=mod GOPROXY=off GOSUMDB=off GOTOOLCHAIN=local
V=/verif
R=${VERIF_REPO:-/repo}
B=${VERIF_BUILD:-$V/.build}
mkdir -p $B/instr-out $B/sharness
rm -f $B/instr-out/*.go $B/sharness/*.go
if [ ! -x $B/instr ] || [ $V/sched/instr/main.go -nt $B/instr ]; then
  (cd $V/sched/instr && go build -o $B/instr main.go)
fi
cp $V/sched/harness/*.go $B/sharness/
cp $V/h/common.go $V/h/fsproj.go $B/sharness/
$B/instr $R $B/instr-out $V/sched/vsync $B/sharness $B/soverlay.json
cd $R
go build -tags verif -overlay $B/soverlay.json ${RACE:+-race} -o $B/verifs${RACE:+-race} ./internal/verifs
# the uninstrumented esbuild binary from the same tree (service protocol sessions of C20)
if [ -z "$RACE" ]; then go build -o $B/esbuild-real ./cmd/esbuild; fi
