package main

// Free-running -race pass. The cooperative scheduler's hand-offs are happens-before edges, so the race detector
// sees nothing while schedules are explored. This pass runs the *same scenario bodies* (C08 graphs, C20 operation
// words) with the scheduler switched off (vsync passthrough: every operation delegates to the real primitive) in a
// binary built with -race. It is not the deciding technique of C08/C20 - it covers the one kind of error the
// explorer is blind to (unsynchronised accesses), as its assumptions say.

import (
	"context"
	"fmt"
	"os"
	"os/exec"
	"strings"
	realsync "sync"
	"sync/atomic"
	"time"

	"github.com/evanw/esbuild/pkg/api"
)

// runFreeRace is the body executed inside the -race binary (--free-race).
func runFreeRace(id, tier string) {
	rounds := 5
	if tier == "thorough" {
		rounds = 40
	}
	deadline := time.Now().Add(4 * time.Minute)
	var n int64
	switch id {
	case "C08":
		for r := 0; r < rounds && time.Now().Before(deadline); r++ {
			for _, g := range c08Graphs {
				root := scratchRoot("c08r")
				writeTree(root, g.files)
				opts := g.opts(root)
				opts.AbsWorkingDir = root
				opts.Write = false
				opts.LogLevel = api.LogLevelSilent
				var wg realsync.WaitGroup
				for k := 0; k < 3; k++ { // concurrent sibling builds in one process
					wg.Add(1)
					go func() { defer wg.Done(); api.Build(opts); atomic.AddInt64(&n, 1) }()
				}
				wg.Wait()
				os.RemoveAll(root)
			}
		}
	case "C20":
		hs := c20Harnesses(tier)
		for r := 0; r < rounds && time.Now().Before(deadline); r++ {
			for _, h := range hs {
				c20FreeRun(h)
				atomic.AddInt64(&n, 1)
			}
		}
	}
	fmt.Printf("FREE-RACE %s executions=%d\n", id, n)
}

// c20FreeRun: the C20 scenario with race-free callbacks (atomics only) and real goroutines
func c20FreeRun(h c20Harness) {
	var version, builds int64
	watching := h.usesWatch()
	if watching {
		c20WriteWatched(0)
	}
	plugin := api.Plugin{Name: "verif", Setup: func(b api.PluginBuild) {
		b.OnStart(func() (api.OnStartResult, error) {
			atomic.AddInt64(&builds, 1)
			if h.fail == "onStart" {
				return api.OnStartResult{}, fmt.Errorf("injected onStart failure")
			}
			return api.OnStartResult{}, nil
		})
		b.OnResolve(api.OnResolveOptions{Filter: `^virtual:`}, func(a api.OnResolveArgs) (api.OnResolveResult, error) {
			if h.fail == "onResolve" && a.Path == "virtual:dep" {
				return api.OnResolveResult{}, fmt.Errorf("injected onResolve failure")
			}
			return api.OnResolveResult{Path: a.Path, Namespace: "v"}, nil
		})
		b.OnLoad(api.OnLoadOptions{Filter: `.*`, Namespace: "v"}, func(a api.OnLoadArgs) (api.OnLoadResult, error) {
			if h.fail == "onLoad" && a.Path == "virtual:dep" {
				return api.OnLoadResult{}, fmt.Errorf("injected onLoad failure")
			}
			name := strings.TrimPrefix(a.Path, "virtual:")
			src := fmt.Sprintf("export let %s = 'm:%s:v%d';", name, name, atomic.LoadInt64(&version))
			if name == "entry" {
				src = "import {dep} from 'virtual:dep'; import {dep2} from 'virtual:dep2'; console.log(dep, dep2);" + src
			}
			res := api.OnLoadResult{Contents: &src, ResolveDir: "/"}
			if watching {
				res.WatchFiles = []string{c20WatchFile}
			}
			return res, nil
		})
		b.OnEnd(func(r *api.BuildResult) (api.OnEndResult, error) {
			_ = len(r.OutputFiles) + len(r.Errors)
			if h.fail == "onEnd" {
				return api.OnEndResult{}, fmt.Errorf("injected onEnd failure")
			}
			return api.OnEndResult{}, nil
		})
	}}
	ctx, err := api.Context(api.BuildOptions{EntryPoints: []string{"virtual:entry"}, Bundle: true, Write: false, LogLevel: api.LogLevelSilent, Plugins: []api.Plugin{plugin}, Format: api.FormatESModule, Outfile: "/out.js", AbsWorkingDir: "/", Inject: []string{"virtual:inject"}})
	if err != nil {
		panic(fmt.Sprintf("context: %v", err))
	}
	var wg realsync.WaitGroup
	for _, ops := range h.threads {
		ops := ops
		wg.Add(1)
		go func() {
			defer wg.Done()
			for _, op := range ops {
				switch op {
				case "rebuild":
					r := ctx.Rebuild()
					_ = c20ResultText(r)
				case "cancel":
					ctx.Cancel()
				case "dispose":
					ctx.Dispose()
				case "edit":
					v := atomic.AddInt64(&version, 1)
					if watching {
						c20WriteWatched(int(v))
					}
				case "watch":
					ctx.Watch(api.WatchOptions{})
				}
			}
		}()
	}
	wg.Wait()
	ctx.Dispose()
}

// freeRacePass is called by the parent of C08/C20: runs the -race binary if it has been built.
func freeRacePass(c *Check) {
	bin := os.Args[0] + "-race"
	if _, err := os.Stat(bin); err != nil {
		c.Set("free_race_pass", "not run: "+bin+" has not been built (setup.sh builds it)")
		return
	}
	// the free-running pass normally takes well under a minute; without the scheduler a deadlock of the real code would
	// block it forever, so it is bounded by ten minutes (the scheduled exploration is what reports deadlocks precisely)
	ctx, cancelRun := context.WithTimeout(context.Background(), 10*time.Minute)
	defer cancelRun()
	cmd := exec.CommandContext(ctx, bin, c.ID, "--tier", c.Tier, "--free-race")
	cmd.Env = append(os.Environ(), "GORACE=halt_on_error=1 exitcode=66")
	out, err := cmd.CombinedOutput()
	text := string(out)
	if ctx.Err() == context.DeadlineExceeded {
		c.Violation("free-run-hang", map[string]interface{}{"kind": "the free-running (unscheduled) pass of the same harness bodies did not terminate within 10 minutes: deadlock or livelock of the real code", "output_tail": trunc(text, 3000)})
		c.Set("free_race_pass", "did not terminate within 10 minutes")
		return
	}
	if ee, ok := err.(*exec.ExitError); ok && ee.ExitCode() == 66 || strings.Contains(text, "WARNING: DATA RACE") {
		// key: the first two source locations of the report
		var locs []string
		for _, ln := range strings.Split(text, "\n") {
			ln = strings.TrimSpace(ln)
			if strings.HasPrefix(ln, "/") && strings.Contains(ln, ".go:") {
				f := strings.Fields(ln)[0]
				if i := strings.Index(f, "/internal/"); i >= 0 {
					f = f[i:]
				} else if i := strings.Index(f, "/pkg/"); i >= 0 {
					f = f[i:]
				}
				locs = append(locs, f)
				if len(locs) == 2 {
					break
				}
			}
		}
		c.Violation("data-race:"+strings.Join(locs, "|"), map[string]interface{}{"kind": "data race reported by the Go race detector in the free-running pass", "report": trunc(text, 6000)})
		c.Set("free_race_pass", "data race reported")
		return
	}
	if err != nil {
		fatalf("free-running -race pass failed to run: %v\n%s", err, trunc(text, 2000))
	}
	c.Set("free_race_pass", strings.TrimSpace(text))
}
