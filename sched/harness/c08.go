package main

// C08: builds are deterministic under every explored schedule.

import (
	"crypto/sha256"
	"encoding/hex"
	"fmt"
	"os"
	"os/exec"
	"path/filepath"
	"sort"
	"strings"
	"time"

	"github.com/evanw/esbuild/internal/vsync"
	"github.com/evanw/esbuild/pkg/api"
)

type c08Graph struct {
	name  string
	files map[string]string
	opts  func(root string) api.BuildOptions
}

var c08Graphs = []c08Graph{
	{"G1-splitting-shared-chunk-css-asset", map[string]string{
		"src/a.js":      "import {shared, x} from './shared.js'; import './style.css'; import img from './img.png'; const x2 = 1, name = 'a'; console.log(shared, x, x2, name, img); export default name; import('./lazy.js')",
		"src/b.js":      "import {shared, y} from './shared.js'; import img from './img.png'; const x2 = 2, name = 'b'; console.log(shared, y, x2, name, img); export default name; import('./lazy.js')",
		"src/shared.js": "export const shared = 'S'; export let x = 1, y = 2; const name = 'shared'; console.log(name)",
		"src/lazy.js":   "import {shared} from './shared.js'; export const name = 'lazy' + shared",
		"src/style.css": "@import './other.css'; a { color: red; background: url(./img.png) }",
		"src/other.css": "b { color: blue }",
		"src/img.png":   "\x89PNG fake",
	}, func(root string) api.BuildOptions {
		return api.BuildOptions{EntryPoints: []string{"src/a.js", "src/b.js"}, Bundle: true, Splitting: true, Format: api.FormatESModule, Outdir: "out", Metafile: true, Sourcemap: api.SourceMapLinked,
			Loader: map[string]api.Loader{".png": api.LoaderFile}, MinifyIdentifiers: true}
	}},
	{"G2-three-entries-mangle-props", map[string]string{
		"a.js": "import {o} from './c.js'; export let a = {foo_: 1, bar_: 2, baz_: o.qux_}; console.log(a.foo_)",
		"b.js": "import {o} from './c.js'; export let b = {bar_: 3, qux_: 4, zip_: o.foo_}; console.log(b.zip_, 'x' in b)",
		"c.js": "export let o = {qux_: 5, foo_: 6, extra_: 7, more_: 8}",
		"d.js": "export let d = {more_: 1, other_: 2}",
	}, func(root string) api.BuildOptions {
		return api.BuildOptions{EntryPoints: []string{"a.js", "b.js", "d.js"}, Bundle: true, Format: api.FormatESModule, Outdir: "out", Metafile: true, MangleProps: "_$", MangleCache: map[string]interface{}{"seeded_": "s"}, MinifySyntax: true}
	}},
	{"G3-failing-entries-and-warnings", map[string]string{
		"ok.js":    "import './w1.js'; import './w2.js'; import './missing-a'; import './missing-b'",
		"w1.js":    "if (typeof x === 'nope') {} ; x = 1 == -0; delete y",
		"w2.js":    "if (typeof x === 'nope') {} ; x = 1 == -0; delete y",
		"bad1.js":  "let = ;",
		"bad2.js":  "let = ;",
		"bad3.css": "a { color: }} @import 'x';",
	}, func(root string) api.BuildOptions {
		return api.BuildOptions{EntryPoints: []string{"ok.js", "bad1.js", "bad2.js", "nonexistent1.js", "nonexistent2.js", "bad3.css"}, Bundle: true, Format: api.FormatESModule, Outdir: "out", Metafile: true}
	}},
	{"G6-deep-tree-ties", map[string]string{
		// files at depth 2 reached through different parents get their internal indices in arrival order; every
		// tie (equal use counts of mangled properties, equal-frequency identifiers, same-named top-level symbols)
		// must be broken by something stable
		"entry.js": "import {X} from './x.js'; import {Y} from './y.js'; console.log(X, Y)",
		"x.js":     "import {P} from './p.js'; const name = 'x', tie1 = 1; export const X = [P, name, tie1]",
		"y.js":     "import {Q} from './q.js'; const name = 'y', tie2 = 2; export const Y = [Q, name, tie2]",
		"p.js":     "const name = 'p', tie3 = 3; export const P = {alpha_: 1, name, tie3}",
		"q.js":     "const name = 'q', tie4 = 4; export const Q = {beta_: 2, name, tie4}",
	}, func(root string) api.BuildOptions {
		return api.BuildOptions{EntryPoints: []string{"entry.js"}, Bundle: true, Format: api.FormatESModule, Outdir: "out", Metafile: true, MangleProps: "_$", MangleCache: map[string]interface{}{}, MinifyIdentifiers: true}
	}},
	{"G7-glob-entry-point-diagnostics", map[string]string{
		// glob entry points that match nothing or whose base directory is missing produce location-less warnings and
		// errors from one goroutine per entry point: their order must be the order of the entry points
		"src/ok.js":  "console.log('ok')",
		"src/ok2.js": "console.log('ok2')",
	}, func(root string) api.BuildOptions {
		return api.BuildOptions{EntryPoints: []string{"src/*.nomatch1", "missing1/*.js", "src/ok.js", "src/*.nomatch2", "missing2/*.js", "src/ok*.js", "src/*.nomatch3"}, Bundle: true, Format: api.FormatESModule, Outdir: "out", Metafile: true}
	}},
	{"G5-inject-and-glob", map[string]string{
		"entry.js": "const n = 'a'; console.log(require('./dir/' + n + '.js'), injected1, injected2); import('./dir/' + n + '.js')",
		"dir/a.js": "module.exports = 'A'",
		"dir/b.js": "module.exports = 'B'",
		"dir/c.js": "export default 'C'",
		"inj1.js":  "export let injected1 = 1",
		"inj2.js":  "export let injected2 = 2",
	}, func(root string) api.BuildOptions {
		return api.BuildOptions{EntryPoints: []string{"entry.js"}, Bundle: true, Format: api.FormatCommonJS, Outdir: "out", Metafile: true, Inject: []string{"inj1.js", "inj2.js"}}
	}},
}

func c08Observe(root string, r api.BuildResult) string {
	h := sha256.New()
	var files []string
	for _, f := range r.OutputFiles {
		rel, _ := filepath.Rel(root, f.Path)
		files = append(files, rel+"\x00"+string(f.Contents)+"\x00"+f.Hash)
	}
	sort.Strings(files)
	for _, f := range files {
		h.Write([]byte(f))
	}
	h.Write([]byte(strings.ReplaceAll(r.Metafile, root, "<root>")))
	var mk []string
	for k, v := range r.MangleCache {
		mk = append(mk, fmt.Sprintf("%s=%v", k, v))
	}
	sort.Strings(mk)
	h.Write([]byte(strings.Join(mk, ",")))
	msg := func(ms []api.Message) {
		for _, m := range ms {
			loc := ""
			if m.Location != nil {
				loc = fmt.Sprintf("%s:%d:%d", m.Location.File, m.Location.Line, m.Location.Column)
			}
			h.Write([]byte(m.Text + "@" + loc + ";"))
			for _, n := range m.Notes {
				h.Write([]byte("note:" + n.Text))
			}
		}
	}
	msg(r.Errors)
	h.Write([]byte("|"))
	msg(r.Warnings)
	return hex.EncodeToString(h.Sum(nil)[:12])
}

func c08Diag(r api.BuildResult) string {
	var s []string
	for _, m := range r.Errors {
		s = append(s, "E:"+m.Text)
	}
	for _, m := range r.Warnings {
		s = append(s, "W:"+m.Text)
	}
	return strings.Join(s, " | ")
}

func runC08(c *Check) {
	c.Rule = "stateless model checking of the real build under a cooperative scheduler that owns every goroutine creation, mutex/wait-group/once/atomic/channel operation: all schedules within a deviation bound (preemptions + non-default picks at blocking points) around 3 default policies, for 4 module graphs; every execution's observation (outputs, hashes, metafile, mangle cache, diagnostics in order) must be identical; states = distinct schedules executed, transitions = scheduling decisions; relocation: every graph x 5 option variants built at three absolute locations, results compared and scanned for the location"
	c.Assump = []string{"the scheduler is sequentially consistent (no weak-memory effects); unsynchronised accesses are the business of the separate free-running -race pass", "Go's map iteration order is not controlled; replaying a schedule twice must give the same observation, otherwise the check reports an infrastructure error instead of a verdict"}
	bound := 1
	maxExecs := uint64(0)
	if c.Tier != "quick" {
		bound = 2
	}
	if c.shardN <= 1 {
		c08Parent(c, bound)
		return
	}
	var states, transitions, validated uint64
	distinctObs := map[string]bool{}
	for _, g := range c08Graphs {
		root := scratchRoot("c08")
		writeTree(root, g.files)
		opts := g.opts(root)
		opts.AbsWorkingDir = root
		opts.Write = false
		opts.LogLevel = api.LogLevelSilent
		// warm process-global caches outside the scheduler
		warm := api.Build(opts)
		want := c08Observe(root, warm)
		run := func(choose func(p *vsync.Point) int) (vsync.Result, string) {
			var obs string
			res := vsync.Run(func() {
				r := api.Build(opts)
				obs = c08Observe(root, r) + " " + c08Diag(r)
			}, choose)
			return res, obs
		}
		first := ""
		gStates := uint64(0)
		for policy := 0; policy < 3; policy++ {
			ex := &Explorer{NoTimers: true, Bound: bound, Policy: policy, Run: run, MaxExecs: maxExecs, Stop: c.Expired, ShardK: c.shardK, ShardN: c.shardN}
			ex.Baseline = func(x *Exec) { first = x.Obs }
			ex.Check = func(x *Exec) {
				gStates++
				transitions += uint64(len(x.Points))
				c.Eval(1)
				c.Distinct(fmt.Sprint(x.Choices))
				if x.Res.Deadlock {
					c.Violation("deadlock:"+g.name+fmt.Sprint(x.Choices), map[string]interface{}{"kind": "deadlock", "graph": g.name, "policy": policy, "schedule": x.Choices, "blocked": x.Res.Blocked})
					return
				}
				if x.Res.Panic != nil {
					c.Violation("panic:"+g.name+fmt.Sprint(x.Choices), map[string]interface{}{"kind": "panic", "graph": g.name, "policy": policy, "schedule": x.Choices, "panic": fmt.Sprint(x.Res.Panic)})
					return
				}
				distinctObs[g.name+x.Obs] = true
				if first == "" || gStates%64 == 0 {
					if first == "" {
						first = x.Obs
					}
					// validate: replay the same schedule once more, it must give the same observation
					// (the first execution and every 64th one of each graph in each worker process)
					y := ex.runOne(x.Choices)
					validated++
					if y.Obs != x.Obs || len(y.Points) != len(x.Points) {
						fatalf("schedule replay diverged for %s: %q vs %q (%d vs %d points): nondeterminism not owned by the scheduler", g.name, x.Obs, y.Obs, len(x.Points), len(y.Points))
					}
				}
				if x.Obs != first {
					// re-run the same schedule to make sure the difference is reproducible
					y := ex.runOne(x.Choices)
					validated++
					c.Violation("nondeterministic:"+g.name, map[string]interface{}{"kind": "build result depends on the schedule", "graph": g.name, "policy": policy, "schedule": x.Choices, "expected": first, "observed": x.Obs, "replayed_again": y.Obs, "uncontrolled_build": want})
				}
			}
			ex.Explore(nil)
			if ex.Truncated {
				c.mu.Lock()
				c.Exhaust = false
				c.mu.Unlock()
			}
		}
		states += gStates
		c.Set("graph:"+g.name, map[string]interface{}{"schedules": gStates, "bound": bound})
		c.Sample(map[string]interface{}{"graph": g.name, "observation": first})
		os.RemoveAll(root)
	}
	c.Sub("states", states)
	c.Sub("transitions", transitions)
	c.Sub("traces_validated_against_impl", validated)
	for k := range distinctObs {
		c.Sub("obs:"+shortHash(k), 1)
	}
	_ = time.Now
}

// c08Parent shards the top-level alternatives of every (graph, policy) search over worker processes.
func c08Parent(c *Check, bound int) {
	N := NumWorkers()
	dir := scratchRoot("c08p")
	defer os.RemoveAll(dir)
	var cmds []*exec.Cmd
	for k := 0; k < N; k++ {
		cmd := exec.Command(os.Args[0], c.ID, "--tier", c.Tier, "--shard", fmt.Sprintf("%d/%d", k, N), "--partial", filepath.Join(dir, fmt.Sprintf("p%d.json", k)))
		cmd.Env = append(os.Environ(), "GOMAXPROCS=2", fmt.Sprintf("VERIF_BUDGET_S=%d", int(time.Until(c.deadline).Seconds())-5))
		cmd.Stderr = os.Stderr
		if err := cmd.Start(); err != nil {
			fatalf("spawn: %v", err)
		}
		cmds = append(cmds, cmd)
	}
	for k, cmd := range cmds {
		if err := cmd.Wait(); err != nil {
			fatalf("scheduler worker %d failed: %v", k, err)
		}
		if !c.MergePartial(filepath.Join(dir, fmt.Sprintf("p%d.json", k))) {
			fatalf("scheduler worker %d produced no result", k)
		}
	}
	c.mu.Lock()
	nobs := 0
	for k := range c.sub {
		if strings.HasPrefix(k, "obs:") {
			nobs++
			delete(c.sub, k)
		}
	}
	c.extra["states"] = c.sub["states"]
	c.extra["transitions"] = c.sub["transitions"]
	c.extra["traces_validated_against_impl"] = c.sub["traces_validated_against_impl"]
	c.extra["deviation_bound"] = bound
	c.extra["distinct_observations"] = nobs
	c.extra["worker_processes"] = N
	c.mu.Unlock()
	if c.replayKey == "" || strings.HasPrefix(c.replayKey, "data-race:") {
		freeRacePass(c)
	}
	c08Relocation(c)
}

// c08Relocation: the same project under the same options at absolute locations of different depth and length must give
// the same relative output paths, bytes, hashes, metafile (root replaced), mangle cache and diagnostics. Every graph x
// option variants that put content hashes into every kind of name (the deciding step is exhaustive over this small
// product; scheduling is the business of the exploration above).
func c08Relocation(c *Check) {
	base := scratchRoot("c08loc")
	defer os.RemoveAll(base)
	locs := []string{filepath.Join(base, "a"), filepath.Join(base, "some", "much", "deeper", "location with a rather long name-é"), filepath.Join(base, "zzzzzzzzzzzzzzzz", "src")}
	variants := []struct {
		name string
		mod  func(o *api.BuildOptions)
	}{
		{"as-is", func(o *api.BuildOptions) {}},
		{"hashed-names", func(o *api.BuildOptions) {
			o.EntryNames, o.AssetNames = "[dir]/[name]-[hash]", "assets/[name]-[hash]"
			if o.Splitting {
				o.ChunkNames = "chunks/[name]-[hash]"
			}
		}},
		{"hashed-names-copy-loader-minify", func(o *api.BuildOptions) {
			o.EntryNames, o.AssetNames = "[name]-[hash]", "[name]-[hash]"
			o.MinifyWhitespace, o.MinifySyntax = true, true
			if o.Loader != nil {
				for k, v := range o.Loader {
					if v == api.LoaderFile {
						o.Loader[k] = api.LoaderCopy
					}
				}
			}
		}},
		{"sourcemap-external-public-path", func(o *api.BuildOptions) {
			o.Sourcemap, o.PublicPath = api.SourceMapExternal, "https://cdn.example.com/x/"
		}},
		{"outbase-legal-linked", func(o *api.BuildOptions) {
			o.Outbase, o.LegalComments = ".", api.LegalCommentsLinked
		}},
	}
	for _, g := range c08Graphs {
		for _, v := range variants {
			var first string
			var firstDiag string
			var firstParts map[string]string
			for li, root := range locs {
				writeTree(root, g.files)
				opts := g.opts(root)
				if opts.Loader != nil {
					cp := map[string]api.Loader{}
					for k, val := range opts.Loader {
						cp[k] = val
					}
					opts.Loader = cp
				}
				v.mod(&opts)
				opts.AbsWorkingDir = root
				opts.Write = false
				opts.LogLevel = api.LogLevelSilent
				r := api.Build(opts)
				c.Eval(1)
				// strict observation: nothing of the result may mention the location (JSON text escapes non-ASCII characters)
				esc := []byte("\"" + asciiJSON(root) + "\"")
				strict := !strings.Contains(r.Metafile, root) && !strings.Contains(r.Metafile, strings.Trim(string(esc), "\""))
				for _, f := range r.OutputFiles {
					if strings.Contains(string(f.Contents), root) {
						strict = false
					}
				}
				r.Metafile = strings.ReplaceAll(r.Metafile, strings.Trim(string(esc), "\""), "<root>")
				obs := c08Observe(root, r)
				diag := c08Diag(r)
				parts := map[string]string{"metafile": strings.ReplaceAll(r.Metafile, root, "<root>")}
				for _, f := range r.OutputFiles {
					rel, _ := filepath.Rel(root, f.Path)
					parts["file:"+rel] = string(f.Contents)
				}
				if li == 0 {
					firstParts = parts
				}
				if !strict {
					key := "location-in-result:" + g.name + ":" + v.name
					if len(opts.Inject) > 0 && !strings.Contains(strings.ReplaceAll(r.Metafile, "<root>/inj", ""), "<root>") {
						// recorded finding: only the injected files are named by absolute path
						key = "metafile-lists-injected-files-as-external-imports-with-absolute-paths"
					}
					c.Violation(key, map[string]interface{}{"kind": "the build result contains the absolute location of the project", "graph": g.name, "variant": v.name, "location": root})
				}
				if li == 0 {
					first, firstDiag = obs, diag
				} else if obs != first {
					var names []string
					for _, f := range r.OutputFiles {
						rel, _ := filepath.Rel(root, f.Path)
						names = append(names, rel)
					}
					sort.Strings(names)
					c.Violation("location-dependent:"+g.name+":"+v.name, map[string]interface{}{"kind": "build result depends on the absolute location of the project", "graph": g.name, "variant": v.name,
						"location_a": locs[0], "location_b": root, "outputs_at_b": names, "diagnostics_a": firstDiag, "diagnostics_b": diag, "first_difference": c08FirstDiff(firstParts, parts)})
				}
				os.RemoveAll(root)
			}
			c.Sub("relocation_cases", 1)
		}
	}
}

func c08FirstDiff(a, b map[string]string) string {
	var keys []string
	for k := range a {
		keys = append(keys, k)
	}
	for k := range b {
		if _, ok := a[k]; !ok {
			keys = append(keys, k)
		}
	}
	sort.Strings(keys)
	for _, k := range keys {
		x, y := a[k], b[k]
		if x == y {
			continue
		}
		i := 0
		for i < len(x) && i < len(y) && x[i] == y[i] {
			i++
		}
		lo := i - 60
		if lo < 0 {
			lo = 0
		}
		return fmt.Sprintf("%s at byte %d: %q vs %q", k, i, trunc(x[lo:], 160), trunc(y[lo:], 160))
	}
	return "(only hashes or diagnostics differ)"
}

// asciiJSON escapes a path the way esbuild writes strings into an ASCII-only JSON file
func asciiJSON(p string) string {
	var b strings.Builder
	for _, r := range p {
		switch {
		case r == '\\' || r == '"':
			b.WriteByte('\\')
			b.WriteRune(r)
		case r < 0x7F && r >= 0x20:
			b.WriteRune(r)
		case r > 0xFFFF:
			r -= 0x10000
			fmt.Fprintf(&b, "\\u%04X\\u%04X", 0xD800+(r>>10), 0xDC00+(r&0x3FF))
		default:
			fmt.Fprintf(&b, "\\u%04X", r)
		}
	}
	return b.String()
}

func init() { register("C08", "model_checking", runC08) }

func init() {
	register("C08debug", "model_checking", func(c *Check) {
		gi := 0
		fmt.Sscan(argVal("--graph", "0"), &gi)
		g := c08Graphs[gi]
		root := scratchRoot("c08")
		defer os.RemoveAll(root)
		writeTree(root, g.files)
		opts := g.opts(root)
		opts.AbsWorkingDir = root
		opts.Write = false
		opts.LogLevel = api.LogLevelSilent
		api.Build(opts)
		res := vsync.Run(func() { api.Build(opts) }, func(p *vsync.Point) int { return 0 }, func(s *vsync.Sched) { s.TraceOn = true })
		fmt.Println("deadlock", res.Deadlock, res.Blocked, "threads", res.Threads, "points", len(res.Points))
		for _, l := range res.Trace {
			if strings.Contains(l, argVal("--grep", "send")) {
				fmt.Println(l)
			}
		}
		c.Eval(1)
		c.Distinct("a")
		c.Distinct("b")
	})
}
