package main

// C20, stdio service protocol: "over the stdio service every request receives exactly one response carrying its own id".
// Bounded-exhaustive over request sequences: every word of <= 2 (thorough 3) requests over an 11-letter alphabet
// (transform ok/failing, one-shot build, context build, rebuild, cancel, dispose, watch, rebuild of an unknown key,
// format-msgs, unknown command) x 3 delivery modes (one at a time; all written at once; all written and stdin closed
// immediately). The real esbuild binary (built from /repo's current tree, uninstrumented) is the service; the client
// below has its own packet encoder/decoder. Not a schedule exploration: the service's goroutines run freely.

import (
	"bytes"
	"encoding/binary"
	"fmt"
	"io"
	"os"
	"os/exec"
	"path/filepath"
	"sort"
	"strings"
	"sync"
	"time"
)

func spEncode(id uint32, isRequest bool, v interface{}) []byte {
	var b []byte
	u32 := func(x uint32) { t := make([]byte, 4); binary.LittleEndian.PutUint32(t, x); b = append(b, t...) }
	var visit func(v interface{})
	visit = func(v interface{}) {
		switch x := v.(type) {
		case nil:
			b = append(b, 0)
		case bool:
			if x {
				b = append(b, 1, 1)
			} else {
				b = append(b, 1, 0)
			}
		case int:
			b = append(b, 2)
			u32(uint32(x))
		case string:
			b = append(b, 3)
			u32(uint32(len(x)))
			b = append(b, x...)
		case []byte:
			b = append(b, 4)
			u32(uint32(len(x)))
			b = append(b, x...)
		case []interface{}:
			b = append(b, 5)
			u32(uint32(len(x)))
			for _, it := range x {
				visit(it)
			}
		case map[string]interface{}:
			keys := make([]string, 0, len(x))
			for k := range x {
				keys = append(keys, k)
			}
			sort.Strings(keys)
			b = append(b, 6)
			u32(uint32(len(keys)))
			for _, k := range keys {
				u32(uint32(len(k)))
				b = append(b, k...)
				visit(x[k])
			}
		default:
			panic("spEncode: unsupported value")
		}
	}
	u32(0)
	if isRequest {
		u32(id << 1)
	} else {
		u32(id<<1 | 1)
	}
	visit(v)
	binary.LittleEndian.PutUint32(b[:4], uint32(len(b)-4))
	return b
}

type spPacket struct {
	id        uint32
	isRequest bool
	value     interface{}
}

// spDecode decodes one packet body (without the length prefix); ok=false on any malformation
func spDecode(b []byte) (p spPacket, ok bool) {
	defer func() {
		if recover() != nil {
			ok = false
		}
	}()
	pos := 0
	u32 := func() uint32 { v := binary.LittleEndian.Uint32(b[pos:]); pos += 4; return v }
	var visit func() interface{}
	visit = func() interface{} {
		k := b[pos]
		pos++
		switch k {
		case 0:
			return nil
		case 1:
			v := b[pos] != 0
			pos++
			return v
		case 2:
			return int(u32())
		case 3:
			n := int(u32())
			s := string(b[pos : pos+n])
			pos += n
			return s
		case 4:
			n := int(u32())
			s := append([]byte{}, b[pos:pos+n]...)
			pos += n
			return s
		case 5:
			n := int(u32())
			out := make([]interface{}, n)
			for i := range out {
				out[i] = visit()
			}
			return out
		case 6:
			n := int(u32())
			out := map[string]interface{}{}
			for i := 0; i < n; i++ {
				kl := int(u32())
				key := string(b[pos : pos+kl])
				pos += kl
				out[key] = visit()
			}
			return out
		}
		panic("bad kind")
	}
	id := u32()
	p.isRequest = id&1 == 0
	p.id = id >> 1
	p.value = visit()
	if pos != len(b) {
		return p, false
	}
	return p, true
}

var spAlphabet = []string{"transform", "transform-error", "build", "context", "rebuild", "cancel", "dispose", "watch", "rebuild-unknown", "format-msgs", "unknown-command"}

func spRequest(kind string, dir string, newKey, ctxKey int) map[string]interface{} {
	strs := func(xs ...string) []interface{} {
		out := []interface{}{}
		for _, x := range xs {
			out = append(out, x)
		}
		return out
	}
	build := func(ctx bool) map[string]interface{} {
		return map[string]interface{}{"command": "build", "key": newKey, "entries": []interface{}{}, "flags": strs("--bundle", "--log-level=silent", "--format=esm"), "write": false,
			"stdinContents": []byte("import {x} from './dep.js'; console.log(x)"), "stdinResolveDir": dir, "absWorkingDir": dir, "nodePaths": []interface{}{}, "context": ctx}
	}
	switch kind {
	case "transform":
		return map[string]interface{}{"command": "transform", "flags": strs("--loader=ts", "--log-level=silent"), "inputFS": false, "input": []byte("let x: number = 1 + 2; export {x}")}
	case "transform-error":
		return map[string]interface{}{"command": "transform", "flags": strs("--loader=js", "--log-level=silent"), "inputFS": false, "input": []byte("let = ;")}
	case "build":
		return build(false)
	case "context":
		return build(true)
	case "rebuild":
		return map[string]interface{}{"command": "rebuild", "key": ctxKey}
	case "cancel":
		return map[string]interface{}{"command": "cancel", "key": ctxKey}
	case "dispose":
		return map[string]interface{}{"command": "dispose", "key": ctxKey}
	case "watch":
		return map[string]interface{}{"command": "watch", "key": ctxKey}
	case "rebuild-unknown":
		return map[string]interface{}{"command": "rebuild", "key": 99}
	case "format-msgs":
		return map[string]interface{}{"command": "format-msgs", "isWarning": false, "messages": []interface{}{map[string]interface{}{"id": "", "pluginName": "", "text": "msg", "location": nil, "notes": []interface{}{}, "detail": -1}}, "color": false, "terminalWidth": 80}
	}
	return map[string]interface{}{"command": "no-such-command"}
}

// spSession runs one word in one delivery mode; returns "" or the description of a protocol violation
func spSession(bin, version, dir string, word []string, mode string) string {
	cmd := exec.Command(bin, "--service="+version)
	stdin, _ := cmd.StdinPipe()
	stdout, _ := cmd.StdoutPipe()
	var stderr bytes.Buffer
	cmd.Stderr = &stderr
	if err := cmd.Start(); err != nil {
		fatalf("cannot start %s: %v", bin, err)
	}
	type resp struct {
		p  spPacket
		ok bool
	}
	packets := make(chan resp, 64)
	var rd sync.WaitGroup
	rd.Add(1)
	go func() {
		defer rd.Done()
		defer close(packets)
		hdr := make([]byte, 4)
		// the stream starts with the version string
		if _, err := io.ReadFull(stdout, hdr); err != nil {
			return
		}
		v := make([]byte, binary.LittleEndian.Uint32(hdr))
		if _, err := io.ReadFull(stdout, v); err != nil {
			return
		}
		for {
			if _, err := io.ReadFull(stdout, hdr); err != nil {
				return
			}
			body := make([]byte, binary.LittleEndian.Uint32(hdr))
			if _, err := io.ReadFull(stdout, body); err != nil {
				packets <- resp{ok: false}
				return
			}
			p, ok := spDecode(body)
			packets <- resp{p, ok}
		}
	}()
	got := map[uint32]int{}
	problem := ""
	serviceRequests := 0
	_ = serviceRequests
	note := func(r resp) {
		if !r.ok {
			problem = "the service wrote a packet that cannot be decoded"
			return
		}
		if r.p.isRequest {
			// the service asks the host to run the end callbacks of every context build: answer like a host without any
			m, _ := r.p.value.(map[string]interface{})
			if cmdName, _ := m["command"].(string); cmdName == "on-end" || cmdName == "ping" {
				serviceRequests++
				stdin.Write(spEncode(r.p.id, false, map[string]interface{}{"errors": []interface{}{}, "warnings": []interface{}{}}))
				return
			}
			problem = fmt.Sprintf("unexpected request from the service: %v", r.p.value)
			return
		}
		got[r.p.id]++
	}
	deadline := time.After(60 * time.Second)
	waitFor := func(id uint32) bool {
		for got[id] == 0 && problem == "" {
			select {
			case r, open := <-packets:
				if !open {
					return false
				}
				note(r)
			case <-deadline:
				problem = fmt.Sprintf("no response to request %d within 60s", id)
				return false
			}
		}
		return problem == ""
	}
	ctxKey := 1000 // no context yet: requests that need one name a key that does not exist
	for i, k := range word {
		id := uint32(i + 1)
		// every build uses a key of its own (the host library never reuses the key of an active build); context
		// operations address the most recent context
		req := spRequest(k, dir, i+1, ctxKey)
		if k == "context" {
			ctxKey = i + 1
		}
		if _, err := stdin.Write(spEncode(id, true, req)); err != nil {
			problem = fmt.Sprintf("service closed its input after %d requests", i)
			break
		}
		if mode == "one-at-a-time" && !waitFor(id) {
			if problem == "" {
				problem = fmt.Sprintf("service ended its output before answering request %d (%s)", id, k)
			}
			break
		}
	}
	if mode != "close-at-once" && problem == "" {
		for i := range word {
			if !waitFor(uint32(i + 1)) {
				if problem == "" {
					problem = fmt.Sprintf("service ended its output before answering request %d (%s)", i+1, word[i])
				}
				break
			}
		}
	}
	if mode != "close-at-once" && problem == "" {
		// contexts keep the service alive by design: dispose every context the word created (disposing twice is answered too)
		nextID := uint32(len(word) + 1)
		for i, k := range word {
			if k == "context" {
				stdin.Write(spEncode(nextID, true, map[string]interface{}{"command": "dispose", "key": i + 1}))
				if !waitFor(nextID) && problem == "" {
					problem = fmt.Sprintf("service ended its output before answering the final dispose of context %d", i+1)
				}
				delete(got, nextID)
				nextID++
			}
		}
	}
	stdin.Close()
	// drain until the service exits (it must, now that its input is closed)
	done := make(chan struct{})
	go func() {
		for r := range packets {
			if problem == "" {
				note(r)
			}
		}
		close(done)
	}()
	select {
	case <-done:
	case <-time.After(60 * time.Second):
		cmd.Process.Kill()
		<-done
		if problem == "" {
			problem = "the service did not exit within 60s after its input was closed"
		}
	}
	err := cmd.Wait()
	rd.Wait()
	if problem == "" {
		for i := range word {
			if n := got[uint32(i+1)]; n != 1 {
				problem = fmt.Sprintf("request %d (%s) received %d responses", i+1, word[i], n)
				break
			}
		}
	}
	if problem == "" {
		for id, n := range got {
			if int(id) > len(word) || id == 0 {
				problem = fmt.Sprintf("%d response(s) carry id %d, which no request used", n, id)
			}
		}
	}
	if problem == "" && err != nil {
		problem = fmt.Sprintf("the service exited with %v: %s", err, trunc(stderr.String(), 300))
	}
	return problem
}

func c20Service(c *Check) {
	bin := filepath.Join(filepath.Dir(os.Args[0]), "esbuild-real")
	if _, err := os.Stat(bin); err != nil {
		c.Set("service_protocol", "not run: "+bin+" has not been built")
		return
	}
	out, err := exec.Command(bin, "--version").Output()
	if err != nil {
		fatalf("esbuild --version: %v", err)
	}
	version := strings.TrimSpace(string(out))
	dir := scratchRoot("c20svc")
	defer os.RemoveAll(dir)
	writeTree(dir, map[string]string{"dep.js": "export const x = 1;\n"})
	maxLen := 2 // a session costs a process start (~0.15 s of kernel time in this sandbox)
	if c.Tier != "quick" {
		maxLen = 3
	}
	var words [][]string
	var rec func(cur []string)
	rec = func(cur []string) {
		if len(cur) > 0 {
			words = append(words, append([]string{}, cur...))
		}
		if len(cur) == maxLen {
			return
		}
		for _, a := range spAlphabet {
			rec(append(cur, a))
		}
	}
	rec(nil)
	modes := []string{"one-at-a-time", "pipelined", "close-at-once"}
	n := uint64(len(words) * len(modes))
	done := c.ForEach(n, func(w int, i uint64) {
		word := words[int(i)/len(modes)]
		mode := modes[int(i)%len(modes)]
		if mode == "close-at-once" {
			for _, k := range word {
				if k == "context" {
					return // an undisposed context keeps the service alive by design, and its end callbacks need the host
				}
			}
		}
		c.Eval(1)
		t0 := time.Now()
		p := spSession(bin, version, dir, word, mode)
		if os.Getenv("VERIF_DEBUG") != "" && time.Since(t0) > 500*time.Millisecond {
			fmt.Fprintf(os.Stderr, "slow session %v %s %v\n", time.Since(t0), mode, word)
		}
		if p != "" {
			c.Violation("service:"+mode+":"+strings.Join(word, ","), map[string]interface{}{"kind": "stdio service protocol: " + p, "requests": word, "delivery": mode})
		}
	})
	c.Set("service_protocol", map[string]interface{}{"sessions": done, "of": n, "max_requests": maxLen, "alphabet": spAlphabet, "delivery_modes": modes})
}
