package main

// E3 explorer: deviation-bounded depth-first search over schedules of the real, instrumented code.
// A schedule is the list of choices made at choice points; the default policy takes index 0
// (keep running the current thread; when it blocks, the lowest-id enabled thread; sleepers last).
// Any non-zero choice is one deviation (switching away from a still-enabled thread = a preemption,
// picking a non-default thread at a blocking point, or waking a sleeper early = timer deviation).

import (
	"fmt"
	"sync/atomic"

	"github.com/evanw/esbuild/internal/vsync"
)

type Exec struct {
	Choices []int
	Points  []vsync.Point
	Res     vsync.Result
	Obs     string
}

type Explorer struct {
	Bound     int
	Policy    int // 0: lowest id first, 1: highest id first (default choice is the last enabled), 2: rotate
	Run       func(choose func(p *vsync.Point) int) (vsync.Result, string)
	Check     func(x *Exec)
	Baseline  func(x *Exec) // called instead of Check for the root execution in shards other than 0
	Execs     uint64
	MaxExecs  uint64
	Stop      func() bool
	Truncated bool
	Branch    func(op vsync.Op) bool
	NoTimers  bool // do not explore early wake-ups of sleeping threads
	ShardK    int  // this process explores the top-level alternatives j with j % ShardN == ShardK
	ShardN    int
	topAlt    int
}

func (e *Explorer) defaultChoice(p *vsync.Point, k int) int {
	n := len(p.Enabled) - p.Sleepers
	if n <= 0 {
		return 0
	}
	switch e.Policy {
	case 1:
		if p.CurEnabled {
			return 0
		}
		return n - 1
	case 2:
		if p.CurEnabled {
			return 0
		}
		return k % n
	}
	return 0
}

// runOne replays prefix (alternative indices relative to the default policy) then defaults.
func (e *Explorer) runOne(prefix []int) *Exec {
	x := &Exec{}
	k := 0
	res, obs := e.Run(func(p *vsync.Point) int {
		d := e.defaultChoice(p, k)
		c := d
		if k < len(prefix) {
			// prefix stores the actual index chosen
			c = prefix[k]
			if c >= len(p.Enabled) {
				panic(fmt.Sprintf("explorer: replay diverged at point %d: choice %d of %d enabled", k, c, len(p.Enabled)))
			}
		}
		x.Choices = append(x.Choices, c)
		k++
		return c
	})
	x.Res, x.Obs, x.Points = res, obs, res.Points
	atomic.AddUint64(&e.Execs, 1)
	return x
}

func (e *Explorer) devs(x *Exec, upto int) int {
	n := 0
	for i := 0; i < upto && i < len(x.Choices); i++ {
		if x.Choices[i] != e.defaultChoice(&x.Points[i], i) {
			n++
		}
	}
	return n
}

// Explore runs the DFS from the given prefix.
func (e *Explorer) Explore(prefix []int) {
	if e.Truncated || (e.Stop != nil && e.Stop()) || (e.MaxExecs > 0 && e.Execs >= e.MaxExecs) {
		e.Truncated = true
		return
	}
	x := e.runOne(prefix)
	if len(prefix) > 0 || e.ShardN <= 1 || e.ShardK == 0 {
		e.Check(x)
	} else if e.Baseline != nil {
		e.Baseline(x)
	}
	for i := len(prefix); i < len(x.Points); i++ {
		p := &x.Points[i]
		cost := e.devs(x, i) + 1
		if cost > e.Bound {
			continue
		}
		def := e.defaultChoice(p, i)
		for alt := 0; alt < len(p.Enabled); alt++ {
			if alt == def || (e.NoTimers && alt >= len(p.Enabled)-p.Sleepers && len(p.Enabled) > p.Sleepers) {
				continue
			}
			if len(prefix) == 0 && e.ShardN > 1 {
				e.topAlt++
				if e.topAlt%e.ShardN != e.ShardK {
					continue
				}
			}
			np := append(append([]int{}, x.Choices[:i]...), alt)
			e.Explore(np)
			if e.Truncated {
				return
			}
		}
	}
}
