package main

// C20: build contexts and plugins are safe under concurrency (schedule exploration of the real code).

import (
	"fmt"
	"os"
	"os/exec"
	"path/filepath"
	"regexp"
	"sort"
	"strings"
	"time"

	"github.com/evanw/esbuild/internal/vsync"
	"github.com/evanw/esbuild/pkg/api"
)

type c20Event struct {
	Seq    int
	Thread int
	Kind   string // invoke/return of client ops, callback begin/end
	Op     string
	Build  int
	Info   string
}

type c20World struct {
	seq       int
	events    []c20Event
	version   int
	buildCtr  int
	curBuild  int
	onEndSeen map[int]string
	disposed  bool
	inBuild   bool
}

// beginBuild: start callbacks of one build run concurrently; the first one to run opens the build
// (builds of one context never overlap, which the invariants below also check).
func (w *c20World) beginBuild() {
	if !w.inBuild {
		w.inBuild = true
		w.buildCtr++
		w.curBuild = w.buildCtr
	}
}

func (w *c20World) ev(kind, op string, build int, info string) int {
	w.seq++
	w.events = append(w.events, c20Event{w.seq, vsync.CurrentThread(), kind, op, build, info})
	return w.seq
}

var c20Marker = regexp.MustCompile(`m:(\w+):v(\d+):b(\d+)`)

func c20ResultText(r api.BuildResult) string {
	var parts []string
	for _, f := range r.OutputFiles {
		parts = append(parts, string(f.Contents))
	}
	for _, e := range r.Errors {
		parts = append(parts, "ERR:"+e.Text)
	}
	return strings.Join(parts, "\n")
}

// one harness = op words for each client thread
var c20Alphabet = []string{"rebuild", "cancel", "dispose", "edit"}

func c20Words(maxLen int, alpha []string) [][]string {
	var out [][]string
	for _, a := range alpha {
		out = append(out, []string{a})
	}
	if maxLen >= 2 {
		for _, a := range alpha {
			for _, b := range alpha {
				out = append(out, []string{a, b})
			}
		}
	}
	return out
}

type c20Harness struct {
	threads [][]string
	fail    string // "" | callback that fails: onStart/onResolve/onLoad/onEnd
}

func (h c20Harness) String() string {
	var p []string
	for _, t := range h.threads {
		p = append(p, strings.Join(t, ","))
	}
	s := strings.Join(p, " || ")
	if h.fail != "" {
		s += " [fail:" + h.fail + "]"
	}
	return s
}

// c20WatchFile: a real file that every load callback registers as a watched file; "edit" rewrites it (with a
// different length each time) so that a context in watch mode sees the edit through its watcher goroutine.
var c20WatchFile = func() string {
	dir := scratchRoot("c20w")
	os.MkdirAll(dir, 0o755)
	return filepath.Join(dir, fmt.Sprintf("watched-%d.txt", os.Getpid()))
}()

func c20WriteWatched(version int) {
	os.WriteFile(c20WatchFile, []byte(fmt.Sprintf("v%d%s", version, strings.Repeat("x", version))), 0o644)
}

func (h c20Harness) usesWatch() bool {
	for _, t := range h.threads {
		for _, op := range t {
			if op == "watch" {
				return true
			}
		}
	}
	return false
}

func c20Run(h c20Harness, choose func(p *vsync.Point) int) (vsync.Result, *c20World) {
	w := &c20World{onEndSeen: map[int]string{}}
	watching := h.usesWatch()
	if watching {
		c20WriteWatched(0)
	}
	var res vsync.Result
	res = vsync.Run(func() {
		plugin := api.Plugin{Name: "verif", Setup: func(b api.PluginBuild) {
			b.OnStart(func() (api.OnStartResult, error) {
				vsync.UserPoint("onStart1")
				w.beginBuild()
				w.ev("cb-begin", "onStart1", w.curBuild, "")
				vsync.UserPoint("onStart1-mid")
				w.ev("cb-end", "onStart1", w.curBuild, "")
				if h.fail == "onStart" {
					return api.OnStartResult{}, fmt.Errorf("injected onStart failure")
				}
				return api.OnStartResult{}, nil
			})
			b.OnStart(func() (api.OnStartResult, error) {
				vsync.UserPoint("onStart2")
				w.beginBuild()
				w.ev("cb-begin", "onStart2", w.curBuild, "")
				vsync.UserPoint("onStart2-mid")
				w.ev("cb-end", "onStart2", w.curBuild, "")
				return api.OnStartResult{}, nil
			})
			b.OnResolve(api.OnResolveOptions{Filter: `^virtual:`}, func(a api.OnResolveArgs) (api.OnResolveResult, error) {
				vsync.UserPoint("onResolve")
				w.ev("cb", "onResolve", w.curBuild, a.Path)
				if h.fail == "onResolve" && a.Path == "virtual:dep" {
					return api.OnResolveResult{}, fmt.Errorf("injected onResolve failure")
				}
				return api.OnResolveResult{Path: a.Path, Namespace: "v"}, nil
			})
			b.OnLoad(api.OnLoadOptions{Filter: `.*`, Namespace: "v"}, func(a api.OnLoadArgs) (api.OnLoadResult, error) {
				vsync.UserPoint("onLoad")
				ver := w.version
				w.ev("cb", "onLoad", w.curBuild, fmt.Sprintf("%s v%d", a.Path, ver))
				if h.fail == "onLoad" && a.Path == "virtual:dep" {
					return api.OnLoadResult{}, fmt.Errorf("injected onLoad failure")
				}
				name := strings.TrimPrefix(a.Path, "virtual:")
				src := fmt.Sprintf("export let %s = 'm:%s:v%d:b%d';", name, name, ver, w.curBuild)
				if name == "entry" {
					src = "import {dep} from 'virtual:dep'; import {dep2} from 'virtual:dep2'; console.log(dep, dep2);" + src
				}
				r := api.OnLoadResult{Contents: &src, ResolveDir: "/"}
				if watching {
					r.WatchFiles = []string{c20WatchFile}
				}
				return r, nil
			})
			b.OnEnd(func(r *api.BuildResult) (api.OnEndResult, error) {
				vsync.UserPoint("onEnd1")
				w.ev("cb-begin", "onEnd1", w.curBuild, "")
				w.onEndSeen[w.curBuild] = c20ResultText(*r)
				vsync.UserPoint("onEnd1-mid")
				w.ev("cb-end", "onEnd1", w.curBuild, "")
				if h.fail == "onEnd" {
					w.inBuild = false
					return api.OnEndResult{}, fmt.Errorf("injected onEnd failure")
				}
				return api.OnEndResult{}, nil
			})
			b.OnEnd(func(r *api.BuildResult) (api.OnEndResult, error) {
				w.ev("cb", "onEnd2", w.curBuild, "")
				w.inBuild = false
				return api.OnEndResult{}, nil
			})
			b.OnDispose(func() {
				w.ev("cb", "onDispose", 0, "")
			})
		}}
		ctx, err := api.Context(api.BuildOptions{EntryPoints: []string{"virtual:entry"}, Bundle: true, Write: false, LogLevel: api.LogLevelSilent, Plugins: []api.Plugin{plugin}, Format: api.FormatESModule, Outfile: "/out.js", AbsWorkingDir: "/",
			Inject: []string{"virtual:inject"}}) // an injected file is resolved and loaded through the plugin as well (before the entry points are scanned)
		if err != nil {
			panic(fmt.Sprintf("context: %v", err))
		}
		var wg vsync.WaitGroup
		wg.Add(len(h.threads))
		for ti, ops := range h.threads {
			ti, ops := ti, ops
			vsync.Go(func() {
				for oi, op := range ops {
					vsync.UserPoint("client")
					inv := w.ev("invoke", op, 0, fmt.Sprintf("t%d.%d v%d", ti, oi, w.version))
					switch op {
					case "rebuild":
						r := ctx.Rebuild()
						w.ev("return", op, inv, c20ResultText(r))
					case "cancel":
						ctx.Cancel()
						w.ev("return", op, inv, "")
					case "dispose":
						ctx.Dispose()
						w.ev("return", op, inv, "")
					case "edit":
						w.version++
						if watching {
							c20WriteWatched(w.version)
						}
						w.ev("return", op, inv, "")
					case "watch":
						err := ctx.Watch(api.WatchOptions{})
						w.ev("return", op, inv, fmt.Sprint(err))
					}
				}
				wg.Done()
			})
		}
		wg.Wait()
		vsync.UserPoint("final")
		ctx.Dispose()
		w.ev("final", "", 0, "")
	}, choose, func(s *vsync.Sched) {
		s.TraceOn = c20TraceMode
		s.Branch = func(op vsync.Op) bool {
			return op.Kind == vsync.KUser || op.Kind == vsync.KSpawn || strings.HasPrefix(op.Site, "api/") || strings.HasPrefix(op.Site, "config/") || strings.HasPrefix(op.Site, "helpers/") || strings.HasPrefix(op.Site, "verifs/")
		}
	})
	return res, w
}

// c20CheckWorld evaluates the invariants on the ground-truth event log of one execution.
func c20CheckWorld(w *c20World) []string {
	var bad []string
	type binfo struct {
		startBegin, lastStartEnd, firstLoadOrResolve, endBegin, endEnd int
		loads                                                          map[string]int
		onEnd1, onEnd2                                                 int
		versions                                                       []int
	}
	builds := map[int]*binfo{}
	get := func(b int) *binfo {
		if builds[b] == nil {
			builds[b] = &binfo{loads: map[string]int{}}
		}
		return builds[b]
	}
	disposeReturn := 0
	finalSeq := 0
	for _, e := range w.events {
		switch {
		case e.Kind == "cb-begin" && strings.HasPrefix(e.Op, "onStart") && get(e.Build).startBegin == 0:
			// overlapping builds: previous build must have ended
			for b, bi := range builds {
				if b != e.Build && bi.startBegin > 0 && bi.endBegin == 0 && bi.onEnd2 == 0 {
					// previous build never reached onEnd: allowed only if it failed in onStart (esbuild still calls onEnd) -> report
					bad = append(bad, fmt.Sprintf("build %d started while build %d had not reached its end callbacks", e.Build, b))
				}
			}
			get(e.Build).startBegin = e.Seq
		case e.Kind == "cb-end" && strings.HasPrefix(e.Op, "onStart"):
			get(e.Build).lastStartEnd = e.Seq
		case e.Kind == "cb-begin" && strings.HasPrefix(e.Op, "onStart"):
		case e.Kind == "cb" && (e.Op == "onResolve" || e.Op == "onLoad"):
			bi := get(e.Build)
			if bi.firstLoadOrResolve == 0 {
				bi.firstLoadOrResolve = e.Seq
			}
			if e.Op == "onLoad" {
				path := strings.Fields(e.Info)[0]
				bi.loads[path]++
				var v int
				fmt.Sscanf(strings.Fields(e.Info)[1], "v%d", &v)
				bi.versions = append(bi.versions, v)
			}
		case e.Kind == "cb-begin" && e.Op == "onEnd1":
			get(e.Build).endBegin = e.Seq
			get(e.Build).onEnd1++
		case e.Kind == "cb-end" && e.Op == "onEnd1":
			get(e.Build).endEnd = e.Seq
		case e.Kind == "cb" && e.Op == "onEnd2":
			get(e.Build).onEnd2++
		case e.Kind == "return" && e.Op == "dispose":
			if disposeReturn == 0 {
				disposeReturn = e.Seq
			}
		case e.Kind == "final":
			finalSeq = e.Seq
		}
		if disposeReturn > 0 && e.Seq > disposeReturn && strings.HasPrefix(e.Kind, "cb") && e.Op != "onDispose" {
			bad = append(bad, fmt.Sprintf("callback %s of build %d fired (seq %d) after Dispose returned (seq %d)", e.Op, e.Build, e.Seq, disposeReturn))
		}
	}
	_ = finalSeq
	for b, bi := range builds {
		// start callbacks run concurrently with each other but must all finish before resolve/load
		nStartEnds := 0
		for _, e := range w.events {
			if e.Build == b && e.Kind == "cb-end" && strings.HasPrefix(e.Op, "onStart") {
				nStartEnds++
				if bi.firstLoadOrResolve > 0 && e.Seq > bi.firstLoadOrResolve {
					bad = append(bad, fmt.Sprintf("build %d: %s finished (seq %d) after the first resolve/load callback (seq %d)", b, e.Op, e.Seq, bi.firstLoadOrResolve))
				}
			}
		}
		for p, n := range bi.loads {
			if n > 1 {
				bad = append(bad, fmt.Sprintf("build %d: module %s loaded %d times", b, p, n))
			}
		}
		if bi.onEnd1 > 1 || bi.onEnd2 > 1 {
			bad = append(bad, fmt.Sprintf("build %d: end callbacks ran more than once (%d, %d)", b, bi.onEnd1, bi.onEnd2))
		}
	}
	// client calls
	invokes := map[int]c20Event{}
	for _, e := range w.events {
		if e.Kind == "invoke" {
			invokes[e.Seq] = e
		}
	}
	for _, e := range w.events {
		if e.Kind != "return" {
			continue
		}
		inv := invokes[e.Build]
		switch e.Op {
		case "rebuild":
			txt := e.Info
			ms := c20Marker.FindAllStringSubmatch(txt, -1)
			switch {
			case txt == "":
				// empty result: only a disposed context may answer like this
				ok := false
				for _, d := range w.events {
					if d.Kind == "invoke" && d.Op == "dispose" && d.Seq < e.Seq {
						ok = true
					}
				}
				if !ok {
					bad = append(bad, fmt.Sprintf("Rebuild (invoked seq %d) returned an empty result although Dispose was never invoked before it returned", inv.Seq))
				}
			case strings.Contains(txt, "The build was canceled"):
				ok := false
				for _, d := range w.events {
					if d.Kind == "invoke" && d.Op == "cancel" && d.Seq < e.Seq {
						ok = true
					}
				}
				if !ok {
					bad = append(bad, fmt.Sprintf("Rebuild (invoked seq %d) reports cancellation although Cancel was never invoked before it returned", inv.Seq))
				}
			case len(ms) == 0:
				// build with injected failure etc.: must contain an error
				if !strings.Contains(txt, "ERR:") {
					bad = append(bad, fmt.Sprintf("Rebuild returned neither outputs, errors nor cancellation: %q", trunc(txt, 200)))
				}
			default:
				bset := map[string]bool{}
				for _, m := range ms {
					bset[m[3]] = true
				}
				if len(bset) != 1 {
					bad = append(bad, fmt.Sprintf("Rebuild returned a mixture of builds %v: %q", keysOf(bset), trunc(txt, 300)))
					break
				}
				var b int
				fmt.Sscanf(ms[0][3], "%d", &b)
				bi := builds[b]
				if bi == nil {
					bad = append(bad, fmt.Sprintf("Rebuild returned build %d which never started", b))
					break
				}
				if seen, ok := w.onEndSeen[b]; ok && seen != txt && !strings.Contains(txt, "injected onEnd failure") {
					bad = append(bad, fmt.Sprintf("Rebuild returned a result that differs from what the end callback of build %d observed", b))
				}
				if bi.startBegin > e.Seq {
					bad = append(bad, fmt.Sprintf("Rebuild returned build %d before that build started", b))
				}
				// staleness: another build started after b ended and before this call was invoked
				for b2, bi2 := range builds {
					if b2 != b && bi.endEnd > 0 && bi2.startBegin > bi.endEnd && bi2.startBegin < inv.Seq {
						bad = append(bad, fmt.Sprintf("Rebuild (invoked seq %d) returned stale build %d (ended seq %d) although build %d started at seq %d before the call", inv.Seq, b, bi.endEnd, b2, bi2.startBegin))
					}
				}
				// a build started by/after the call reflects all earlier edits
				if bi.startBegin > inv.Seq {
					var vAtInvoke int
					fmt.Sscanf(strings.Fields(inv.Info)[1], "v%d", &vAtInvoke)
					for _, v := range bi.versions {
						if v < vAtInvoke {
							bad = append(bad, fmt.Sprintf("build %d started after Rebuild was invoked (version %d) but loaded version %d", b, vAtInvoke, v))
						}
					}
				}
			}
		case "cancel", "dispose":
			for b, bi := range builds {
				if bi.startBegin > 0 && bi.startBegin < inv.Seq && (bi.endEnd == 0 || bi.endEnd > inv.Seq) {
					// build active at invocation: must have ended when the call returns
					if bi.endBegin > 0 && (bi.endEnd == 0 || bi.endEnd > e.Seq) {
						bad = append(bad, fmt.Sprintf("%s (invoked seq %d, returned seq %d) returned before build %d ended (end callback finished at seq %d)", e.Op, inv.Seq, e.Seq, b, bi.endEnd))
					}
					if bi.endBegin == 0 {
						// the build never reached its end callbacks before the call returned: look for any later callback
						for _, x := range w.events {
							if x.Build == b && strings.HasPrefix(x.Kind, "cb") && x.Seq > e.Seq {
								bad = append(bad, fmt.Sprintf("%s returned (seq %d) while build %d was still running callback %s (seq %d)", e.Op, e.Seq, b, x.Op, x.Seq))
								break
							}
						}
					}
				}
			}
		}
	}
	return bad
}

func keysOf(m map[string]bool) []string {
	var k []string
	for x := range m {
		k = append(k, x)
	}
	sort.Strings(k)
	return k
}

func c20Harnesses(tier string) []c20Harness {
	var hs []c20Harness
	words := c20Words(2, c20Alphabet)
	for i, a := range words {
		for j, b := range words {
			if j < i {
				continue // thread symmetry
			}
			if !c20HasRebuild(a) && !c20HasRebuild(b) {
				continue // nothing to observe without a build
			}
			hs = append(hs, c20Harness{threads: [][]string{a, b}})
		}
	}
	// three single-op threads + failure injection
	singles := c20Words(1, c20Alphabet)
	for _, a := range singles {
		for _, b := range singles {
			hs = append(hs, c20Harness{threads: [][]string{{"rebuild"}, a, b}})
		}
	}
	for _, f := range []string{"onStart", "onResolve", "onLoad", "onEnd"} {
		for _, b := range words {
			hs = append(hs, c20Harness{threads: [][]string{{"rebuild"}, b}, fail: f})
		}
	}
	// watch mode: the watcher goroutine polls on a (virtual) timer and rebuilds on its own after an edit
	watchers := [][]string{{"watch"}, {"watch", "edit"}, {"edit", "watch"}, {"watch", "rebuild"}}
	others := c20Words(1, c20Alphabet)
	others = append(others, []string{"edit", "dispose"}, []string{"dispose", "rebuild"}, []string{"cancel", "dispose"}, []string{"edit", "cancel"}, []string{"edit", "rebuild"})
	if tier != "quick" {
		others = words
	}
	for _, a := range watchers {
		for _, b := range others {
			hs = append(hs, c20Harness{threads: [][]string{a, b}})
		}
	}
	hs = append(hs, c20Harness{threads: [][]string{{"watch", "edit"}, {"dispose"}, {"cancel"}}}, c20Harness{threads: [][]string{{"watch"}, {"edit"}, {"dispose"}}}, c20Harness{threads: [][]string{{"watch", "edit"}, {"watch"}, {"dispose"}}})
	return hs
}

func c20HasRebuild(w []string) bool {
	for _, x := range w {
		if x == "rebuild" {
			return true
		}
	}
	return false
}

func runC20(c *Check) {
	c.Rule = "stateless model checking of the real pkg/api context code under the cooperative scheduler: every word of <=2 operations from {Rebuild, Cancel, Dispose, Edit} on each of 2 client threads (3 single-operation threads; injected failures of each callback kind), and Watch on a context whose load callbacks register a real watched file that Edit rewrites (watcher goroutine on a virtual timer, early wake-ups explored as deviations) against the other operations against one context whose modules are produced by plugin callbacks; all schedules within the deviation bound whose choice points lie in pkg/api, config.CancelFlag, helpers wait groups and plugin callbacks; invariants are evaluated on the ground-truth event log of every execution; states = executions, transitions = scheduling decisions"
	c.Assump = []string{"sequentially consistent scheduler; data races are the business of the free-running -race pass", "Serve (net/http, sockets) and the stdio protocol are not explored; Watch is explored with a virtual clock (time.Sleep is a scheduling point, wake-ups in deadline order unless a deviation wakes a sleeper early)", "preemptions are only placed at operations of pkg/api, internal/config, internal/helpers and plugin callbacks; the inner bundler runs under the scheduler with its default policy"}
	bound := 1
	if c.Tier != "quick" {
		bound = 2
	}
	if c.shardN <= 1 {
		if os.Getenv("VERIF_C20_ONLY") == "service" { // debugging aid
			c20Service(c)
			return
		}
		c20Parent(c, bound)
		return
	}
	hs := c20Harnesses(c.Tier)
	// warm process-global caches (compiled plugin filters, runtime AST, ...) so that every explored
	// execution starts from the same global state
	for _, h := range []c20Harness{hs[0], hs[len(hs)-1], hs[len(hs)/2]} {
		c20Run(h, func(p *vsync.Point) int { return 0 })
	}
	var states, transitions, validated uint64
	outcomes := map[string]bool{}
	for hi, h := range hs {
		if hi%c.shardN != c.shardK {
			continue
		}
		if c.Expired() {
			break
		}
		h := h
		var lastWorld *c20World
		run := func(choose func(p *vsync.Point) int) (vsync.Result, string) {
			res, w := c20Run(h, choose)
			lastWorld = w
			var sb strings.Builder
			for _, e := range w.events {
				fmt.Fprintf(&sb, "%s/%s/%d;", e.Kind, e.Op, e.Build)
			}
			return res, sb.String()
		}
		for policy := 0; policy < 2; policy++ {
			// watch harnesses explore timer deviations too (the watcher waking up early is how its rebuild gets to
			// overlap the clients' calls)
			ex := &Explorer{Bound: bound, Policy: policy, Run: run, Stop: c.Expired, NoTimers: !h.usesWatch()}
			first := true
			ex.Check = func(x *Exec) {
				states++
				transitions += uint64(len(x.Points))
				c.Eval(1)
				outcomes[x.Obs] = true
				c.Distinct(x.Obs)
				w := lastWorld
				if first || states%64 == 0 {
					first = false
					// replay validation: the first execution of every harness and every 64th execution
					y := ex.runOne(x.Choices)
					validated++
					if y.Obs != x.Obs {
						fatalf("schedule replay diverged for harness %s", h)
					}
				}
				if x.Res.Deadlock {
					c.Violation("deadlock:"+h.String(), map[string]interface{}{"kind": "deadlock", "harness": h.String(), "policy": policy, "schedule": x.Choices, "blocked": x.Res.Blocked})
					return
				}
				if x.Res.Panic != nil {
					c.Violation("panic:"+h.String(), map[string]interface{}{"kind": "panic", "harness": h.String(), "policy": policy, "schedule": x.Choices, "panic": fmt.Sprint(x.Res.Panic)})
					return
				}
				if bad := c20CheckWorld(w); len(bad) > 0 {
					var evs []string
					for _, e := range w.events {
						evs = append(evs, fmt.Sprintf("%d T%d %s %s b%d %s", e.Seq, e.Thread, e.Kind, e.Op, e.Build, trunc(strings.ReplaceAll(e.Info, "\n", " "), 80)))
					}
					c.Violation("inv:"+h.String()+":"+bad[0], map[string]interface{}{"kind": "invariant violated", "harness": h.String(), "policy": policy, "schedule": x.Choices, "violations": bad, "events": evs})
				}
			}
			ex.Explore(nil)
			if ex.Truncated {
				c.mu.Lock()
				c.Exhaust = false
				c.mu.Unlock()
			}
		}
		if hi%40 == c.shardK {
			c.Sample(map[string]interface{}{"harness": h.String()})
		}
	}
	c.Sub("states", states)
	c.Sub("transitions", transitions)
	c.Sub("traces_validated_against_impl", validated)
	c.Sub("harnesses", uint64(len(hs))/uint64(c.shardN))
}

func c20Parent(c *Check, bound int) {
	N := NumWorkers()
	dir := scratchRoot("c20p")
	defer os.RemoveAll(dir)
	var cmds []*exec.Cmd
	for k := 0; k < N; k++ {
		cmd := exec.Command(os.Args[0], c.ID, "--tier", c.Tier, "--shard", fmt.Sprintf("%d/%d", k, N), "--partial", filepath.Join(dir, fmt.Sprintf("p%d.json", k)))
		cmd.Env = append(os.Environ(), "GOMAXPROCS=2", fmt.Sprintf("VERIF_BUDGET_S=%d", int(time.Until(c.deadline).Seconds())-5))
		cmd.Stderr = os.Stderr
		cmd.Stdout = os.Stderr
		if err := cmd.Start(); err != nil {
			fatalf("spawn: %v", err)
		}
		cmds = append(cmds, cmd)
	}
	for k, cmd := range cmds {
		if err := cmd.Wait(); err != nil {
			fatalf("scheduler worker %d failed: %v", k, err)
		}
		if !c.MergePartial(filepath.Join(dir, fmt.Sprintf("p%d.json", k))) {
			fatalf("scheduler worker %d produced no result", k)
		}
	}
	c.mu.Lock()
	c.extra["states"] = c.sub["states"]
	c.extra["transitions"] = c.sub["transitions"]
	c.extra["traces_validated_against_impl"] = c.sub["traces_validated_against_impl"]
	c.extra["deviation_bound"] = bound
	c.extra["harnesses"] = len(c20Harnesses(c.Tier))
	c.extra["worker_processes"] = N
	c.mu.Unlock()
	if c.replayKey == "" || strings.HasPrefix(c.replayKey, "data-race:") {
		freeRacePass(c)
	}
	if c.replayKey == "" || strings.HasPrefix(c.replayKey, "service:") {
		c20Service(c)
	}
}

func init() { register("C20", "model_checking", runC20) }

func init() {
	register("C20debug", "model_checking", func(c *Check) {
		hs := c20Harnesses("quick")
		hi := 0
		fmt.Sscan(argVal("--h", "0"), &hi)
		h := hs[hi]
		fmt.Println("harness", h)
		var traces [][]string
		for r := 0; r < 3; r++ {
			res, _ := c20RunTrace(h)
			traces = append(traces, res.Trace)
			fmt.Println("run", r, "ops", len(res.Trace), "points", len(res.Points), "deadlock", res.Deadlock, res.Blocked)
		}
		for i := 0; i < len(traces[0]) && i < len(traces[1]); i++ {
			if traces[0][i] != traces[1][i] {
				for j := i - 8; j < i+6; j++ {
					if j >= 0 && j < len(traces[0]) && j < len(traces[1]) {
						fmt.Printf("%4d | %-60s | %s\n", j, traces[0][j], traces[1][j])
					}
				}
				break
			}
		}
		c.Eval(1)
		c.Distinct("a")
		c.Distinct("b")
	})
}

var c20TraceMode bool

func c20RunTrace(h c20Harness) (vsync.Result, *c20World) {
	c20TraceMode = true
	defer func() { c20TraceMode = false }()
	return c20Run(h, func(p *vsync.Point) int { return 0 })
}
