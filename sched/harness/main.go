package main

import (
	"fmt"
	"os"
	"sort"
)

type checkFn func(c *Check)

type checkDef struct {
	level string
	fn    checkFn
}

var registry = map[string]checkDef{}

func register(id, level string, fn checkFn) { registry[id] = checkDef{level, fn} }

func main() {
	if len(os.Args) < 2 {
		ids := []string{}
		for k := range registry {
			ids = append(ids, k)
		}
		sort.Strings(ids)
		fmt.Println("usage: verifs <ID> [--tier quick|thorough]; ids:", ids)
		os.Exit(2)
	}
	id := os.Args[1]
	def, ok := registry[id]
	if !ok {
		fatalf("unknown check %q", id)
	}
	tier := argVal("--tier", os.Getenv("VERIF_TIER"))
	if tier != "thorough" {
		tier = "quick"
	}
	if hasArg("--free-race") {
		runFreeRace(id, tier)
		os.Exit(0)
	}
	c := NewCheck(id, tier, def.level)
	def.fn(c)
	if c.partial != "" {
		c.FinishPartial()
		os.Exit(0)
	}
	os.Exit(c.Finish())
}
