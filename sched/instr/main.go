// instr rewrites the concurrency-relevant esbuild packages so that every goroutine creation, sync /
// atomic operation, channel operation and sleep goes through internal/vsync. It works on /repo's
// *current* sources and emits an overlay JSON; nothing is patched by hand.
//
// usage: instr <repo> <outdir> <vsyncdir> <harnessdir> <overlay.json>
package main

import (
	"bytes"
	"encoding/json"
	"fmt"
	"go/ast"
	"go/build"
	"go/format"
	"go/parser"
	"go/token"
	"os"
	"path/filepath"
	"sort"
	"strings"
)

var packages = []string{"pkg/api", "pkg/cli", "cmd/esbuild", "internal/bundler", "internal/linker", "internal/graph", "internal/renamer", "internal/cache", "internal/fs", "internal/resolver", "internal/logger", "internal/helpers", "internal/config", "internal/css_ast"}

const vsyncPath = "github.com/evanw/esbuild/internal/vsync"

type rewriter struct {
	fset    *token.FileSet
	file    string
	changed bool
	needV   bool
	errs    []string
	skipSel bool
}

func (r *rewriter) errf(pos token.Pos, format string, a ...interface{}) {
	r.errs = append(r.errs, fmt.Sprintf("%s: %s", r.fset.Position(pos), fmt.Sprintf(format, a...)))
}

func vcall(name string, args ...ast.Expr) *ast.CallExpr {
	return &ast.CallExpr{Fun: &ast.SelectorExpr{X: ast.NewIdent("vsync_"), Sel: ast.NewIdent(name)}, Args: args}
}

func containsRecv(n ast.Node) (found *ast.UnaryExpr) {
	ast.Inspect(n, func(x ast.Node) bool {
		if found != nil {
			return false
		}
		switch v := x.(type) {
		case *ast.FuncLit:
			return false
		case *ast.UnaryExpr:
			if v.Op == token.ARROW {
				found = v
				return false
			}
		}
		return true
	})
	return
}

// rewriteStmtList instruments the statements of one block.
func (r *rewriter) rewriteStmtList(list []ast.Stmt) []ast.Stmt {
	var out []ast.Stmt
	for _, st := range list {
		switch s := st.(type) {
		case *ast.GoStmt:
			r.changed, r.needV = true, true
			call := s.Call
			if fl, ok := call.Fun.(*ast.FuncLit); ok && len(call.Args) == 0 {
				out = append(out, &ast.ExprStmt{X: vcall("Go", fl)})
				continue
			}
			// evaluate arguments (and a non-literal callee) eagerly, as `go` does
			var pre []ast.Stmt
			var args []ast.Expr
			for i, a := range call.Args {
				tmp := ast.NewIdent(fmt.Sprintf("vsyncArg%d_", i))
				pre = append(pre, &ast.AssignStmt{Lhs: []ast.Expr{tmp}, Tok: token.DEFINE, Rhs: []ast.Expr{a}})
				args = append(args, tmp)
			}
			fun := call.Fun
			if _, ok := fun.(*ast.FuncLit); !ok {
				tmp := ast.NewIdent("vsyncFn_")
				pre = append(pre, &ast.AssignStmt{Lhs: []ast.Expr{tmp}, Tok: token.DEFINE, Rhs: []ast.Expr{fun}})
				fun = tmp
			}
			inner := &ast.CallExpr{Fun: fun, Args: args, Ellipsis: call.Ellipsis}
			body := &ast.FuncLit{Type: &ast.FuncType{Params: &ast.FieldList{}}, Body: &ast.BlockStmt{List: []ast.Stmt{&ast.ExprStmt{X: inner}}}}
			pre = append(pre, &ast.ExprStmt{X: vcall("Go", body)})
			out = append(out, &ast.BlockStmt{List: pre})
			continue
		case *ast.SendStmt:
			r.changed, r.needV = true, true
			out = append(out, &ast.ExprStmt{X: vcall("BeforeSend", s.Chan)}, s, &ast.ExprStmt{X: vcall("AfterSend", s.Chan)})
			continue
		case *ast.SelectStmt:
			if !r.skipSel {
				r.errf(s.Pos(), "select statement is not supported by the instrumenter")
			}
		case *ast.ExprStmt:
			if call, ok := s.X.(*ast.CallExpr); ok {
				if id, ok := call.Fun.(*ast.Ident); ok && id.Name == "close" && len(call.Args) == 1 {
					r.changed, r.needV = true, true
					out = append(out, &ast.ExprStmt{X: vcall("BeforeClose", call.Args[0])}, s)
					continue
				}
			}
			if u, ok := s.X.(*ast.UnaryExpr); ok && u.Op == token.ARROW {
				r.changed, r.needV = true, true
				out = append(out, &ast.ExprStmt{X: vcall("BeforeRecv", u.X)}, s)
				continue
			}
		case *ast.AssignStmt:
			if len(s.Rhs) == 1 {
				if u, ok := s.Rhs[0].(*ast.UnaryExpr); ok && u.Op == token.ARROW {
					r.changed, r.needV = true, true
					out = append(out, &ast.ExprStmt{X: vcall("BeforeRecv", u.X)}, s)
					continue
				}
			}
		case *ast.ReturnStmt:
			if len(s.Results) == 1 {
				if u, ok := s.Results[0].(*ast.UnaryExpr); ok && u.Op == token.ARROW {
					r.changed, r.needV = true, true
					out = append(out, &ast.ExprStmt{X: vcall("BeforeRecv", u.X)}, s)
					continue
				}
			}
		case *ast.RangeStmt:
			// range over channel cannot be recognised syntactically; esbuild has none (checked by the
			// generic "unhandled receive" scan below for explicit receives)
		}
		if u := containsRecvDirect(st); u != nil && !r.skipSel {
			r.errf(u.Pos(), "channel receive in an unsupported statement form")
		}
		out = append(out, st)
	}
	return out
}

// containsRecvDirect: a receive expression directly inside this statement (not inside nested blocks,
// which are handled when those blocks are visited).
func containsRecvDirect(st ast.Stmt) *ast.UnaryExpr {
	var found *ast.UnaryExpr
	ast.Inspect(st, func(x ast.Node) bool {
		if found != nil {
			return false
		}
		switch v := x.(type) {
		case *ast.FuncLit, *ast.BlockStmt:
			if x != ast.Node(st) {
				return false
			}
		case *ast.UnaryExpr:
			if v.Op == token.ARROW {
				found = v
				return false
			}
		}
		return true
	})
	return found
}

func (r *rewriter) visit(n ast.Node) {
	ast.Inspect(n, func(x ast.Node) bool {
		switch v := x.(type) {
		case *ast.BlockStmt:
			v.List = r.rewriteStmtList(v.List)
		case *ast.CaseClause:
			v.Body = r.rewriteStmtList(v.Body)
		case *ast.CommClause:
			v.Body = r.rewriteStmtList(v.Body)
		case *ast.RangeStmt:
			// "for path := range w.data.Paths" in the watcher: Go's randomised map iteration decides the scan order and
			// with it how many file system operations run before a dirty path is found. Under the scheduler the keys are
			// visited in sorted order (vsync_.SortedKeys); in passthrough mode nothing changes.
			if sel, ok := v.X.(*ast.SelectorExpr); ok && sel.Sel.Name == "Paths" && v.Value == nil && v.Key != nil {
				if inner, ok := sel.X.(*ast.SelectorExpr); ok && inner.Sel.Name == "data" {
					v.Value = v.Key
					v.Key = ast.NewIdent("_")
					v.X = &ast.CallExpr{Fun: &ast.SelectorExpr{X: ast.NewIdent("vsync_"), Sel: ast.NewIdent("SortedKeys")}, Args: []ast.Expr{sel}}
					r.changed, r.needV = true, true
				}
			}
		case *ast.CallExpr:
			// make(chan T) -> vsync_.Unbuf(make(chan T, 1)).(chan T)   (handled in parent rewrite below)
			if sel, ok := v.Fun.(*ast.SelectorExpr); ok {
				if id, ok := sel.X.(*ast.Ident); ok && id.Name == "time" && sel.Sel.Name == "Sleep" {
					id.Name = "vsync_"
					r.changed, r.needV = true, true
				}
				// the watcher shuffles its scan list with math/rand seeded from the clock: route the draw through the
				// scheduler package (deterministic under the scheduler, the real thing otherwise)
				if id, ok := sel.X.(*ast.Ident); ok && id.Name == "rand" && sel.Sel.Name == "Int31n" {
					id.Name = "vsync_"
					sel.Sel.Name = "RandInt31n"
					r.changed, r.needV = true, true
				}
			}
		}
		return true
	})
}

// rewriteMakeChan replaces unbuffered make(chan T) expressions wherever they occur.
func (r *rewriter) rewriteMakeChan(f *ast.File) {
	done := map[*ast.CallExpr]bool{}
	var rewrite func(e ast.Expr) ast.Expr
	rewrite = func(e ast.Expr) ast.Expr {
		call, ok := e.(*ast.CallExpr)
		if !ok || done[call] {
			return e
		}
		if id, ok := call.Fun.(*ast.Ident); ok && id.Name == "make" && len(call.Args) == 1 {
			if ct, ok := call.Args[0].(*ast.ChanType); ok {
				r.changed, r.needV = true, true
				nc := &ast.CallExpr{Fun: ast.NewIdent("make"), Args: []ast.Expr{ct, &ast.BasicLit{Kind: token.INT, Value: "1"}}}
				done[nc] = true
				return &ast.TypeAssertExpr{X: vcall("Unbuf", nc), Type: ct}
			}
		}
		if id, ok := call.Fun.(*ast.Ident); ok && id.Name == "make" && len(call.Args) == 2 {
			if ct, ok := call.Args[0].(*ast.ChanType); ok {
				// buffered channel: register at creation (addresses of collected channels are reused)
				r.changed, r.needV = true, true
				done[call] = true
				return &ast.TypeAssertExpr{X: vcall("Buf", call), Type: ct}
			}
		}
		return e
	}
	ast.Inspect(f, func(x ast.Node) bool {
		switch v := x.(type) {
		case *ast.AssignStmt:
			for i := range v.Rhs {
				v.Rhs[i] = rewrite(v.Rhs[i])
			}
		case *ast.ValueSpec:
			for i := range v.Values {
				v.Values[i] = rewrite(v.Values[i])
			}
		case *ast.KeyValueExpr:
			v.Value = rewrite(v.Value)
		case *ast.CallExpr:
			for i := range v.Args {
				v.Args[i] = rewrite(v.Args[i])
			}
		case *ast.ReturnStmt:
			for i := range v.Results {
				v.Results[i] = rewrite(v.Results[i])
			}
		case *ast.UnaryExpr:
			v.X = rewrite(v.X)
		}
		return true
	})
}

func processFile(fset *token.FileSet, path string, skipSel bool) ([]byte, bool, []string) {
	src, err := os.ReadFile(path)
	if err != nil {
		return nil, false, []string{err.Error()}
	}
	f, err := parser.ParseFile(fset, path, src, parser.ParseComments)
	if err != nil {
		return nil, false, []string{err.Error()}
	}
	r := &rewriter{fset: fset, file: path, skipSel: skipSel}
	usesTime := false
	for _, imp := range f.Imports {
		switch imp.Path.Value {
		case `"sync"`:
			imp.Path.Value = `"` + vsyncPath + `"`
			imp.Name = ast.NewIdent("sync")
			r.changed = true
		case `"sync/atomic"`:
			imp.Path.Value = `"` + vsyncPath + `/vatomic"`
			imp.Name = ast.NewIdent("atomic")
			r.changed = true
		case `"time"`:
			usesTime = true
		}
	}
	if !skipSel {
		r.rewriteMakeChan(f)
		r.visit(f)
	}
	if len(r.errs) > 0 {
		return nil, false, r.errs
	}
	if !r.changed {
		return nil, false, nil
	}
	if r.needV {
		// add import vsync_ "…/vsync"
		spec := &ast.ImportSpec{Name: ast.NewIdent("vsync_"), Path: &ast.BasicLit{Kind: token.STRING, Value: `"` + vsyncPath + `"`}}
		added := false
		for _, d := range f.Decls {
			if gd, ok := d.(*ast.GenDecl); ok && gd.Tok == token.IMPORT {
				gd.Specs = append(gd.Specs, spec)
				if !gd.Lparen.IsValid() {
					gd.Lparen = gd.Pos()
					gd.Rparen = gd.End()
				}
				added = true
				break
			}
		}
		if !added {
			f.Decls = append([]ast.Decl{&ast.GenDecl{Tok: token.IMPORT, Specs: []ast.Spec{spec}}}, f.Decls...)
		}
	}
	var buf bytes.Buffer
	if err := format.Node(&buf, fset, f); err != nil {
		return nil, false, []string{fmt.Sprintf("%s: format: %v", path, err)}
	}
	out := buf.Bytes()
	if usesTime && !bytes.Contains(out, []byte("time.")) {
		// the only use of "time" was time.Sleep: keep the import alive
		out = append(out, []byte("\nvar _ = time.Now\n")...)
	}
	return out, true, nil
}

func main() {
	if len(os.Args) < 6 {
		fmt.Fprintln(os.Stderr, "usage: instr <repo> <outdir> <vsyncdir> <harnessdir> <overlay.json>")
		os.Exit(2)
	}
	repo, outdir, vsyncdir, harnessdir, overlay := os.Args[1], os.Args[2], os.Args[3], os.Args[4], os.Args[5]
	os.MkdirAll(outdir, 0o755)
	replace := map[string]string{}
	fset := token.NewFileSet()
	var allErrs []string
	ctx := build.Default
	ctx.BuildTags = append(ctx.BuildTags, "verif")
	n := 0
	for _, pkg := range packages {
		dir := filepath.Join(repo, pkg)
		bp, err := ctx.ImportDir(dir, 0)
		if err != nil {
			allErrs = append(allErrs, fmt.Sprintf("%s: %v", pkg, err))
			continue
		}
		files := append([]string{}, bp.GoFiles...)
		sort.Strings(files)
		for _, fn := range files {
			path := filepath.Join(dir, fn)
			// serve_other.go: select/time.After/net/http live there; only its imports are redirected and
			// no scheduler harness ever enters it
			skipSel := pkg == "pkg/api" && strings.HasPrefix(fn, "serve_")
			skipSel = skipSel || (pkg == "pkg/cli")
			out, changed, errs := processFile(fset, path, skipSel)
			allErrs = append(allErrs, errs...)
			if !changed {
				continue
			}
			dst := filepath.Join(outdir, strings.ReplaceAll(pkg, "/", "_")+"__"+fn)
			if err := os.WriteFile(dst, out, 0o644); err != nil {
				allErrs = append(allErrs, err.Error())
			}
			replace[path] = dst
			n++
		}
	}
	if len(allErrs) > 0 {
		for _, e := range allErrs {
			fmt.Fprintln(os.Stderr, "instr:", e)
		}
		os.Exit(1)
	}
	// vsync packages and harness
	for _, m := range [][2]string{{vsyncdir, "internal/vsync"}, {filepath.Join(vsyncdir, "vatomic"), "internal/vsync/vatomic"}, {harnessdir, "internal/verifs"}} {
		fs, _ := filepath.Glob(filepath.Join(m[0], "*.go"))
		for _, f := range fs {
			replace[filepath.Join(repo, m[1], filepath.Base(f))] = f
		}
	}
	data, _ := json.MarshalIndent(map[string]interface{}{"Replace": replace}, "", " ")
	if err := os.WriteFile(overlay, data, 0o644); err != nil {
		fmt.Fprintln(os.Stderr, err)
		os.Exit(1)
	}
	fmt.Printf("instr: %d files rewritten, overlay %s\n", n, overlay)
}
